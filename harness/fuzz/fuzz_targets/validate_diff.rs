//! libFuzzer target for C09 (thorough tier): the fuzzer's bytes are the choice stream of the same interpreters the
//! proptest streams of c09.rs use (schema / world / typed document generators + the rule-targeted mutation operators);
//! the oracle is the reference validator comparison of c09.rs (`run_case`).
#![no_main]
#[allow(dead_code)]
#[path = "../../vcheck/src/c09.rs"]
mod c09;

use libfuzzer_sys::fuzz_target;

fuzz_target!(|data: &[u8]| {
    if let Some(why) = c09::fuzz_one(data) {
        panic!("validation differs from the reference validator: {}", why);
    }
});
