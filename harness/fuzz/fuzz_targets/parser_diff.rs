//! libFuzzer target for C13 (thorough tier): byte-level differential between async-graphql's parser and the
//! reference parser, with the same oracle as the proptest streams (`judge_exec` / `judge_sdl` of c13.rs).
#![no_main]
#[allow(dead_code)]
#[path = "../../vcheck/src/agconv.rs"]
mod agconv;
#[allow(dead_code)]
#[path = "../../vcheck/src/c13.rs"]
mod c13;

use libfuzzer_sys::fuzz_target;

fuzz_target!(|data: &[u8]| {
    let text = match std::str::from_utf8(data) {
        Ok(t) => t,
        Err(_) => return,
    };
    // first byte parity chooses the grammar so that one corpus serves both
    let (kind, body) = match text.strip_prefix('S') {
        Some(rest) => ("sdl", rest),
        None => ("exec", text),
    };
    // open findings are tolerated in-target (the campaign must not stop at a recorded deviation)
    let f2_open = true;
    let (r, _cls) = if kind == "exec" { c13::judge_exec(body, f2_open) } else { c13::judge_sdl(body) };
    if let Err(e) = r {
        panic!("C13 violation ({}): {}\ninput: {:?}", kind, e, body);
    }
});
