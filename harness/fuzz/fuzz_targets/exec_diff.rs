//! libFuzzer target for C01/C02 (thorough tier): the fuzzer's bytes are the choice stream of the same
//! interpreters the proptest streams use (schema / world / typed document generators); the oracle is the
//! reference executor comparison of c01.rs / c02.rs.
#![no_main]
#[allow(dead_code)]
#[path = "../../vcheck/src/execcmp.rs"]
mod execcmp;
#[allow(dead_code)]
#[path = "../../vcheck/src/c02.rs"]
mod c02;
#[allow(dead_code)]
#[path = "../../vcheck/src/c01.rs"]
mod c01;

use libfuzzer_sys::fuzz_target;
use std::sync::OnceLock;
use vcore::{ByteSrc, Verdict};
use vgql::gentyped::TypedCfg;
use vgql::refexec::Quirks;
use vgql::world::WorldCfg;

static Z: OnceLock<(vschemas::z::ZSchema, vgql::sch::Sch)> = OnceLock::new();

fuzz_target!(|data: &[u8]| {
    if data.len() < 8 {
        return;
    }
    let (z, zsch) = Z.get_or_init(|| {
        let z = vschemas::z::build_z(|b| b);
        let sch = vschemas::z::z_sch(&z);
        (z, sch)
    });
    let mut cfg = TypedCfg::default();
    cfg.ops = vec![vgql::ast::OpKind::Query, vgql::ast::OpKind::Mutation];
    // first byte selects the flavour; the rest is the choice stream
    let mut src = ByteSrc::new(&data[1..]);
    let case = if data[0] % 2 == 0 {
        // open finding C01-F3 (non-finite floats) is excluded by construction
        c01::run_one(z, zsch, &mut src, &cfg, &WorldCfg::default(), Quirks::default(), &[])
    } else {
        // bit 1: resolvers may yield null for non-null leaves (fields and list items)
        c02::run_one(&mut src, &cfg, data[0] & 2 != 0, Quirks::default(), &[])
    };
    if let Verdict::Fail(why) = &case.verdict {
        panic!("execution differs from the reference executor: {}\n{}", why, case.text);
    }
});
