//! Schema model of the harness (`Sch`) and its construction from a type-system document read by the reference
//! parser.
use crate::ast::*;
use crate::refparse::*;
use indexmap::IndexMap;

#[derive(Clone, Copy, Debug, PartialEq, Eq, Hash)]
pub enum Kind {
    Scalar,
    Object,
    Interface,
    Union,
    Enum,
    Input,
}

#[derive(Clone, Debug, PartialEq)]
pub struct ArgDef {
    pub name: String,
    pub ty: Ty,
    pub default: Option<Val>,
    pub desc: Option<String>,
    pub deprecated: Option<Option<String>>,
}

#[derive(Clone, Debug, PartialEq)]
pub struct FieldDef {
    pub name: String,
    pub args: Vec<ArgDef>,
    pub ty: Ty,
    pub desc: Option<String>,
    pub deprecated: Option<Option<String>>,
}
impl FieldDef {
    pub fn arg(&self, n: &str) -> Option<&ArgDef> {
        self.args.iter().find(|a| a.name == n)
    }
}

#[derive(Clone, Debug, PartialEq)]
pub struct EnumValDef {
    pub name: String,
    pub desc: Option<String>,
    pub deprecated: Option<Option<String>>,
}

#[derive(Clone, Debug, PartialEq)]
pub struct TypeDef {
    pub name: String,
    pub kind: Kind,
    pub desc: Option<String>,
    pub fields: Vec<FieldDef>,
    pub interfaces: Vec<String>,
    pub members: Vec<String>,
    pub values: Vec<EnumValDef>,
    pub input_fields: Vec<ArgDef>,
    pub one_of: bool,
}
impl TypeDef {
    pub fn new(name: &str, kind: Kind) -> TypeDef {
        TypeDef { name: name.into(), kind, desc: None, fields: vec![], interfaces: vec![], members: vec![], values: vec![], input_fields: vec![], one_of: false }
    }
    pub fn field(&self, n: &str) -> Option<&FieldDef> {
        self.fields.iter().find(|f| f.name == n)
    }
}

#[derive(Clone, Debug, PartialEq, Default)]
pub struct Sch {
    pub types: IndexMap<String, TypeDef>,
    pub query: String,
    pub mutation: Option<String>,
    pub subscription: Option<String>,
}

pub const BUILTIN_SCALARS: [&str; 5] = ["Int", "Float", "String", "Boolean", "ID"];

impl Sch {
    pub fn ty(&self, n: &str) -> Option<&TypeDef> {
        self.types.get(n)
    }
    pub fn kind(&self, n: &str) -> Option<Kind> {
        if BUILTIN_SCALARS.contains(&n) {
            return Some(Kind::Scalar);
        }
        self.types.get(n).map(|t| t.kind)
    }
    pub fn is_leaf(&self, n: &str) -> bool {
        matches!(self.kind(n), Some(Kind::Scalar) | Some(Kind::Enum))
    }
    pub fn is_composite(&self, n: &str) -> bool {
        matches!(self.kind(n), Some(Kind::Object) | Some(Kind::Interface) | Some(Kind::Union))
    }
    pub fn is_input(&self, n: &str) -> bool {
        matches!(self.kind(n), Some(Kind::Scalar) | Some(Kind::Enum) | Some(Kind::Input))
    }
    pub fn is_abstract(&self, n: &str) -> bool {
        matches!(self.kind(n), Some(Kind::Interface) | Some(Kind::Union))
    }
    pub fn root(&self, k: OpKind) -> Option<&str> {
        match k {
            OpKind::Query => Some(self.query.as_str()),
            OpKind::Mutation => self.mutation.as_deref(),
            OpKind::Subscription => self.subscription.as_deref(),
        }
    }
    /// does `sub` (object or interface) implement interface `iface`, directly or transitively
    pub fn implements(&self, sub: &str, iface: &str) -> bool {
        let mut seen = vec![];
        let mut stack = vec![sub.to_string()];
        while let Some(t) = stack.pop() {
            if seen.contains(&t) {
                continue;
            }
            seen.push(t.clone());
            if let Some(td) = self.types.get(&t) {
                for i in &td.interfaces {
                    if i == iface {
                        return true;
                    }
                    stack.push(i.clone());
                }
            }
        }
        false
    }
    /// object types that a composite type can be at run time
    pub fn possible_types(&self, n: &str) -> Vec<String> {
        match self.kind(n) {
            Some(Kind::Object) => vec![n.to_string()],
            Some(Kind::Union) => self.types[n].members.clone(),
            Some(Kind::Interface) => self.types.values().filter(|t| t.kind == Kind::Object && self.implements(&t.name, n)).map(|t| t.name.clone()).collect(),
            _ => vec![],
        }
    }
    /// DoesFragmentTypeApply(objectType, fragmentType)
    pub fn fragment_applies(&self, object: &str, cond: &str) -> bool {
        match self.kind(cond) {
            Some(Kind::Object) => object == cond,
            Some(Kind::Interface) => self.implements(object, cond),
            Some(Kind::Union) => self.types[cond].members.iter().any(|m| m == object),
            _ => false,
        }
    }
    /// field definition on an object/interface type (`__typename` handled by callers)
    pub fn field(&self, ty: &str, name: &str) -> Option<&FieldDef> {
        self.types.get(ty).and_then(|t| t.field(name))
    }
}

fn deprecation(ds: &[Directive]) -> Option<Option<String>> {
    ds.iter().find(|d| d.name.s == "deprecated").map(|d| {
        d.args.iter().find(|(n, _)| n.s == "reason").and_then(|(_, v)| match &v.v {
            Val::Str(s) => Some(s.clone()),
            _ => None,
        })
    })
}
fn arg_def(i: &InputDefn) -> ArgDef {
    let mut dv = i.default.clone();
    if let Some(v) = &mut dv {
        let mut pv = PVal::new(v.clone());
        strip_val(&mut pv);
        *v = pv.v;
    }
    ArgDef { name: i.name.clone(), ty: i.ty.clone(), default: dv, desc: i.desc.clone(), deprecated: deprecation(&i.directives) }
}

/// Build a `Sch` from a type-system document (definitions only; extensions are merged into their types).
pub fn from_sdl(doc: &SdlDoc) -> Result<Sch, String> {
    let mut s = Sch::default();
    let mut roots: Vec<(OpKind, String)> = vec![];
    for d in &doc.defs {
        match d {
            SdlDef::Schema(sd) => roots.extend(sd.ops.iter().cloned()),
            SdlDef::Directive(_) => {}
            SdlDef::Type(t) => {
                let kind = match t.kind {
                    TKind::Scalar => Kind::Scalar,
                    TKind::Object => Kind::Object,
                    TKind::Interface => Kind::Interface,
                    TKind::Union => Kind::Union,
                    TKind::Enum => Kind::Enum,
                    TKind::Input => Kind::Input,
                };
                let e = s.types.entry(t.name.clone()).or_insert_with(|| TypeDef::new(&t.name, kind));
                if e.kind != kind {
                    return Err(format!("type {} defined with two kinds", t.name));
                }
                if !t.extend {
                    e.desc = t.desc.clone();
                }
                e.one_of |= t.directives.iter().any(|d| d.name.s == "oneOf");
                e.interfaces.extend(t.interfaces.iter().cloned());
                e.members.extend(t.members.iter().cloned());
                for f in &t.fields {
                    e.fields.push(FieldDef { name: f.name.clone(), args: f.args.iter().map(arg_def).collect(), ty: f.ty.clone(), desc: f.desc.clone(), deprecated: deprecation(&f.directives) });
                }
                for v in &t.values {
                    e.values.push(EnumValDef { name: v.name.clone(), desc: v.desc.clone(), deprecated: deprecation(&v.directives) });
                }
                for f in &t.input_fields {
                    e.input_fields.push(arg_def(f));
                }
            }
        }
    }
    if roots.is_empty() {
        // default root type names
        if s.types.contains_key("Query") {
            roots.push((OpKind::Query, "Query".into()));
        }
        if s.types.contains_key("Mutation") {
            roots.push((OpKind::Mutation, "Mutation".into()));
        }
        if s.types.contains_key("Subscription") {
            roots.push((OpKind::Subscription, "Subscription".into()));
        }
    }
    for (k, n) in roots {
        match k {
            OpKind::Query => s.query = n,
            OpKind::Mutation => s.mutation = Some(n),
            OpKind::Subscription => s.subscription = Some(n),
        }
    }
    if s.query.is_empty() {
        return Err("no query root".into());
    }
    Ok(s)
}

pub fn from_sdl_text(text: &str) -> Result<Sch, String> {
    let d = parse_type_system(text, &Opts::default()).map_err(|e| format!("SDL does not parse at {}:{}: {}", e.pos.line, e.pos.col, e.msg))?;
    from_sdl(&d)
}
