//! Reference executor, written from §6 of the specification: CollectFields with a visited-fragment set and
//! DoesFragmentTypeApply, @skip/@include on coerced variable values, grouped field sets merged per response key,
//! ExecuteField, CompleteValue with non-null propagation to the nearest nullable position, one error (path,
//! location of the first field node) per failing field.
use crate::ast::*;
use crate::coerce::*;
use crate::sch::*;
use crate::world::*;
use indexmap::IndexMap;
use serde_json::Value as J;
use std::collections::HashSet;

#[derive(Clone, Debug, PartialEq, Eq, Hash, PartialOrd, Ord)]
pub enum Seg {
    Key(String),
    Idx(usize),
}
pub type Path = Vec<Seg>;

pub fn show_path(p: &Path) -> String {
    p.iter()
        .map(|s| match s {
            Seg::Key(k) => k.clone(),
            Seg::Idx(i) => i.to_string(),
        })
        .collect::<Vec<_>>()
        .join(".")
}

#[derive(Clone, Debug, PartialEq)]
pub struct RefErr {
    pub path: Path,
    pub loc: Pos,
    pub what: String,
    /// the position that this error turned into null (the field itself, or an ancestor through non-null
    /// propagation); empty path = `data`
    pub nulled: Path,
}

/// one executed field: which (node, field) was resolved at which response path
#[derive(Clone, Debug, PartialEq)]
pub struct Touch {
    pub path: Path,
    pub node: usize,
    pub parent_type: String,
    pub field: String,
    pub ty: Ty,
    pub args: IndexMap<String, CV>,
    pub loc: Pos,
    /// number of field nodes merged under this response key (CollectFields with the visited-fragment set)
    pub occurrences: usize,
    /// the same count when every spread of a fragment is followed (no visited set)
    pub occurrences_all_spreads: usize,
}

#[derive(Clone, Debug, Default)]
pub struct RefOut {
    pub data: Option<J>,
    pub errors: Vec<RefErr>,
    pub touches: Vec<Touch>,
    /// number of completed list items
    pub list_items: usize,
}

#[derive(Clone, Debug, PartialEq)]
pub enum ReqErr {
    NoOperation(String),
    Variables(CoErr),
    Unsupported(String),
}

pub struct Exec<'a> {
    pub sch: &'a Sch,
    pub doc: &'a Doc,
    pub world: &'a World,
    pub vars: Vars,
    pub out: RefOut,
    /// quirks of OPEN known findings (switches of the oracle)
    pub quirks: Quirks,
    /// set while completing a field whose injected fault is "value invalid for its type"
    pub invalid_leaves: bool,
    /// per response key of the selection set being executed: occurrences when every spread is followed
    pub pending_occ_all: IndexMap<String, usize>,
}

#[derive(Clone, Copy, Debug, Default, PartialEq)]
pub struct Quirks {
    /// C01-F1 / C02-F1: a fragment whose type condition names a union (or, dynamic: an interface not listed
    /// directly) contributes no fields when collected for an object reached through a non-union static type
    pub union_condition_in_object_dropped: bool,
    /// C01-F3: a non-finite float serialises as null without an error
    pub non_finite_float_is_null: bool,
}

struct Propagate;

pub fn select_operation<'d>(doc: &'d Doc, name: Option<&str>) -> Result<&'d OpDef, ReqErr> {
    let ops: Vec<&OpDef> = doc.ops().collect();
    match name {
        None => {
            if ops.len() == 1 {
                Ok(ops[0])
            } else {
                Err(ReqErr::NoOperation("operation name required".into()))
            }
        }
        Some(n) => ops.into_iter().find(|o| o.name.as_ref().map(|x| x.s.as_str()) == Some(n)).ok_or_else(|| ReqErr::NoOperation(format!("unknown operation {}", n))),
    }
}

/// Is the selection included, given its @skip/@include directives?
pub fn included(dirs: &[Directive], vars: &Vars) -> bool {
    let get = |name: &str| -> Option<bool> {
        dirs.iter().find(|d| d.name.s == name).and_then(|d| d.args.iter().find(|(n, _)| n.s == "if")).map(|(_, v)| match &v.v {
            Val::Bool(b) => *b,
            Val::Var(n) => matches!(vars.get(n), Some(CV::Bool(true))),
            _ => false,
        })
    };
    if get("skip") == Some(true) {
        return false;
    }
    if get("include") == Some(false) {
        return false;
    }
    true
}

impl<'a> Exec<'a> {
    /// CollectFields(objectType, selectionSet, variableValues, visitedFragments)
    pub fn collect<'s>(&'s self, object_type: &str, static_type: &str, sel: &'a SelSet, visited: &mut HashSet<String>, grouped: &mut IndexMap<String, Vec<&'a Field>>) {
        for it in &sel.items {
            match it {
                Selection::Field(f) => {
                    if !included(&f.directives, &self.vars) {
                        continue;
                    }
                    grouped.entry(f.key().to_string()).or_default().push(f);
                }
                Selection::Spread(sp) => {
                    if !included(&sp.directives, &self.vars) {
                        continue;
                    }
                    if !visited.insert(sp.name.s.clone()) {
                        continue;
                    }
                    let fr = match self.doc.frag(&sp.name.s) {
                        Some(f) => f,
                        None => continue,
                    };
                    if !self.applies(object_type, static_type, &fr.cond.s) {
                        continue;
                    }
                    self.collect(object_type, static_type, &fr.sel, visited, grouped);
                }
                Selection::Inline(inl) => {
                    if !included(&inl.directives, &self.vars) {
                        continue;
                    }
                    if let Some(c) = &inl.cond {
                        if !self.applies(object_type, static_type, &c.s) {
                            continue;
                        }
                    }
                    self.collect(object_type, static_type, &inl.sel, visited, grouped);
                }
            }
        }
    }
    fn count_all(&self, object_type: &str, sel: &'a SelSet, out: &mut IndexMap<String, usize>, depth: usize) {
        if depth > 32 {
            return;
        }
        for it in &sel.items {
            match it {
                Selection::Field(f) => {
                    if included(&f.directives, &self.vars) {
                        *out.entry(f.key().to_string()).or_insert(0) += 1;
                    }
                }
                Selection::Spread(sp) => {
                    if !included(&sp.directives, &self.vars) {
                        continue;
                    }
                    if let Some(fr) = self.doc.frag(&sp.name.s) {
                        if self.applies(object_type, object_type, &fr.cond.s) {
                            self.count_all(object_type, &fr.sel, out, depth + 1);
                        }
                    }
                }
                Selection::Inline(inl) => {
                    if !included(&inl.directives, &self.vars) {
                        continue;
                    }
                    if inl.cond.as_ref().map_or(true, |c| self.applies(object_type, object_type, &c.s)) {
                        self.count_all(object_type, &inl.sel, out, depth + 1);
                    }
                }
            }
        }
    }
    fn applies(&self, object_type: &str, _static_type: &str, cond: &str) -> bool {
        if self.quirks.union_condition_in_object_dropped && self.sch.kind(cond) == Some(Kind::Union) && object_type != cond {
            return false;
        }
        self.sch.fragment_applies(object_type, cond)
    }

    fn err(&mut self, path: &Path, loc: Pos, what: &str) {
        self.out.errors.push(RefErr { path: path.clone(), loc, what: what.to_string(), nulled: path.clone() });
    }

    /// ExecuteSelectionSet
    fn exec_selset(&mut self, sels: &[&'a SelSet], object_type: &str, node: usize, path: &Path) -> Result<J, Propagate> {
        let mut grouped: IndexMap<String, Vec<&'a Field>> = IndexMap::new();
        let mut visited = HashSet::new();
        for s in sels {
            self.collect(object_type, object_type, s, &mut visited, &mut grouped);
        }
        // occurrences without the visited set (quirk counting for C04)
        let mut all: IndexMap<String, usize> = IndexMap::new();
        for s in sels {
            self.count_all(object_type, s, &mut all, 0);
        }
        let mut map = serde_json::Map::new();
        let mut failed = false;
        for (key, fields) in grouped {
            self.pending_occ_all = all.clone();
            let mut p = path.clone();
            p.push(Seg::Key(key.clone()));
            match self.exec_field(object_type, node, &fields, &p) {
                Ok(v) => {
                    map.insert(key, v);
                }
                Err(Propagate) => {
                    // keep executing siblings so that every error of a full execution is known (the comparison
                    // decides which of them an implementation may omit)
                    failed = true;
                }
            }
        }
        if failed {
            Err(Propagate)
        } else {
            Ok(J::Object(map))
        }
    }

    fn exec_field(&mut self, object_type: &str, node: usize, fields: &[&'a Field], path: &Path) -> Result<J, Propagate> {
        let f = fields[0];
        let loc = f.pos;
        if f.name.s == "__typename" {
            return Ok(J::String(object_type.to_string()));
        }
        let fd = match self.sch.field(object_type, &f.name.s) {
            Some(fd) => fd.clone(),
            None => {
                self.err(path, loc, "unknown field");
                return Ok(J::Null);
            }
        };
        let args = match coerce_arguments(self.sch, &fd, &f.args, &self.vars) {
            Ok(a) => a,
            Err(e) => {
                self.err(path, loc, &format!("argument coercion: {}", e.msg));
                return self.null_or_propagate(&fd.ty, path);
            }
        };
        let occ_all = self.pending_occ_all.get(f.key()).copied().unwrap_or(fields.len());
        self.out.touches.push(Touch {
            path: path.clone(),
            node,
            parent_type: object_type.to_string(),
            field: f.name.s.clone(),
            ty: fd.ty.clone(),
            args,
            loc,
            occurrences: fields.len(),
            occurrences_all_spreads: occ_all,
        });
        let mut v = self.world.value(node, &f.name.s).cloned().unwrap_or(WVal::Null);
        match self.world.fault(node, &f.name.s) {
            // a value that is invalid for its (leaf) type fails where that leaf is completed: at the field for a
            // plain leaf, at the item for list items; nulls stay nulls
            Some(Fault::InvalidValue) => self.invalid_leaves = true,
            // the resolver yields nothing: null, which is a field error only at a non-null position
            Some(Fault::NothingForNonNull) => v = WVal::Null,
            Some(fault) => {
                self.err(path, loc, &format!("fault {:?}", fault));
                return self.null_or_propagate(&fd.ty, path);
            }
            None => {}
        }
        let r = self.complete(&fd.ty, fields, &v, path, loc);
        self.invalid_leaves = false;
        r
    }

    fn null_or_propagate(&mut self, ty: &Ty, _path: &Path) -> Result<J, Propagate> {
        if ty.is_nn() {
            Err(Propagate)
        } else {
            Ok(J::Null)
        }
    }

    /// CompleteValue. `Err(Propagate)` = this position must become null because of an error that has already been
    /// recorded; a nullable type absorbs it, a non-null type passes it on.
    fn complete(&mut self, ty: &Ty, fields: &[&'a Field], v: &WVal, path: &Path, loc: Pos) -> Result<J, Propagate> {
        if self.quirks.non_finite_float_is_null {
            if let WVal::Float(f) = v {
                if !f.is_finite() && !ty.is_list() {
                    // quirk C01-F3: null, silently, even at a non-null position
                    return Ok(J::Null);
                }
            }
        }
        match ty {
            Ty::NonNull(inner) => match self.complete_nullable(inner, fields, v, path, loc) {
                Ok(J::Null) => {
                    // the resolver produced null for a non-null type: that is a field error of its own
                    self.err(path, loc, "null for non-null type");
                    Err(Propagate)
                }
                r => r,
            },
            t => match self.complete_nullable(t, fields, v, path, loc) {
                Err(Propagate) => Ok(J::Null),
                r => r,
            },
        }
    }

    fn complete_nullable(&mut self, ty: &Ty, fields: &[&'a Field], v: &WVal, path: &Path, loc: Pos) -> Result<J, Propagate> {
        if *v == WVal::Null {
            return Ok(J::Null);
        }
        match ty {
            Ty::NonNull(_) => unreachable!("NonNull directly inside NonNull"),
            Ty::List(inner) => match v {
                WVal::List(items) => {
                    let mut out = vec![];
                    let mut failed = false;
                    for (i, it) in items.iter().enumerate() {
                        let mut p = path.clone();
                        p.push(Seg::Idx(i));
                        self.out.list_items += 1;
                        match self.complete(inner, fields, it, &p, loc) {
                            Ok(x) => out.push(x),
                            Err(Propagate) => failed = true,
                        }
                    }
                    if failed {
                        Err(Propagate)
                    } else {
                        Ok(J::Array(out))
                    }
                }
                _ => {
                    self.err(path, loc, "non-list value for list type");
                    Err(Propagate)
                }
            },
            Ty::Named(n) => {
                if self.sch.is_leaf(n) {
                    if self.invalid_leaves {
                        self.err(path, loc, "injected: value invalid for its type");
                        return Err(Propagate);
                    }
                    match self.serialize_leaf(n, v) {
                        Some(j) => Ok(j),
                        None => {
                            self.err(path, loc, "value cannot be serialized as its declared type");
                            Err(Propagate)
                        }
                    }
                } else {
                    let node = match v {
                        WVal::Ref(n) => *n,
                        _ => {
                            self.err(path, loc, "non-object value for composite type");
                            return Err(Propagate);
                        }
                    };
                    let rt = self.world.nodes[node].ty.clone();
                    if !self.sch.possible_types(n).contains(&rt) {
                        self.err(path, loc, "runtime type is not a possible type");
                        return Err(Propagate);
                    }
                    let sels: Vec<&'a SelSet> = fields.iter().map(|f| &f.sel).collect();
                    self.exec_selset(&sels, &rt, node, path)
                }
            }
        }
    }

    fn serialize_leaf(&self, ty: &str, v: &WVal) -> Option<J> {
        match (ty, v) {
            ("Int", WVal::Int(i)) if *i >= i32::MIN as i64 && *i <= i32::MAX as i64 => Some(J::from(*i)),
            ("Float", WVal::Float(f)) => {
                if f.is_finite() {
                    Some(J::Number(serde_json::Number::from_f64(*f).unwrap()))
                } else if self.quirks.non_finite_float_is_null {
                    Some(J::Null)
                } else {
                    None
                }
            }
            ("Float", WVal::Int(i)) => Some(J::Number(serde_json::Number::from_f64(*i as f64).unwrap())),
            ("String", WVal::Str(s)) => Some(J::String(s.clone())),
            ("Boolean", WVal::Bool(b)) => Some(J::Bool(*b)),
            ("ID", WVal::Str(s)) => Some(J::String(s.clone())),
            ("ID", WVal::Int(i)) => Some(J::String(i.to_string())),
            (_, WVal::Enum(e)) => match self.sch.ty(ty) {
                Some(td) if td.kind == Kind::Enum && td.values.iter().any(|x| &x.name == e) => Some(J::String(e.clone())),
                _ => None,
            },
            (_, WVal::Int(i)) if self.sch.kind(ty) == Some(Kind::Scalar) && !BUILTIN_SCALARS.contains(&ty) => Some(J::from(*i)),
            _ => None,
        }
    }
}

/// Fix up `nulled` of every error: walk from the error's path upwards while the positions are non-null typed.
/// Done by re-deriving from the final data: the nulled position is the longest prefix of the error path that is
/// present in `data` as null (or `data` itself).
fn assign_nulled(out: &mut RefOut) {
    for e in &mut out.errors {
        let mut cur: Option<&J> = out.data.as_ref();
        let mut prefix: Path = vec![];
        let mut nulled: Path = vec![];
        let mut found = false;
        if cur.is_none() || cur == Some(&J::Null) {
            e.nulled = vec![];
            continue;
        }
        for seg in &e.path {
            let next = match (cur, seg) {
                (Some(J::Object(m)), Seg::Key(k)) => m.get(k),
                (Some(J::Array(a)), Seg::Idx(i)) => a.get(*i),
                _ => None,
            };
            prefix.push(seg.clone());
            match next {
                Some(J::Null) => {
                    nulled = prefix.clone();
                    found = true;
                    break;
                }
                Some(x) => cur = Some(x),
                None => break,
            }
        }
        if found {
            e.nulled = nulled;
        }
    }
}

/// Execute a request. Subscriptions are executed like queries on the subscription root (per-event execution is
/// the callers' business).
pub fn execute(sch: &Sch, doc: &Doc, op_name: Option<&str>, provided: &IndexMap<String, CV>, world: &World, quirks: Quirks) -> Result<RefOut, ReqErr> {
    let op = select_operation(doc, op_name)?;
    let vars = coerce_variables(sch, op, provided).map_err(ReqErr::Variables)?;
    let (root_ty, root_node) = match op.kind {
        OpKind::Query => (sch.query.clone(), world.query_root),
        OpKind::Mutation => match (&sch.mutation, world.mutation_root) {
            (Some(t), Some(n)) => (t.clone(), n),
            _ => return Err(ReqErr::Unsupported("no mutation root".into())),
        },
        OpKind::Subscription => match (&sch.subscription, world.subscription_root) {
            (Some(t), Some(n)) => (t.clone(), n),
            _ => return Err(ReqErr::Unsupported("no subscription root".into())),
        },
    };
    let mut ex = Exec { sch, doc, world, vars, out: RefOut::default(), quirks, invalid_leaves: false, pending_occ_all: IndexMap::new() };
    let r = ex.exec_selset(&[&op.sel], &root_ty, root_node, &vec![]);
    let mut out = ex.out;
    out.data = match r {
        Ok(j) => Some(j),
        Err(Propagate) => Some(J::Null),
    };
    assign_nulled(&mut out);
    Ok(out)
}

/// Quirk model of known finding C04-F1: "every occurrence of a response key is executed separately (every spread
/// followed, no merging before execution)". Returns the number of resolver starts per response path that this
/// behaviour produces on a fault-free world.
pub fn starts_per_occurrence(sch: &Sch, doc: &Doc, op_name: Option<&str>, provided: &IndexMap<String, CV>, world: &World) -> Result<std::collections::HashMap<String, usize>, ReqErr> {
    let op = select_operation(doc, op_name)?;
    let vars = coerce_variables(sch, op, provided).map_err(ReqErr::Variables)?;
    let (root_ty, root_node) = match op.kind {
        OpKind::Query => (sch.query.clone(), world.query_root),
        OpKind::Mutation => (sch.mutation.clone().unwrap_or_default(), world.mutation_root.unwrap_or(0)),
        OpKind::Subscription => (sch.subscription.clone().unwrap_or_default(), world.subscription_root.unwrap_or(0)),
    };
    let ex = Exec { sch, doc, world, vars, out: RefOut::default(), quirks: Quirks::default(), invalid_leaves: false, pending_occ_all: IndexMap::new() };
    let mut out = std::collections::HashMap::new();
    fn values(ex: &Exec, ty: &Ty, v: &WVal, path: &str, f: &Field, out: &mut std::collections::HashMap<String, usize>, depth: usize) {
        match v {
            WVal::Null => {}
            WVal::List(items) => {
                let inner = match ty.nullable() {
                    Ty::List(i) => (**i).clone(),
                    t => t.clone(),
                };
                for (i, it) in items.iter().enumerate() {
                    values(ex, &inner, it, &format!("{}.{}", path, i), f, out, depth);
                }
            }
            WVal::Ref(n) => {
                let rt = ex.world.nodes[*n].ty.clone();
                walk(ex, &rt, *n, &f.sel, path, out, depth + 1);
            }
            _ => {}
        }
    }
    fn walk(ex: &Exec, object_type: &str, node: usize, sel: &SelSet, path: &str, out: &mut std::collections::HashMap<String, usize>, depth: usize) {
        if depth > 40 {
            return;
        }
        for it in &sel.items {
            match it {
                Selection::Field(f) => {
                    if !included(&f.directives, &ex.vars) || f.name.s == "__typename" {
                        continue;
                    }
                    let p = if path.is_empty() { f.key().to_string() } else { format!("{}.{}", path, f.key()) };
                    *out.entry(p.clone()).or_insert(0) += 1;
                    if let Some(fd) = ex.sch.field(object_type, &f.name.s) {
                        if let Some(v) = ex.world.value(node, &f.name.s) {
                            values(ex, &fd.ty, v, &p, f, out, depth);
                        }
                    }
                }
                Selection::Spread(sp) => {
                    if !included(&sp.directives, &ex.vars) {
                        continue;
                    }
                    if let Some(fr) = ex.doc.frag(&sp.name.s) {
                        if ex.sch.fragment_applies(object_type, &fr.cond.s) {
                            walk(ex, object_type, node, &fr.sel, path, out, depth + 1);
                        }
                    }
                }
                Selection::Inline(inl) => {
                    if !included(&inl.directives, &ex.vars) {
                        continue;
                    }
                    if inl.cond.as_ref().map_or(true, |c| ex.sch.fragment_applies(object_type, &c.s)) {
                        walk(ex, object_type, node, &inl.sel, path, out, depth + 1);
                    }
                }
            }
        }
    }
    walk(&ex, &root_ty, root_node, &op.sel, "", &mut out, 0);
    Ok(out)
}
