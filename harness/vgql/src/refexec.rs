//! Reference executor, written from §6 of the specification: CollectFields with a visited-fragment set and
//! DoesFragmentTypeApply, @skip/@include on coerced variable values, grouped field sets merged per response key,
//! ExecuteField, CompleteValue with non-null propagation to the nearest nullable position, one error (path,
//! location of the first field node) per failing field.
use crate::ast::*;
use crate::coerce::*;
use crate::sch::*;
use crate::world::*;
use indexmap::IndexMap;
use serde_json::Value as J;
use std::collections::HashSet;

#[derive(Clone, Debug, PartialEq, Eq, Hash, PartialOrd, Ord)]
pub enum Seg {
    Key(String),
    Idx(usize),
}
pub type Path = Vec<Seg>;

pub fn show_path(p: &Path) -> String {
    p.iter()
        .map(|s| match s {
            Seg::Key(k) => k.clone(),
            Seg::Idx(i) => i.to_string(),
        })
        .collect::<Vec<_>>()
        .join(".")
}

#[derive(Clone, Debug, PartialEq)]
pub struct RefErr {
    pub path: Path,
    pub loc: Pos,
    pub what: String,
    /// the position that this error turned into null (the field itself, or an ancestor through non-null
    /// propagation); empty path = `data`
    pub nulled: Path,
}

/// one executed field: which (node, field) was resolved at which response path
#[derive(Clone, Debug, PartialEq)]
pub struct Touch {
    pub path: Path,
    pub node: usize,
    pub parent_type: String,
    pub field: String,
    pub ty: Ty,
    pub args: IndexMap<String, CV>,
    pub loc: Pos,
}

#[derive(Clone, Debug, Default)]
pub struct RefOut {
    pub data: Option<J>,
    pub errors: Vec<RefErr>,
    pub touches: Vec<Touch>,
    /// number of completed list items
    pub list_items: usize,
}

#[derive(Clone, Debug, PartialEq)]
pub enum ReqErr {
    NoOperation(String),
    Variables(CoErr),
    Unsupported(String),
}

pub struct Exec<'a> {
    pub sch: &'a Sch,
    pub doc: &'a Doc,
    pub world: &'a World,
    pub vars: Vars,
    pub out: RefOut,
    /// quirks of OPEN known findings (switches of the oracle)
    pub quirks: Quirks,
}

#[derive(Clone, Copy, Debug, Default, PartialEq)]
pub struct Quirks {
    /// C01-F1 / C02-F1: a fragment whose type condition names a union (or, dynamic: an interface not listed
    /// directly) contributes no fields when collected for an object reached through a non-union static type
    pub union_condition_in_object_dropped: bool,
    /// C01-F3: a non-finite float serialises as null without an error
    pub non_finite_float_is_null: bool,
}

struct Propagate;

pub fn select_operation<'d>(doc: &'d Doc, name: Option<&str>) -> Result<&'d OpDef, ReqErr> {
    let ops: Vec<&OpDef> = doc.ops().collect();
    match name {
        None => {
            if ops.len() == 1 {
                Ok(ops[0])
            } else {
                Err(ReqErr::NoOperation("operation name required".into()))
            }
        }
        Some(n) => ops.into_iter().find(|o| o.name.as_ref().map(|x| x.s.as_str()) == Some(n)).ok_or_else(|| ReqErr::NoOperation(format!("unknown operation {}", n))),
    }
}

/// Is the selection included, given its @skip/@include directives?
pub fn included(dirs: &[Directive], vars: &Vars) -> bool {
    let get = |name: &str| -> Option<bool> {
        dirs.iter().find(|d| d.name.s == name).and_then(|d| d.args.iter().find(|(n, _)| n.s == "if")).map(|(_, v)| match &v.v {
            Val::Bool(b) => *b,
            Val::Var(n) => matches!(vars.get(n), Some(CV::Bool(true))),
            _ => false,
        })
    };
    if get("skip") == Some(true) {
        return false;
    }
    if get("include") == Some(false) {
        return false;
    }
    true
}

impl<'a> Exec<'a> {
    /// CollectFields(objectType, selectionSet, variableValues, visitedFragments)
    pub fn collect<'s>(&'s self, object_type: &str, static_type: &str, sel: &'a SelSet, visited: &mut HashSet<String>, grouped: &mut IndexMap<String, Vec<&'a Field>>) {
        for it in &sel.items {
            match it {
                Selection::Field(f) => {
                    if !included(&f.directives, &self.vars) {
                        continue;
                    }
                    grouped.entry(f.key().to_string()).or_default().push(f);
                }
                Selection::Spread(sp) => {
                    if !included(&sp.directives, &self.vars) {
                        continue;
                    }
                    if !visited.insert(sp.name.s.clone()) {
                        continue;
                    }
                    let fr = match self.doc.frag(&sp.name.s) {
                        Some(f) => f,
                        None => continue,
                    };
                    if !self.applies(object_type, static_type, &fr.cond.s) {
                        continue;
                    }
                    self.collect(object_type, static_type, &fr.sel, visited, grouped);
                }
                Selection::Inline(inl) => {
                    if !included(&inl.directives, &self.vars) {
                        continue;
                    }
                    if let Some(c) = &inl.cond {
                        if !self.applies(object_type, static_type, &c.s) {
                            continue;
                        }
                    }
                    self.collect(object_type, static_type, &inl.sel, visited, grouped);
                }
            }
        }
    }
    fn applies(&self, object_type: &str, _static_type: &str, cond: &str) -> bool {
        if self.quirks.union_condition_in_object_dropped && self.sch.kind(cond) == Some(Kind::Union) && object_type != cond {
            return false;
        }
        self.sch.fragment_applies(object_type, cond)
    }

    fn err(&mut self, path: &Path, loc: Pos, what: &str) {
        self.out.errors.push(RefErr { path: path.clone(), loc, what: what.to_string(), nulled: path.clone() });
    }

    /// ExecuteSelectionSet
    fn exec_selset(&mut self, sels: &[&'a SelSet], object_type: &str, node: usize, path: &Path) -> Result<J, Propagate> {
        let mut grouped: IndexMap<String, Vec<&'a Field>> = IndexMap::new();
        let mut visited = HashSet::new();
        for s in sels {
            self.collect(object_type, object_type, s, &mut visited, &mut grouped);
        }
        let mut map = serde_json::Map::new();
        let mut failed = false;
        for (key, fields) in grouped {
            let mut p = path.clone();
            p.push(Seg::Key(key.clone()));
            match self.exec_field(object_type, node, &fields, &p) {
                Ok(v) => {
                    map.insert(key, v);
                }
                Err(Propagate) => {
                    // keep executing siblings so that every error of a full execution is known (the comparison
                    // decides which of them an implementation may omit)
                    failed = true;
                }
            }
        }
        if failed {
            Err(Propagate)
        } else {
            Ok(J::Object(map))
        }
    }

    fn exec_field(&mut self, object_type: &str, node: usize, fields: &[&'a Field], path: &Path) -> Result<J, Propagate> {
        let f = fields[0];
        let loc = f.pos;
        if f.name.s == "__typename" {
            return Ok(J::String(object_type.to_string()));
        }
        let fd = match self.sch.field(object_type, &f.name.s) {
            Some(fd) => fd.clone(),
            None => {
                self.err(path, loc, "unknown field");
                return Ok(J::Null);
            }
        };
        let args = match coerce_arguments(self.sch, &fd, &f.args, &self.vars) {
            Ok(a) => a,
            Err(e) => {
                self.err(path, loc, &format!("argument coercion: {}", e.msg));
                return self.null_or_propagate(&fd.ty, path);
            }
        };
        self.out.touches.push(Touch { path: path.clone(), node, parent_type: object_type.to_string(), field: f.name.s.clone(), ty: fd.ty.clone(), args, loc });
        if let Some(fault) = self.world.fault(node, &f.name.s) {
            self.err(path, loc, &format!("fault {:?}", fault));
            return self.null_or_propagate(&fd.ty, path);
        }
        let v = self.world.value(node, &f.name.s).cloned().unwrap_or(WVal::Null);
        self.complete(&fd.ty, fields, &v, path, loc)
    }

    fn null_or_propagate(&mut self, ty: &Ty, _path: &Path) -> Result<J, Propagate> {
        if ty.is_nn() {
            Err(Propagate)
        } else {
            Ok(J::Null)
        }
    }

    /// CompleteValue. `Err(Propagate)` = this position must become null because of an error that has already been
    /// recorded; a nullable type absorbs it, a non-null type passes it on.
    fn complete(&mut self, ty: &Ty, fields: &[&'a Field], v: &WVal, path: &Path, loc: Pos) -> Result<J, Propagate> {
        match ty {
            Ty::NonNull(inner) => match self.complete_nullable(inner, fields, v, path, loc) {
                Ok(J::Null) => {
                    // the resolver produced null for a non-null type: that is a field error of its own
                    self.err(path, loc, "null for non-null type");
                    Err(Propagate)
                }
                r => r,
            },
            t => match self.complete_nullable(t, fields, v, path, loc) {
                Err(Propagate) => Ok(J::Null),
                r => r,
            },
        }
    }

    fn complete_nullable(&mut self, ty: &Ty, fields: &[&'a Field], v: &WVal, path: &Path, loc: Pos) -> Result<J, Propagate> {
        if *v == WVal::Null {
            return Ok(J::Null);
        }
        match ty {
            Ty::NonNull(_) => unreachable!("NonNull directly inside NonNull"),
            Ty::List(inner) => match v {
                WVal::List(items) => {
                    let mut out = vec![];
                    let mut failed = false;
                    for (i, it) in items.iter().enumerate() {
                        let mut p = path.clone();
                        p.push(Seg::Idx(i));
                        self.out.list_items += 1;
                        match self.complete(inner, fields, it, &p, loc) {
                            Ok(x) => out.push(x),
                            Err(Propagate) => failed = true,
                        }
                    }
                    if failed {
                        Err(Propagate)
                    } else {
                        Ok(J::Array(out))
                    }
                }
                _ => {
                    self.err(path, loc, "non-list value for list type");
                    Err(Propagate)
                }
            },
            Ty::Named(n) => {
                if self.sch.is_leaf(n) {
                    match self.serialize_leaf(n, v) {
                        Some(j) => Ok(j),
                        None => {
                            self.err(path, loc, "value cannot be serialized as its declared type");
                            Err(Propagate)
                        }
                    }
                } else {
                    let node = match v {
                        WVal::Ref(n) => *n,
                        _ => {
                            self.err(path, loc, "non-object value for composite type");
                            return Err(Propagate);
                        }
                    };
                    let rt = self.world.nodes[node].ty.clone();
                    if !self.sch.possible_types(n).contains(&rt) {
                        self.err(path, loc, "runtime type is not a possible type");
                        return Err(Propagate);
                    }
                    let sels: Vec<&'a SelSet> = fields.iter().map(|f| &f.sel).collect();
                    self.exec_selset(&sels, &rt, node, path)
                }
            }
        }
    }

    fn serialize_leaf(&self, ty: &str, v: &WVal) -> Option<J> {
        match (ty, v) {
            ("Int", WVal::Int(i)) if *i >= i32::MIN as i64 && *i <= i32::MAX as i64 => Some(J::from(*i)),
            ("Float", WVal::Float(f)) => {
                if f.is_finite() {
                    Some(J::Number(serde_json::Number::from_f64(*f).unwrap()))
                } else if self.quirks.non_finite_float_is_null {
                    Some(J::Null)
                } else {
                    None
                }
            }
            ("Float", WVal::Int(i)) => Some(J::Number(serde_json::Number::from_f64(*i as f64).unwrap())),
            ("String", WVal::Str(s)) => Some(J::String(s.clone())),
            ("Boolean", WVal::Bool(b)) => Some(J::Bool(*b)),
            ("ID", WVal::Str(s)) => Some(J::String(s.clone())),
            ("ID", WVal::Int(i)) => Some(J::String(i.to_string())),
            (_, WVal::Enum(e)) => match self.sch.ty(ty) {
                Some(td) if td.kind == Kind::Enum && td.values.iter().any(|x| &x.name == e) => Some(J::String(e.clone())),
                _ => None,
            },
            (_, WVal::Int(i)) if self.sch.kind(ty) == Some(Kind::Scalar) && !BUILTIN_SCALARS.contains(&ty) => Some(J::from(*i)),
            _ => None,
        }
    }
}

/// Fix up `nulled` of every error: walk from the error's path upwards while the positions are non-null typed.
/// Done by re-deriving from the final data: the nulled position is the longest prefix of the error path that is
/// present in `data` as null (or `data` itself).
fn assign_nulled(out: &mut RefOut) {
    for e in &mut out.errors {
        let mut cur: Option<&J> = out.data.as_ref();
        let mut prefix: Path = vec![];
        let mut nulled: Path = vec![];
        let mut found = false;
        if cur.is_none() || cur == Some(&J::Null) {
            e.nulled = vec![];
            continue;
        }
        for seg in &e.path {
            let next = match (cur, seg) {
                (Some(J::Object(m)), Seg::Key(k)) => m.get(k),
                (Some(J::Array(a)), Seg::Idx(i)) => a.get(*i),
                _ => None,
            };
            prefix.push(seg.clone());
            match next {
                Some(J::Null) => {
                    nulled = prefix.clone();
                    found = true;
                    break;
                }
                Some(x) => cur = Some(x),
                None => break,
            }
        }
        if found {
            e.nulled = nulled;
        }
    }
}

/// Execute a request. Subscriptions are executed like queries on the subscription root (per-event execution is
/// the callers' business).
pub fn execute(sch: &Sch, doc: &Doc, op_name: Option<&str>, provided: &IndexMap<String, CV>, world: &World, quirks: Quirks) -> Result<RefOut, ReqErr> {
    let op = select_operation(doc, op_name)?;
    let vars = coerce_variables(sch, op, provided).map_err(ReqErr::Variables)?;
    let (root_ty, root_node) = match op.kind {
        OpKind::Query => (sch.query.clone(), world.query_root),
        OpKind::Mutation => match (&sch.mutation, world.mutation_root) {
            (Some(t), Some(n)) => (t.clone(), n),
            _ => return Err(ReqErr::Unsupported("no mutation root".into())),
        },
        OpKind::Subscription => match (&sch.subscription, world.subscription_root) {
            (Some(t), Some(n)) => (t.clone(), n),
            _ => return Err(ReqErr::Unsupported("no subscription root".into())),
        },
    };
    let mut ex = Exec { sch, doc, world, vars, out: RefOut::default(), quirks };
    let r = ex.exec_selset(&[&op.sel], &root_ty, root_node, &vec![]);
    let mut out = ex.out;
    out.data = match r {
        Ok(j) => Some(j),
        Err(Propagate) => Some(J::Null),
    };
    assign_nulled(&mut out);
    Ok(out)
}
