//! Document printer with trivia injection. It records the 1-based (line, column-in-scalar-values) of every
//! token under the specification's line-terminator rule (LF, CRLF and lone CR each end a line), so the
//! generator is the oracle for positive parser cases and for positions.

use crate::ast::*;
use crate::blockstr::block_string_value;
use vcore::Src;

#[derive(Clone, Copy, PartialEq, Eq, Debug)]
pub(crate) enum Tk {
    Start,
    Punct,
    Word, // name, keyword, number
    Str,
}

pub struct Style<'a> {
    /// source of trivia / literal-style decisions; None = canonical single-space output
    pub src: Option<&'a mut dyn Src>,
    /// allow trivia between the tokens of a type reference (`[ Int ] !`)
    pub trivia_in_types: bool,
    /// allow comments directly after the `on` keyword of a type condition
    pub comment_after_on: bool,
    /// allow lone CR as line terminator
    pub lone_cr: bool,
    /// allow block strings / exotic escapes
    pub fancy_strings: bool,
    /// allow `\"""` inside block strings
    pub block_escaped_quotes: bool,
    /// probability weight of trivia (0 = none beyond required separators)
    pub density: u32,
}
impl<'a> Style<'a> {
    pub fn plain() -> Style<'static> {
        Style { src: None, trivia_in_types: false, comment_after_on: false, lone_cr: false, fancy_strings: false, block_escaped_quotes: false, density: 0 }
    }
    pub fn fuzzy(src: &'a mut dyn Src) -> Style<'a> {
        Style { src: Some(src), trivia_in_types: true, comment_after_on: true, lone_cr: true, fancy_strings: true, block_escaped_quotes: true, density: 3 }
    }
}

pub struct Printer<'a> {
    pub out: String,
    line: u32,
    col: u32,
    prev_cr: bool,
    pub(crate) last: Tk,
    pub(crate) st: Style<'a>,
    pub(crate) in_type: bool,
    pub(crate) after_on: bool,
    /// statistics for class labels
    pub n_lone_cr: u32,
    pub n_crlf: u32,
    pub n_lf: u32,
    pub n_comments: u32,
    pub n_nonascii_trivia: u32,
    pub n_block_strings: u32,
    pub n_block_indented: u32,
    pub n_escapes: u32,
    pub n_bom: u32,
}

impl<'a> Printer<'a> {
    pub fn new(st: Style<'a>) -> Printer<'a> {
        Printer {
            out: String::new(),
            line: 1,
            col: 1,
            prev_cr: false,
            last: Tk::Start,
            st,
            in_type: false,
            after_on: false,
            n_lone_cr: 0,
            n_crlf: 0,
            n_lf: 0,
            n_comments: 0,
            n_nonascii_trivia: 0,
            n_block_strings: 0,
            n_block_indented: 0,
            n_escapes: 0,
            n_bom: 0,
        }
    }
    pub fn pos(&self) -> Pos {
        Pos { line: self.line, col: self.col }
    }
    pub(crate) fn push_char(&mut self, c: char) {
        self.out.push(c);
        match c {
            '\r' => {
                self.line += 1;
                self.col = 1;
                self.prev_cr = true;
            }
            '\n' => {
                if !self.prev_cr {
                    self.line += 1;
                    self.col = 1;
                }
                self.prev_cr = false;
            }
            _ => {
                self.col += 1;
                self.prev_cr = false;
            }
        }
    }
    pub(crate) fn push_str(&mut self, s: &str) {
        for c in s.chars() {
            self.push_char(c);
        }
    }
    pub(crate) fn choose(&mut self, n: usize) -> usize {
        match self.st.src.as_mut() {
            Some(s) => s.choose(n),
            None => 0,
        }
    }
    pub(crate) fn chance(&mut self, num: u32, den: u32) -> bool {
        match self.st.src.as_mut() {
            Some(s) => s.chance(num, den),
            None => false,
        }
    }
    fn newline(&mut self) {
        let k = if self.st.lone_cr { self.choose(3) } else { self.choose(2) };
        match k {
            0 => {
                self.push_char('\n');
                self.n_lf += 1;
            }
            1 => {
                self.push_str("\r\n");
                self.n_crlf += 1;
            }
            _ => {
                self.push_char('\r');
                // a lone CR must not be followed by LF (that would be CRLF): the next trivia/token decides; we
                // guard by emitting a space if the next emitted char would be '\n' (handled in trivia loop)
                self.n_lone_cr += 1;
            }
        }
    }
    fn one_trivia(&mut self) {
        let allow_comment = !(self.after_on && !self.st.comment_after_on);
        let k = self.choose(if allow_comment { 8 } else { 7 });
        match k {
            0 | 1 => self.push_char(' '),
            2 => self.push_char('\t'),
            3 => self.push_char(','),
            4 => {
                // LF directly after a lone CR would merge into CRLF and change our accounting, which is fine:
                // accounting happens per character in push_char. Nothing to guard.
                self.newline()
            }
            5 => {
                self.push_char('\u{feff}');
                self.n_bom += 1;
            }
            6 => {
                self.push_char(' ');
                self.push_char(' ')
            }
            _ => {
                self.n_comments += 1;
                self.push_char('#');
                let n = self.choose(6);
                for _ in 0..n {
                    let c = match self.choose(6) {
                        0 => 'x',
                        1 => '"',
                        2 => '{',
                        3 => 'é',
                        4 => '😀',
                        _ => ' ',
                    };
                    if !c.is_ascii() {
                        self.n_nonascii_trivia += 1;
                    }
                    self.push_char(c);
                }
                self.newline();
            }
        }
    }
    /// trivia before a token of class `next`
    pub(crate) fn gap(&mut self, next: Tk) {
        let required = match (self.last, next) {
            (Tk::Word, Tk::Word) => true,
            (Tk::Str, Tk::Str) => true,
            _ => false,
        };
        let allowed = !(self.in_type && !self.st.trivia_in_types);
        if self.st.src.is_none() || self.st.density == 0 || !allowed {
            if required {
                self.push_char(' ');
            }
            return;
        }
        let mut n = 0;
        // geometric number of trivia items
        while self.chance(self.st.density, 10) && n < 4 {
            self.one_trivia();
            n += 1;
        }
        if required && n == 0 {
            self.push_char(' ');
        }
    }
    pub(crate) fn tok(&mut self, text: &str, class: Tk) -> Pos {
        // canonical mode: a space between most tokens for readability
        if self.st.src.is_none() {
            let need = matches!((self.last, class), (Tk::Word, Tk::Word) | (Tk::Str, Tk::Str));
            if need {
                self.push_char(' ');
            }
        } else {
            self.gap(class);
        }
        let p = self.pos();
        self.push_str(text);
        self.last = class;
        self.after_on = false;
        p
    }
    pub(crate) fn punct(&mut self, t: &str) -> Pos {
        self.tok(t, Tk::Punct)
    }
    pub(crate) fn word(&mut self, t: &str) -> Pos {
        self.tok(t, Tk::Word)
    }
    pub(crate) fn space(&mut self) {
        // cosmetic space in canonical mode
        if self.st.src.is_none() {
            self.push_char(' ');
            self.last = Tk::Punct;
        }
    }

    pub(crate) fn name(&mut self, n: &mut Name) {
        n.pos = self.word(&n.s.clone());
    }

    pub(crate) fn string(&mut self, s: &str) -> Pos {
        // decide literal style
        let fancy = self.st.fancy_strings && self.st.src.is_some();
        if fancy && self.chance(1, 3) {
            if let Some(raw) = self.block_raw(s) {
                self.gap(Tk::Str);
                let p = self.pos();
                self.push_str("\"\"\"");
                self.push_str(&raw);
                self.push_str("\"\"\"");
                self.last = Tk::Str;
                self.n_block_strings += 1;
                return p;
            }
        }
        let mut lit = String::from("\"");
        for c in s.chars() {
            let must = c == '"' || c == '\\' || c == '\n' || c == '\r' || ((c as u32) < 0x20 && c != '\t');
            let bmp = (c as u32) <= 0xffff;
            let esc = must || (fancy && bmp && self.chance(1, 6));
            if !esc {
                lit.push(c);
                continue;
            }
            self.n_escapes += 1;
            let simple = match c {
                '"' => Some("\\\""),
                '\\' => Some("\\\\"),
                '/' => Some("\\/"),
                '\u{8}' => Some("\\b"),
                '\u{c}' => Some("\\f"),
                '\n' => Some("\\n"),
                '\r' => Some("\\r"),
                '\t' => Some("\\t"),
                _ => None,
            };
            let use_u = simple.is_none() || (fancy && self.chance(1, 4));
            if use_u {
                let upper = fancy && self.chance(1, 2);
                if upper {
                    lit.push_str(&format!("\\u{:04X}", c as u32));
                } else {
                    lit.push_str(&format!("\\u{:04x}", c as u32));
                }
            } else {
                lit.push_str(simple.unwrap());
            }
        }
        lit.push('"');
        self.tok(&lit, Tk::Str)
    }

    /// raw block-string content denoting `s`, if one exists that we can construct
    fn block_raw(&mut self, s: &str) -> Option<String> {
        if s.chars().any(|c| ((c as u32) < 0x20 && c != '\t' && c != '\n') || c == '\r') {
            return None;
        }
        let mut raw = if self.st.block_escaped_quotes { s.replace("\"\"\"", "\\\"\"\"") } else { s.to_string() };
        if !self.st.block_escaped_quotes && s.contains("\"\"\"") {
            return None;
        }
        // a trailing quote would merge with the closing delimiter
        if raw.ends_with('"') || raw.ends_with('\\') {
            raw.push('\n');
        }
        let mut indented = false;
        if self.chance(1, 2) {
            // add common indentation + surrounding blank lines
            let ind = match self.choose(3) {
                0 => "  ",
                1 => "\t",
                _ => "    ",
            };
            let nl = match self.choose(if self.st.lone_cr { 3 } else { 2 }) {
                0 => "\n",
                1 => "\r\n",
                _ => "\r",
            };
            let lines: Vec<&str> = raw.split('\n').collect();
            let mut r = String::new();
            r.push_str(nl);
            for (i, l) in lines.iter().enumerate() {
                if i > 0 {
                    r.push_str(nl);
                }
                if !l.is_empty() {
                    r.push_str(ind);
                } else {
                    // blank interior lines may carry any amount of whitespace up to the common indentation
                    match self.choose(3) {
                        0 => {}
                        1 => r.push_str(ind),
                        _ => r.push_str(&ind[..1]),
                    }
                }
                r.push_str(l);
            }
            r.push_str(nl);
            r.push_str(ind);
            raw = r;
            indented = true;
        }
        if block_string_value(&raw) == s && !raw.contains("\"\"\"\"") {
            // make sure the raw text contains no unescaped terminator
            let probe = raw.replace("\\\"\"\"", "");
            if probe.contains("\"\"\"") {
                return None;
            }
            if indented {
                self.n_block_indented += 1;
            }
            Some(raw)
        } else {
            None
        }
    }

    pub fn value(&mut self, v: &mut PVal) {
        match &mut v.v {
            Val::Var(n) => {
                v.pos = self.punct("$");
                let n = n.clone();
                self.word(&n);
            }
            Val::Int(t) | Val::Float(t) => {
                let t = t.clone();
                v.pos = self.word(&t);
            }
            Val::Str(s) => {
                let s = s.clone();
                v.pos = self.string(&s);
            }
            Val::Bool(b) => v.pos = self.word(if *b { "true" } else { "false" }),
            Val::Null => v.pos = self.word("null"),
            Val::Enum(e) => {
                let e = e.clone();
                v.pos = self.word(&e);
            }
            Val::List(items) => {
                v.pos = self.punct("[");
                for (i, it) in items.iter_mut().enumerate() {
                    if i > 0 && self.st.src.is_none() {
                        self.push_str(", ");
                        self.last = Tk::Punct;
                    }
                    self.value(it);
                }
                self.punct("]");
            }
            Val::Obj(fields) => {
                v.pos = self.punct("{");
                for (i, (n, it)) in fields.iter_mut().enumerate() {
                    if i > 0 && self.st.src.is_none() {
                        self.push_str(", ");
                        self.last = Tk::Punct;
                    }
                    self.name(n);
                    self.punct(":");
                    self.space();
                    self.value(it);
                }
                self.punct("}");
            }
        }
    }

    pub fn ty(&mut self, t: &mut PTy) {
        // the first token of the type carries the position; tokens inside follow `trivia_in_types`
        let mut first = true;
        let mut pos = Pos::default();
        fn go(p: &mut Printer, t: &Ty, first: &mut bool, pos: &mut Pos) {
            match t {
                Ty::Named(n) => {
                    let q = p.word(n);
                    if *first {
                        *pos = q;
                        *first = false;
                        p.in_type = true;
                    }
                }
                Ty::List(inner) => {
                    let q = p.punct("[");
                    if *first {
                        *pos = q;
                        *first = false;
                        p.in_type = true;
                    }
                    go(p, inner, first, pos);
                    p.punct("]");
                }
                Ty::NonNull(inner) => {
                    go(p, inner, first, pos);
                    p.punct("!");
                }
            }
        }
        let tt = t.ty.clone();
        go(self, &tt, &mut first, &mut pos);
        self.in_type = false;
        t.pos = pos;
    }

    pub(crate) fn args(&mut self, args: &mut Vec<(Name, PVal)>) {
        if args.is_empty() {
            return;
        }
        self.punct("(");
        for (i, (n, v)) in args.iter_mut().enumerate() {
            if i > 0 && self.st.src.is_none() {
                self.push_str(", ");
                self.last = Tk::Punct;
            }
            self.name(n);
            self.punct(":");
            self.space();
            self.value(v);
        }
        self.punct(")");
    }

    pub fn directives(&mut self, ds: &mut Vec<Directive>) {
        for d in ds.iter_mut() {
            self.space();
            d.pos = self.punct("@");
            self.name(&mut d.name);
            self.args(&mut d.args);
        }
    }

    pub fn selset(&mut self, s: &mut SelSet) {
        if s.items.is_empty() {
            s.pos = Pos::default();
            return;
        }
        self.space();
        s.pos = self.punct("{");
        for it in s.items.iter_mut() {
            self.space();
            match it {
                Selection::Field(f) => self.field(f),
                Selection::Inline(i) => {
                    i.pos = self.punct("...");
                    if let Some(c) = &mut i.cond {
                        self.space();
                        i.cond_pos = self.word("on");
                        self.after_on = true;
                        self.name(c);
                    }
                    self.directives(&mut i.directives);
                    self.selset(&mut i.sel);
                }
                Selection::Spread(sp) => {
                    sp.pos = self.punct("...");
                    self.name(&mut sp.name);
                    self.directives(&mut sp.directives);
                }
            }
        }
        self.space();
        self.punct("}");
    }

    fn field(&mut self, f: &mut Field) {
        if let Some(a) = &mut f.alias {
            self.name(a);
            f.pos = a.pos;
            self.punct(":");
            self.space();
            self.name(&mut f.name);
        } else {
            self.name(&mut f.name);
            f.pos = f.name.pos;
        }
        self.args(&mut f.args);
        self.directives(&mut f.directives);
        self.selset(&mut f.sel);
    }

    pub fn doc(&mut self, d: &mut Doc) {
        for (i, def) in d.defs.iter_mut().enumerate() {
            if i > 0 && self.st.src.is_none() {
                self.push_char('\n');
                self.last = Tk::Punct;
            }
            match def {
                Def::Op(o) => {
                    if !o.explicit {
                        self.selset(&mut o.sel);
                        o.pos = o.sel.pos;
                        continue;
                    }
                    o.pos = self.word(o.kind.kw());
                    if let Some(n) = &mut o.name {
                        self.name(n);
                    }
                    if !o.vars.is_empty() {
                        self.punct("(");
                        for (j, v) in o.vars.iter_mut().enumerate() {
                            if j > 0 && self.st.src.is_none() {
                                self.push_str(", ");
                                self.last = Tk::Punct;
                            }
                            v.pos = self.punct("$");
                            self.name(&mut v.name);
                            self.punct(":");
                            self.space();
                            self.ty(&mut v.ty);
                            if let Some(dv) = &mut v.default {
                                self.space();
                                self.punct("=");
                                self.space();
                                self.value(dv);
                            }
                            self.directives(&mut v.directives);
                        }
                        self.punct(")");
                    }
                    self.directives(&mut o.directives);
                    self.selset(&mut o.sel);
                }
                Def::Frag(f) => {
                    f.pos = self.word("fragment");
                    self.name(&mut f.name);
                    f.cond_pos = self.word("on");
                    self.after_on = true;
                    self.name(&mut f.cond);
                    self.directives(&mut f.directives);
                    self.selset(&mut f.sel);
                }
            }
        }
        // trailing trivia
        if self.st.src.is_some() {
            self.gap(Tk::Punct);
        }
    }
}

/// canonical text; fills positions
pub fn print_plain(d: &mut Doc) -> String {
    let mut p = Printer::new(Style::plain());
    p.doc(d);
    p.out
}

pub fn print_value_plain(v: &Val) -> String {
    let mut p = Printer::new(Style::plain());
    let mut pv = PVal::new(v.clone());
    p.value(&mut pv);
    p.out
}
