//! Data worlds: the values that resolvers (static and dynamic) return and that the reference executor reads.
use crate::ast::Ty;
use crate::sch::*;
use indexmap::IndexMap;
use std::collections::HashMap;
use vcore::Src;

#[derive(Clone, Debug, PartialEq)]
pub enum WVal {
    Null,
    Int(i64),
    Float(f64),
    Str(String),
    Bool(bool),
    Enum(String),
    List(Vec<WVal>),
    /// reference to another node (object value)
    Ref(usize),
}

#[derive(Clone, Copy, Debug, PartialEq, Eq, Hash)]
pub enum Fault {
    /// the resolver returns an error
    ResolverError,
    /// a guard rejects the field (static schemas)
    Guard,
    /// the resolver yields a value that is invalid for the declared type (dynamic: enum / custom scalar)
    InvalidValue,
    /// the resolver yields nothing (null) although the type is non-null (dynamic)
    NothingForNonNull,
}

#[derive(Clone, Debug, PartialEq)]
pub struct Node {
    pub ty: String,
    pub fields: IndexMap<String, WVal>,
}

#[derive(Clone, Debug, Default)]
pub struct World {
    pub nodes: Vec<Node>,
    pub query_root: usize,
    pub mutation_root: Option<usize>,
    pub subscription_root: Option<usize>,
    /// injected faults, keyed by (node, field name)
    pub faults: HashMap<(usize, String), Fault>,
    /// dynamic schemas only: resolvers hand lists of leaf values over as one plain `Value::List`
    /// instead of `FieldValue::list` (both are documented ways to return a list)
    pub plain_leaf_lists: bool,
}

impl World {
    pub fn value(&self, node: usize, field: &str) -> Option<&WVal> {
        self.nodes.get(node).and_then(|n| n.fields.get(field))
    }
    pub fn fault(&self, node: usize, field: &str) -> Option<Fault> {
        self.faults.get(&(node, field.to_string())).copied()
    }
    pub fn show(&self) -> String {
        let mut s = String::new();
        for (i, n) in self.nodes.iter().enumerate() {
            s.push_str(&format!("#{}:{}{{", i, n.ty));
            for (k, v) in &n.fields {
                s.push_str(&format!("{}={} ", k, show_wval(v)));
            }
            s.push_str("} ");
        }
        if self.plain_leaf_lists {
            s.push_str("plain-leaf-lists ");
        }
        if !self.faults.is_empty() {
            let mut f: Vec<_> = self.faults.iter().map(|((n, f), k)| format!("#{}.{}:{:?}", n, f, k)).collect();
            f.sort();
            s.push_str(&format!("faults[{}]", f.join(",")));
        }
        s
    }
}

pub fn show_wval(v: &WVal) -> String {
    match v {
        WVal::Null => "null".into(),
        WVal::Int(i) => i.to_string(),
        WVal::Float(f) => format!("{:?}", f),
        WVal::Str(s) => format!("{:?}", s),
        WVal::Bool(b) => b.to_string(),
        WVal::Enum(e) => e.clone(),
        WVal::List(l) => format!("[{}]", l.iter().map(show_wval).collect::<Vec<_>>().join(",")),
        WVal::Ref(n) => format!("#{}", n),
    }
}

pub struct WorldCfg {
    pub extra_nodes: usize,
    pub non_finite_floats: bool,
    pub max_list: usize,
    /// null items inside lists of object/interface/union type (the dynamic API cannot express them:
    /// `FieldValue::NULL` at an object position means "an object whose parent value is null")
    pub null_composite_items: bool,
    /// dynamic schemas only: a resolver may yield null for a non-null leaf (field value or list item) -
    /// "every combination of field values its resolvers return"
    pub null_for_nonnull_leaves: bool,
}
impl Default for WorldCfg {
    fn default() -> Self {
        WorldCfg { extra_nodes: 4, non_finite_floats: false, max_list: 3, null_composite_items: true, null_for_nonnull_leaves: false }
    }
}

fn gen_leaf(sch: &Sch, s: &mut dyn Src, name: &str, cfg: &WorldCfg) -> WVal {
    match name {
        "Int" => WVal::Int(match s.choose(4) {
            0 => 0,
            1 => s.range(-5, 5),
            2 => *vcore::gens::pick(s, &[i32::MAX as i64, i32::MIN as i64, -1, 1]),
            _ => s.range(i32::MIN as i64, i32::MAX as i64),
        }),
        "Float" => {
            if cfg.non_finite_floats && s.chance(1, 6) {
                WVal::Float(*vcore::gens::pick(s, &[f64::NAN, f64::INFINITY, f64::NEG_INFINITY]))
            } else {
                WVal::Float(vcore::gens::gen_f64_finite(s))
            }
        }
        "String" => WVal::Str(vcore::gens::gen_string(s, 5)),
        "Boolean" => WVal::Bool(s.bool()),
        "ID" => WVal::Str(format!("id{}", s.choose(100))),
        _ => match sch.ty(name) {
            Some(td) if td.kind == Kind::Enum => WVal::Enum(td.values[s.choose(td.values.len())].name.clone()),
            // custom scalars: the harness's scalars are integer-valued (validators decide validity per schema)
            _ => WVal::Int(s.range(0, 9)),
        },
    }
}

fn gen_value(sch: &Sch, s: &mut dyn Src, ty: &Ty, by_type: &HashMap<String, Vec<usize>>, cfg: &WorldCfg, allow_null: bool) -> WVal {
    match ty {
        Ty::NonNull(inner) => {
            if cfg.null_for_nonnull_leaves && matches!(&**inner, Ty::Named(n) if sch.is_leaf(n)) && s.chance(1, 5) {
                return WVal::Null;
            }
            let v = gen_value(sch, s, inner, by_type, cfg, false);
            if v == WVal::Null {
                // a composite without any node of a possible type is a schema generator bug (every abstract type
                // has an instantiated possible type)
                panic!("world generator: no value for non-null type {}", ty.show());
            }
            v
        }
        _ if allow_null && s.chance(1, 5) => WVal::Null,
        Ty::List(inner) => {
            let n = s.choose(cfg.max_list + 1);
            let item_null_ok = cfg.null_composite_items || sch.is_leaf(inner.base()) || inner.is_list();
            WVal::List((0..n).map(|_| gen_value(sch, s, inner, by_type, cfg, item_null_ok)).collect())
        }
        Ty::Named(n) => {
            if sch.is_leaf(n) {
                gen_leaf(sch, s, n, cfg)
            } else {
                let mut cands: Vec<usize> = vec![];
                for pt in sch.possible_types(n) {
                    if let Some(v) = by_type.get(&pt) {
                        cands.extend(v.iter().copied());
                    }
                }
                cands.sort();
                if cands.is_empty() {
                    WVal::Null
                } else {
                    WVal::Ref(cands[s.choose(cands.len())])
                }
            }
        }
    }
}

/// A world for `sch`: one node per root type, at least one node per object type, `extra_nodes` more; every field
/// gets a value valid for its declared type (nulls only at nullable positions).
pub fn gen_world(sch: &Sch, s: &mut dyn Src, cfg: &WorldCfg) -> World {
    let mut w = World::default();
    let objects: Vec<String> = sch.types.values().filter(|t| t.kind == Kind::Object).map(|t| t.name.clone()).collect();
    let mut node_types: Vec<String> = vec![sch.query.clone()];
    w.query_root = 0;
    if let Some(m) = &sch.mutation {
        w.mutation_root = Some(node_types.len());
        node_types.push(m.clone());
    }
    if let Some(m) = &sch.subscription {
        w.subscription_root = Some(node_types.len());
        node_types.push(m.clone());
    }
    let roots: Vec<String> = node_types.clone();
    for o in &objects {
        if !roots.contains(o) {
            node_types.push(o.clone());
        }
    }
    let non_root: Vec<&String> = objects.iter().filter(|o| !roots.contains(o)).collect();
    if !non_root.is_empty() {
        for _ in 0..cfg.extra_nodes {
            node_types.push(non_root[s.choose(non_root.len())].clone());
        }
    }
    let mut by_type: HashMap<String, Vec<usize>> = HashMap::new();
    for (i, t) in node_types.iter().enumerate() {
        by_type.entry(t.clone()).or_default().push(i);
    }
    for t in &node_types {
        let td = &sch.types[t];
        let mut fields = IndexMap::new();
        for f in &td.fields {
            fields.insert(f.name.clone(), gen_value(sch, s, &f.ty, &by_type, cfg, true));
        }
        w.nodes.push(Node { ty: t.clone(), fields });
    }
    w.plain_leaf_lists = s.choose(3) == 1;
    w
}
