//! Reference validator, written from the GraphQL specification (October 2021) §5 "Validation", the OneOf Input
//! Objects RFC (exactly one field, not null, variables used there non-null) and §6.1.2 CoerceVariableValues.
//! It shares no code with async-graphql. Every violation names the rule of the specification it breaks.
//!
//! Decisions the specification leaves to the implementation are reported as `dont_care` (never as a verdict):
//! custom scalar literals (the harness supplies a predicate), @skip/@include on the root selections of a
//! subscription (the October 2021 text evaluates them with an empty variable map), integral floats for Int
//! variables (see `coerce`), a nullable variable as the field of a OneOf input object (a static rule of the RFC only),
//! requests in which a variable is null at run time in a non-null position (a field error of execution, §5.8.5 note),
//! GetOperation failures, documents so large that the merge check exceeds its work budget.
use crate::ast::*;
use crate::coerce::{coerce_literal, coerce_runtime, CV};
use crate::sch::*;
use indexmap::IndexMap;
use std::collections::{HashMap, HashSet};
use std::sync::OnceLock;

#[derive(Clone, Debug, PartialEq)]
pub struct Violation {
    pub rule: &'static str,
    pub pos: Pos,
    pub msg: String,
}

pub const RULES: [&str; 31] = [
    "executable-definitions",
    "operation-name-uniqueness",
    "lone-anonymous-operation",
    "subscription-single-root-field",
    "field-selections",
    "field-selection-merging",
    "leaf-field-selections",
    "argument-names",
    "argument-uniqueness",
    "required-arguments",
    "fragment-name-uniqueness",
    "fragment-spread-type-existence",
    "fragments-on-composite-types",
    "fragments-must-be-used",
    "fragment-spread-target-defined",
    "fragment-spreads-must-not-form-cycles",
    "fragment-spread-is-possible",
    "values-of-correct-type",
    "input-object-field-names",
    "input-object-field-uniqueness",
    "input-object-required-fields",
    "oneof-input-object",
    "directives-are-defined",
    "directives-are-in-valid-locations",
    "directives-are-unique-per-location",
    "variable-uniqueness",
    "variables-are-input-types",
    "all-variable-uses-defined",
    "all-variables-used",
    "all-variable-usages-are-allowed",
    "coerce-variable-values",
];

/// A directive definition (the specification's built-in directives are the only ones a harness schema serves).
#[derive(Clone, Debug, PartialEq)]
pub struct DirDef {
    pub name: String,
    pub args: Vec<ArgDef>,
    pub locations: Vec<&'static str>,
    pub repeatable: bool,
}

fn arg(name: &str, ty: &str, default: Option<Val>) -> ArgDef {
    ArgDef { name: name.into(), ty: Ty::parse(ty), default, desc: None, deprecated: None }
}

/// §3.13 built-in directives plus `@oneOf` of the RFC.
pub fn builtin_directives() -> Vec<DirDef> {
    vec![
        DirDef { name: "skip".into(), args: vec![arg("if", "Boolean!", None)], locations: vec!["FIELD", "FRAGMENT_SPREAD", "INLINE_FRAGMENT"], repeatable: false },
        DirDef { name: "include".into(), args: vec![arg("if", "Boolean!", None)], locations: vec!["FIELD", "FRAGMENT_SPREAD", "INLINE_FRAGMENT"], repeatable: false },
        DirDef {
            name: "deprecated".into(),
            args: vec![arg("reason", "String", Some(Val::Str("No longer supported".into())))],
            locations: vec!["FIELD_DEFINITION", "ARGUMENT_DEFINITION", "INPUT_FIELD_DEFINITION", "ENUM_VALUE"],
            repeatable: false,
        },
        DirDef { name: "specifiedBy".into(), args: vec![arg("url", "String!", None)], locations: vec!["SCALAR"], repeatable: false },
        DirDef { name: "oneOf".into(), args: vec![], locations: vec!["INPUT_OBJECT"], repeatable: false },
    ]
}

/// §4.5 schema introspection types (October 2021) plus `__Type.isOneOf` of the RFC.
pub const INTROSPECTION_SDL: &str = r#"
type __Schema { description: String types: [__Type!]! queryType: __Type! mutationType: __Type subscriptionType: __Type directives: [__Directive!]! }
type __Type { kind: __TypeKind! name: String description: String fields(includeDeprecated: Boolean = false): [__Field!] interfaces: [__Type!]
  possibleTypes: [__Type!] enumValues(includeDeprecated: Boolean = false): [__EnumValue!] inputFields: [__InputValue!] ofType: __Type specifiedByURL: String isOneOf: Boolean }
enum __TypeKind { SCALAR OBJECT INTERFACE UNION ENUM INPUT_OBJECT LIST NON_NULL }
type __Field { name: String! description: String args: [__InputValue!]! type: __Type! isDeprecated: Boolean! deprecationReason: String }
type __InputValue { name: String! description: String type: __Type! defaultValue: String }
type __EnumValue { name: String! description: String isDeprecated: Boolean! deprecationReason: String }
type __Directive { name: String! description: String locations: [__DirectiveLocation!]! args: [__InputValue!]! isRepeatable: Boolean! }
enum __DirectiveLocation { QUERY MUTATION SUBSCRIPTION FIELD FRAGMENT_DEFINITION FRAGMENT_SPREAD INLINE_FRAGMENT VARIABLE_DEFINITION SCHEMA SCALAR OBJECT
  FIELD_DEFINITION ARGUMENT_DEFINITION INTERFACE UNION ENUM ENUM_VALUE INPUT_OBJECT INPUT_FIELD_DEFINITION }
type Query { q: Int }
"#;

fn introspection_types() -> &'static Vec<TypeDef> {
    static T: OnceLock<Vec<TypeDef>> = OnceLock::new();
    T.get_or_init(|| {
        let s = from_sdl_text(INTROSPECTION_SDL).expect("introspection SDL");
        s.types.values().filter(|t| t.name.starts_with("__")).cloned().collect()
    })
}

/// Exact descriptions of the deviations of OPEN known findings (switches of this oracle); all off = the
/// specification.
#[derive(Clone, Copy, Debug, Default, PartialEq)]
pub struct Quirks {
    /// C09-F1: IsVariableUsageAllowed is never evaluated (no "all variable usages are allowed" errors)
    pub no_variable_usage_check: bool,
    /// C09-F2: field merging compares only fields that meet in one flattened selection set under the same
    /// (innermost type condition name, response key): field names and arguments; no SameResponseShape, no
    /// comparison across different type conditions, no merged sub-selection sets
    pub merge_same_condition_only: bool,
    /// C09-F3: the number of root fields of a subscription is not checked (introspection fields still are)
    pub no_subscription_root_count: bool,
    /// C09-F4: of several input-object fields with one name only the last is seen (no uniqueness error)
    pub last_duplicate_input_field_wins: bool,
    /// C09-F5: a literal that is not an object is accepted where an input object is expected
    pub non_object_for_input_object_accepted: bool,
    /// C09-F6: a string literal that spells a value of the enum is accepted where that enum is expected
    pub string_literal_for_enum_accepted: bool,
    /// C09-F7: directives on variable definitions are only checked for uniqueness (not for being defined, their
    /// location, or their arguments)
    pub variable_directives_unchecked: bool,
    /// C09-F9: an argument whose value mentions a variable without a supplied value (defaults do not count; in an
    /// operation other than the named selected one: any variable) is not checked at all
    pub unsupplied_variable_disables_argument_check: bool,
    /// C09-F11: `__typename` selections are not visited: their arguments, directives (and the variables used
    /// there) and sub-selections are neither checked nor seen
    pub typename_fields_unvisited: bool,
    /// C09-F12: `Int` accepts every integer that fits 64 bits (literals, defaults and variable values)
    pub int_accepts_64_bits: bool,
}

pub struct Input<'a> {
    pub sch: &'a Sch,
    pub doc: &'a Doc,
    pub op_name: Option<&'a str>,
    /// the request's raw (JSON-shaped) variables
    pub vars: &'a IndexMap<String, CV>,
    /// number of type-system definitions / extensions that the request text contains besides `doc`
    pub non_executable_defs: usize,
    /// coercion of the schema's custom scalars (name, value) -> accepted
    pub custom_scalar_ok: &'a dyn Fn(&str, &CV) -> bool,
}

#[derive(Clone, Debug, Default)]
pub struct Report {
    pub violations: Vec<Violation>,
    pub dont_care: Vec<String>,
}
impl Report {
    pub fn is_valid(&self) -> bool {
        self.violations.is_empty()
    }
    /// violated rules, each once, in the order of `RULES`
    pub fn rules(&self) -> Vec<&'static str> {
        RULES.iter().copied().filter(|r| self.violations.iter().any(|v| v.rule == *r)).collect()
    }
}

/// Convenience entry point: every custom scalar accepts every value.
pub fn validate(sch: &Sch, doc: &Doc, op_name: Option<&str>, provided_vars: &IndexMap<String, CV>) -> Vec<Violation> {
    validate_full(&Input { sch, doc, op_name, vars: provided_vars, non_executable_defs: 0, custom_scalar_ok: &|_, _| true }, Quirks::default()).violations
}

#[derive(Clone, Debug, PartialEq, Eq, Hash)]
enum Scope {
    Op(usize),
    Frag(String),
}

struct VarUse {
    name: String,
    pos: Pos,
    /// type expected where the variable stands (None: unknown argument / directive)
    loc_ty: Option<Ty>,
    loc_has_default: bool,
    /// the variable is the value of the single field of a OneOf input object
    in_oneof: bool,
}

struct FRef<'d> {
    f: &'d Field,
    parent: Option<String>,
    def: Option<FieldDef>,
}

struct V<'a> {
    inp: &'a Input<'a>,
    q: Quirks,
    /// the schema plus the introspection types
    ext: Sch,
    dirs: Vec<DirDef>,
    out: Vec<Violation>,
    dont_care: Vec<String>,
    uses: HashMap<Scope, Vec<VarUse>>,
    spreads: HashMap<Scope, Vec<String>>,
    cur: Scope,
    merge_ok: HashSet<(usize, usize)>,
    shape_memo: HashMap<(usize, usize), bool>,
    budget: u64,
}

const MERGE_BUDGET: u64 = 2_000_000;

/// C09-F4's description, executable: every object literal keeps, per field name, the position of the first
/// occurrence and the value of the last
fn dedupe_input_fields(doc: &mut Doc) {
    fn val(v: &mut PVal) {
        match &mut v.v {
            Val::List(l) => l.iter_mut().for_each(val),
            Val::Obj(o) => {
                let mut out: Vec<(Name, PVal)> = vec![];
                for (k, mut x) in std::mem::take(o) {
                    val(&mut x);
                    match out.iter_mut().find(|(n, _)| n.s == k.s) {
                        Some(slot) => slot.1 = x,
                        None => out.push((k, x)),
                    }
                }
                *o = out;
            }
            _ => {}
        }
    }
    fn dirs(ds: &mut [Directive]) {
        for d in ds {
            d.args.iter_mut().for_each(|(_, v)| val(v));
        }
    }
    fn sel(s: &mut SelSet) {
        for it in &mut s.items {
            match it {
                Selection::Field(f) => {
                    f.args.iter_mut().for_each(|(_, v)| val(v));
                    dirs(&mut f.directives);
                    sel(&mut f.sel);
                }
                Selection::Inline(i) => {
                    dirs(&mut i.directives);
                    sel(&mut i.sel);
                }
                Selection::Spread(sp) => dirs(&mut sp.directives),
            }
        }
    }
    for d in &mut doc.defs {
        match d {
            Def::Op(o) => {
                for v in &mut o.vars {
                    if let Some(d) = &mut v.default {
                        val(d);
                    }
                    dirs(&mut v.directives);
                }
                dirs(&mut o.directives);
                sel(&mut o.sel);
            }
            Def::Frag(f) => {
                dirs(&mut f.directives);
                sel(&mut f.sel);
            }
        }
    }
}

pub fn validate_full(inp: &Input<'_>, q: Quirks) -> Report {
    if q.last_duplicate_input_field_wins {
        let mut doc = inp.doc.clone();
        dedupe_input_fields(&mut doc);
        let inp2 = Input { sch: inp.sch, doc: &doc, op_name: inp.op_name, vars: inp.vars, non_executable_defs: inp.non_executable_defs, custom_scalar_ok: inp.custom_scalar_ok };
        return validate_full(&inp2, Quirks { last_duplicate_input_field_wins: false, ..q });
    }
    let mut ext = inp.sch.clone();
    for t in introspection_types() {
        ext.types.insert(t.name.clone(), t.clone());
    }
    let mut v = V { inp, q, ext, dirs: builtin_directives(), out: vec![], dont_care: vec![], uses: HashMap::new(), spreads: HashMap::new(), cur: Scope::Op(0), merge_ok: HashSet::new(), shape_memo: HashMap::new(), budget: MERGE_BUDGET };
    v.document();
    Report { violations: v.out, dont_care: v.dont_care }
}

fn val_eq(a: &Val, b: &Val) -> bool {
    match (a, b) {
        (Val::List(x), Val::List(y)) => x.len() == y.len() && x.iter().zip(y).all(|(p, q)| val_eq(&p.v, &q.v)),
        (Val::Obj(x), Val::Obj(y)) => x.len() == y.len() && x.iter().zip(y).all(|((kn, kv), (ln, lv))| kn.s == ln.s && val_eq(&kv.v, &lv.v)),
        (Val::List(_), _) | (Val::Obj(_), _) | (_, Val::List(_)) | (_, Val::Obj(_)) => false,
        _ => a == b,
    }
}

/// "identical sets of arguments"
fn same_args(a: &Field, b: &Field) -> bool {
    a.args.len() == b.args.len() && a.args.iter().all(|(n, v)| b.args.iter().any(|(m, w)| n.s == m.s && val_eq(&v.v, &w.v)))
}

fn id(f: &Field) -> usize {
    f as *const Field as usize
}

/// constant literal -> runtime value (None if it contains a variable)
fn literal_cv(v: &Val) -> Option<CV> {
    Some(match v {
        Val::Var(_) => return None,
        Val::Int(t) => match t.parse::<i64>() {
            Ok(i) => CV::Int(i),
            Err(_) => CV::Float(t.parse::<f64>().ok()?),
        },
        Val::Float(t) => CV::Float(t.parse::<f64>().ok()?),
        Val::Str(s) => CV::Str(s.clone()),
        Val::Bool(b) => CV::Bool(*b),
        Val::Null => CV::Null,
        Val::Enum(e) => CV::Enum(e.clone()),
        Val::List(l) => CV::List(l.iter().map(|x| literal_cv(&x.v)).collect::<Option<_>>()?),
        Val::Obj(o) => CV::Obj(o.iter().map(|(k, x)| Some((k.s.clone(), literal_cv(&x.v)?))).collect::<Option<_>>()?),
    })
}

fn collect_var_names(v: &Val, out: &mut Vec<(String, Pos)>, pos: Pos) {
    match v {
        Val::Var(n) => out.push((n.clone(), pos)),
        Val::List(l) => l.iter().for_each(|x| collect_var_names(&x.v, out, x.pos)),
        Val::Obj(o) => o.iter().for_each(|(_, x)| collect_var_names(&x.v, out, x.pos)),
        _ => {}
    }
}

/// §5.8.5 AreTypesCompatible
pub fn are_types_compatible(variable: &Ty, location: &Ty) -> bool {
    match (variable, location) {
        (Ty::NonNull(v), Ty::NonNull(l)) => are_types_compatible(v, l),
        (_, Ty::NonNull(_)) => false,
        (Ty::NonNull(v), l) => are_types_compatible(v, l),
        (Ty::List(v), Ty::List(l)) => are_types_compatible(v, l),
        (_, Ty::List(_)) | (Ty::List(_), _) => false,
        (Ty::Named(a), Ty::Named(b)) => a == b,
    }
}

/// §5.8.5 IsVariableUsageAllowed
pub fn is_variable_usage_allowed(var_ty: &Ty, var_default: Option<&Val>, loc_ty: &Ty, loc_has_default: bool) -> bool {
    if let (Ty::NonNull(loc_inner), false) = (loc_ty, var_ty.is_nn()) {
        let has_non_null_default = matches!(var_default, Some(v) if *v != Val::Null);
        if !has_non_null_default && !loc_has_default {
            return false;
        }
        return are_types_compatible(var_ty, loc_inner);
    }
    are_types_compatible(var_ty, loc_ty)
}

impl<'a> V<'a> {
    fn viol(&mut self, rule: &'static str, pos: Pos, msg: impl Into<String>) {
        debug_assert!(RULES.contains(&rule));
        self.out.push(Violation { rule, pos, msg: msg.into() });
    }

    fn is_object(&self, n: &str) -> bool {
        self.ext.kind(n) == Some(Kind::Object)
    }

    /// the field `name` of composite type `parent`, including the meta fields (§4.1, §4.2)
    fn field_def(&self, parent: &str, name: &str) -> Option<FieldDef> {
        let meta = |ty: &str, args: Vec<ArgDef>| Some(FieldDef { name: name.to_string(), args, ty: Ty::parse(ty), desc: None, deprecated: None });
        if !self.ext.is_composite(parent) {
            return None;
        }
        match name {
            "__typename" => meta("String!", vec![]),
            "__schema" if parent == self.ext.query => meta("__Schema!", vec![]),
            "__type" if parent == self.ext.query => meta("__Type", vec![arg("name", "String!", None)]),
            _ => self.ext.field(parent, name).cloned(),
        }
    }

    // ------------------------------------------------------------------------------------------------ document

    fn document(&mut self) {
        let doc = self.inp.doc;
        // 5.1.1
        if self.inp.non_executable_defs > 0 {
            self.viol("executable-definitions", Pos::default(), "the document contains type system definitions or extensions");
        }
        // 5.2.1.1, 5.2.2.1
        let ops: Vec<&OpDef> = doc.ops().collect();
        for (i, o) in ops.iter().enumerate() {
            match &o.name {
                Some(n) => {
                    if ops[..i].iter().any(|p| p.name.as_ref().map(|x| &x.s) == Some(&n.s)) {
                        self.viol("operation-name-uniqueness", n.pos, format!("operation {} defined twice", n.s));
                    }
                }
                None => {
                    if ops.len() > 1 {
                        self.viol("lone-anonymous-operation", o.pos, "anonymous operation is not the only operation");
                    }
                }
            }
        }
        // 5.5.1.1
        let frags: Vec<&FragDef> = doc.frags().collect();
        for (i, f) in frags.iter().enumerate() {
            if frags[..i].iter().any(|p| p.name.s == f.name.s) {
                self.viol("fragment-name-uniqueness", f.name.pos, format!("fragment {} defined twice", f.name.s));
            }
        }
        // fragments: type condition, directives, selections (collects variable usages and spreads per fragment)
        for f in &frags {
            self.cur = Scope::Frag(f.name.s.clone());
            let parent = self.type_condition(&f.cond);
            self.directives(&f.directives, "FRAGMENT_DEFINITION");
            self.selset(&f.sel, parent.as_deref());
        }
        // operations
        for (i, def) in doc.defs.iter().enumerate() {
            if let Def::Op(o) = def {
                self.cur = Scope::Op(i);
                self.operation(o);
            }
        }
        // 5.5.1.4: every fragment must be the target of a spread
        let mut spread_names: HashSet<String> = HashSet::new();
        for v in self.spreads.values() {
            spread_names.extend(v.iter().cloned());
        }
        for f in &frags {
            if !spread_names.contains(&f.name.s) {
                self.viol("fragments-must-be-used", f.pos, format!("fragment {} is never spread", f.name.s));
            }
        }
        // 5.5.2.2
        self.cycles(&frags);
        // 5.8.3 – 5.8.5 per operation
        for (i, def) in doc.defs.iter().enumerate() {
            if let Def::Op(o) = def {
                self.variables_of_operation(i, o);
            }
        }
        // 5.3.2 for every selection set of the document
        self.merging();
        // §6.1.2 for the selected operation
        self.coerce_variables();
    }

    /// 5.5.1.2 + 5.5.1.3; returns the type to use as parent inside the fragment
    fn type_condition(&mut self, cond: &Name) -> Option<String> {
        match self.ext.kind(&cond.s) {
            None => {
                self.viol("fragment-spread-type-existence", cond.pos, format!("unknown type {} in a type condition", cond.s));
                None
            }
            Some(Kind::Object) | Some(Kind::Interface) | Some(Kind::Union) => Some(cond.s.clone()),
            Some(_) => {
                self.viol("fragments-on-composite-types", cond.pos, format!("type condition on non-composite type {}", cond.s));
                None
            }
        }
    }

    fn operation(&mut self, o: &OpDef) {
        let root = self.ext.root(o.kind).map(|s| s.to_string());
        if root.is_none() {
            // not a rule of October 2021 §5 (later drafts: "Operation Type Existence"); execution cannot proceed either
            self.dont_care.push(format!("the schema has no {} root type", o.kind.kw()));
        }
        // 5.8.1, 5.8.2, default values, directives on variable definitions
        for (i, vd) in o.vars.iter().enumerate() {
            if o.vars[..i].iter().any(|p| p.name.s == vd.name.s) {
                self.viol("variable-uniqueness", vd.name.pos, format!("variable ${} defined twice", vd.name.s));
            }
            let input = self.ext.is_input(vd.ty.ty.base());
            if !input {
                self.viol("variables-are-input-types", vd.ty.pos, format!("variable ${} of non-input type {}", vd.name.s, vd.ty.ty.show()));
            }
            if let Some(d) = &vd.default {
                if input {
                    let mut names = vec![];
                    collect_var_names(&d.v, &mut names, d.pos);
                    if names.is_empty() {
                        self.value(&vd.ty.ty.clone(), d, false);
                    } else {
                        // a default value is a constant (grammar): not a document
                        self.dont_care.push("variable inside a default value".into());
                    }
                }
            }
            if self.q.variable_directives_unchecked {
                for (i, d) in vd.directives.iter().enumerate() {
                    let known_unrepeatable = self.dirs.iter().any(|x| x.name == d.name.s && !x.repeatable);
                    if known_unrepeatable && vd.directives[..i].iter().any(|p| p.name.s == d.name.s) {
                        self.viol("directives-are-unique-per-location", d.pos, format!("@{} used twice at one location", d.name.s));
                    }
                }
            } else {
                self.directives(&vd.directives, "VARIABLE_DEFINITION");
            }
        }
        self.directives(
            &o.directives,
            match o.kind {
                OpKind::Query => "QUERY",
                OpKind::Mutation => "MUTATION",
                OpKind::Subscription => "SUBSCRIPTION",
            },
        );
        self.selset(&o.sel, root.as_deref());
        if o.kind == OpKind::Subscription {
            if let Some(r) = &root {
                self.subscription_root(o, r);
            }
        }
    }

    // ------------------------------------------------------------------------------------------------ selections

    fn selset(&mut self, sel: &SelSet, parent: Option<&str>) {
        for it in &sel.items {
            match it {
                Selection::Field(f) => {
                    if self.q.typename_fields_unvisited && f.name.s == "__typename" {
                        continue;
                    }
                    let def = parent.and_then(|p| self.field_def(p, &f.name.s));
                    if let (Some(p), None) = (parent, &def) {
                        // 5.3.1
                        self.viol("field-selections", f.name.pos, format!("no field {} on type {}", f.name.s, p));
                    }
                    self.arguments(&f.args, def.as_ref().map(|d| d.args.clone()), f.pos, &format!("field {}", f.name.s));
                    self.directives(&f.directives, "FIELD");
                    let mut child: Option<String> = None;
                    if let Some(d) = &def {
                        let base = d.ty.base().to_string();
                        // 5.3.3
                        if self.ext.is_leaf(&base) {
                            if !f.sel.items.is_empty() {
                                self.viol("leaf-field-selections", f.sel.pos, format!("selection set on leaf field {} of type {}", f.name.s, base));
                            }
                        } else {
                            if f.sel.items.is_empty() {
                                self.viol("leaf-field-selections", f.pos, format!("field {} of composite type {} needs a selection set", f.name.s, base));
                            }
                            child = Some(base);
                        }
                    }
                    self.selset(&f.sel, child.as_deref());
                }
                Selection::Inline(inl) => {
                    let inner: Option<String> = match &inl.cond {
                        Some(c) => {
                            let t = self.type_condition(c);
                            if let (Some(p), Some(t)) = (parent, &t) {
                                self.possible_spread(p, t, inl.pos);
                            }
                            t
                        }
                        None => parent.map(|p| p.to_string()),
                    };
                    self.directives(&inl.directives, "INLINE_FRAGMENT");
                    self.selset(&inl.sel, inner.as_deref());
                }
                Selection::Spread(sp) => {
                    self.spreads.entry(self.cur.clone()).or_default().push(sp.name.s.clone());
                    self.directives(&sp.directives, "FRAGMENT_SPREAD");
                    match self.inp.doc.frag(&sp.name.s) {
                        // 5.5.2.1
                        None => self.viol("fragment-spread-target-defined", sp.name.pos, format!("fragment {} is not defined", sp.name.s)),
                        Some(fr) => {
                            if let Some(p) = parent {
                                if self.ext.is_composite(&fr.cond.s) {
                                    let c = fr.cond.s.clone();
                                    self.possible_spread(p, &c, sp.pos);
                                }
                            }
                        }
                    }
                }
            }
        }
    }

    /// 5.5.2.3
    fn possible_spread(&mut self, parent: &str, frag_ty: &str, pos: Pos) {
        let a = self.ext.possible_types(parent);
        let b = self.ext.possible_types(frag_ty);
        if !a.iter().any(|x| b.contains(x)) {
            self.viol("fragment-spread-is-possible", pos, format!("a fragment on {} can never apply inside {}", frag_ty, parent));
        }
    }

    /// 5.2.3.1
    fn subscription_root(&mut self, o: &OpDef, root: &str) {
        fn has_cond(ds: &[Directive]) -> bool {
            ds.iter().any(|d| d.name.s == "skip" || d.name.s == "include")
        }
        fn collect<'d>(v: &mut V<'_>, doc: &'d Doc, root: &str, sel: &'d SelSet, visited: &mut HashSet<String>, keys: &mut IndexMap<String, Vec<&'d Field>>) {
            for it in &sel.items {
                match it {
                    Selection::Field(f) => {
                        if has_cond(&f.directives) {
                            v.dont_care.push("@skip/@include on a subscription root selection".into());
                        }
                        keys.entry(f.key().to_string()).or_default().push(f);
                    }
                    Selection::Inline(i) => {
                        if has_cond(&i.directives) {
                            v.dont_care.push("@skip/@include on a subscription root selection".into());
                        }
                        if i.cond.as_ref().map_or(true, |c| v.ext.fragment_applies(root, &c.s)) {
                            collect(v, doc, root, &i.sel, visited, keys);
                        }
                    }
                    Selection::Spread(sp) => {
                        if has_cond(&sp.directives) {
                            v.dont_care.push("@skip/@include on a subscription root selection".into());
                        }
                        if !visited.insert(sp.name.s.clone()) {
                            continue;
                        }
                        if let Some(fr) = doc.frag(&sp.name.s) {
                            if v.ext.fragment_applies(root, &fr.cond.s) {
                                collect(v, doc, root, &fr.sel, visited, keys);
                            }
                        }
                    }
                }
            }
        }
        let mut keys = IndexMap::new();
        let doc = self.inp.doc;
        collect(self, doc, root, &o.sel, &mut HashSet::new(), &mut keys);
        if keys.len() != 1 && !self.q.no_subscription_root_count {
            self.viol("subscription-single-root-field", o.pos, format!("subscription selects {} root fields", keys.len()));
        }
        for fs in keys.values() {
            for f in fs {
                if f.name.s.starts_with("__") {
                    self.viol("subscription-single-root-field", f.pos, format!("introspection field {} at the subscription root", f.name.s));
                }
            }
        }
    }

    // ------------------------------------------------------------------------------------------------ arguments, directives

    /// 5.4.1, 5.4.2, 5.4.2.1 and the values (5.6)
    fn arguments(&mut self, args: &[(Name, PVal)], defs: Option<Vec<ArgDef>>, pos: Pos, what: &str) {
        for (i, (n, _)) in args.iter().enumerate() {
            if args[..i].iter().any(|(m, _)| m.s == n.s) {
                self.viol("argument-uniqueness", n.pos, format!("argument {} given twice to {}", n.s, what));
            }
        }
        match defs {
            Some(defs) => {
                for (n, v) in args {
                    match defs.iter().find(|d| d.name == n.s) {
                        None => {
                            self.viol("argument-names", n.pos, format!("{} has no argument {}", what, n.s));
                            self.untyped_value(v);
                        }
                        Some(d) => {
                            let before = self.out.len();
                            self.value(&d.ty, v, d.default.is_some());
                            if self.q.unsupplied_variable_disables_argument_check && self.mentions_unsupplied_variable(v) {
                                self.out.truncate(before);
                            }
                        }
                    }
                }
                for d in &defs {
                    if d.ty.is_nn() && d.default.is_none() {
                        match args.iter().find(|(n, _)| n.s == d.name) {
                            None => self.viol("required-arguments", pos, format!("{} needs argument {}", what, d.name)),
                            Some((_, v)) if v.v == Val::Null => self.viol("required-arguments", v.pos, format!("required argument {} of {} is null", d.name, what)),
                            _ => {}
                        }
                    }
                }
            }
            None => {
                for (_, v) in args {
                    self.untyped_value(v);
                }
            }
        }
    }

    fn mentions_unsupplied_variable(&self, v: &PVal) -> bool {
        let mut names = vec![];
        collect_var_names(&v.v, &mut names, v.pos);
        let other_operation = match (&self.cur, self.inp.op_name) {
            (Scope::Op(i), Some(sel)) => match &self.inp.doc.defs[*i] {
                Def::Op(o) => o.name.as_ref().map_or(false, |n| n.s != sel),
                _ => false,
            },
            _ => false,
        };
        names.iter().any(|(n, _)| other_operation || !self.inp.vars.contains_key(n))
    }

    /// a value in a position whose type is unknown: only its variables matter
    fn untyped_value(&mut self, v: &PVal) {
        let mut names = vec![];
        collect_var_names(&v.v, &mut names, v.pos);
        for (name, pos) in names {
            self.uses.entry(self.cur.clone()).or_default().push(VarUse { name, pos, loc_ty: None, loc_has_default: false, in_oneof: false });
        }
    }

    /// 5.7.1 – 5.7.3
    fn directives(&mut self, ds: &[Directive], location: &'static str) {
        for (i, d) in ds.iter().enumerate() {
            match self.dirs.iter().find(|x| x.name == d.name.s).cloned() {
                None => {
                    self.viol("directives-are-defined", d.pos, format!("unknown directive @{}", d.name.s));
                    self.arguments(&d.args, None, d.pos, "");
                }
                Some(def) => {
                    if !def.locations.contains(&location) {
                        self.viol("directives-are-in-valid-locations", d.pos, format!("@{} is not allowed on {}", d.name.s, location));
                    }
                    if !def.repeatable && ds[..i].iter().any(|p| p.name.s == d.name.s) {
                        self.viol("directives-are-unique-per-location", d.pos, format!("@{} used twice at one location", d.name.s));
                    }
                    self.arguments(&d.args, Some(def.args.clone()), d.pos, &format!("directive @{}", d.name.s));
                }
            }
        }
    }

    // ------------------------------------------------------------------------------------------------ values

    /// 5.6.1 – 5.6.4 + OneOf: `v` stands where a value of type `ty` is expected
    fn value(&mut self, ty: &Ty, v: &PVal, loc_has_default: bool) {
        if let Val::Var(n) = &v.v {
            self.uses.entry(self.cur.clone()).or_default().push(VarUse { name: n.clone(), pos: v.pos, loc_ty: Some(ty.clone()), loc_has_default, in_oneof: false });
            return;
        }
        match ty {
            Ty::NonNull(inner) => {
                if v.v == Val::Null {
                    self.viol("values-of-correct-type", v.pos, format!("null where {} is expected", ty.show()));
                } else {
                    self.value(inner, v, false);
                }
            }
            _ if v.v == Val::Null => {}
            Ty::List(inner) => match &v.v {
                Val::List(items) => {
                    for it in items {
                        self.value(inner, it, false);
                    }
                }
                // a single value is coerced to a list of one
                _ => self.value(inner, v, false),
            },
            Ty::Named(n) => self.named_value(n, v),
        }
    }

    fn named_value(&mut self, n: &str, v: &PVal) {
        if BUILTIN_SCALARS.contains(&n) {
            if self.q.int_accepts_64_bits && n == "Int" && matches!(&v.v, Val::Int(t) if t.parse::<i64>().is_ok()) {
                return;
            }
            if let Err(e) = coerce_literal(&self.ext, &Ty::named(n), &v.v, None) {
                self.viol("values-of-correct-type", v.pos, format!("{} for type {}", e.msg, n));
            }
            return;
        }
        let td = match self.ext.ty(n) {
            Some(t) => t.clone(),
            None => return,
        };
        match td.kind {
            Kind::Enum => match &v.v {
                Val::Enum(e) if td.values.iter().any(|x| &x.name == e) => {}
                Val::Str(e) if self.q.string_literal_for_enum_accepted && td.values.iter().any(|x| &x.name == e) => {}
                _ => self.viol("values-of-correct-type", v.pos, format!("not a value of enum {}", n)),
            },
            Kind::Scalar => match literal_cv(&v.v) {
                Some(cv) => {
                    if !(self.inp.custom_scalar_ok)(n, &cv) {
                        self.viol("values-of-correct-type", v.pos, format!("scalar {} does not accept {}", n, cv.show()));
                    }
                }
                None => {
                    self.untyped_value(v);
                    self.dont_care.push("variable inside a custom scalar literal".into());
                }
            },
            Kind::Input => match &v.v {
                Val::Obj(fields) => self.input_object(&td, fields, v.pos),
                _ => {
                    if !self.q.non_object_for_input_object_accepted {
                        self.viol("values-of-correct-type", v.pos, format!("input object {} expected", n));
                    }
                    self.untyped_value(v);
                }
            },
            _ => {}
        }
    }

    fn input_object(&mut self, td: &TypeDef, fields: &[(Name, PVal)], pos: Pos) {
        // 5.6.3
        for (i, (k, _)) in fields.iter().enumerate() {
            if fields[..i].iter().any(|(p, _)| p.s == k.s) {
                self.viol("input-object-field-uniqueness", k.pos, format!("input field {} given twice", k.s));
            }
        }
        for (k, fv) in fields {
            match td.input_fields.iter().find(|f| f.name == k.s) {
                // 5.6.2
                None => {
                    self.viol("input-object-field-names", k.pos, format!("input object {} has no field {}", td.name, k.s));
                    self.untyped_value(fv);
                }
                Some(fd) => {
                    if td.one_of {
                        if let Val::Var(n) = &fv.v {
                            self.uses.entry(self.cur.clone()).or_default().push(VarUse { name: n.clone(), pos: fv.pos, loc_ty: Some(fd.ty.clone()), loc_has_default: false, in_oneof: true });
                            continue;
                        }
                    }
                    self.value(&fd.ty, fv, fd.default.is_some());
                }
            }
        }
        // 5.6.4
        for fd in &td.input_fields {
            if fd.ty.is_nn() && fd.default.is_none() && !fields.iter().any(|(k, _)| k.s == fd.name) {
                self.viol("input-object-required-fields", pos, format!("required input field {}.{} missing", td.name, fd.name));
            }
        }
        // OneOf RFC
        if td.one_of {
            if fields.len() != 1 {
                self.viol("oneof-input-object", pos, format!("OneOf input object {} with {} fields", td.name, fields.len()));
            } else if fields[0].1.v == Val::Null {
                self.viol("oneof-input-object", fields[0].1.pos, format!("the field of OneOf input object {} is null", td.name));
            }
        }
    }

    // ------------------------------------------------------------------------------------------------ fragments

    fn cycles(&mut self, frags: &[&FragDef]) {
        let mut reported: HashSet<String> = HashSet::new();
        for f in frags {
            // is f reachable from itself?
            let mut stack: Vec<String> = self.spreads.get(&Scope::Frag(f.name.s.clone())).cloned().unwrap_or_default();
            let mut seen: HashSet<String> = HashSet::new();
            let mut cyclic = false;
            while let Some(n) = stack.pop() {
                if n == f.name.s {
                    cyclic = true;
                    break;
                }
                if !seen.insert(n.clone()) {
                    continue;
                }
                if let Some(next) = self.spreads.get(&Scope::Frag(n)) {
                    stack.extend(next.iter().cloned());
                }
            }
            if cyclic && reported.insert(f.name.s.clone()) {
                self.viol("fragment-spreads-must-not-form-cycles", f.pos, format!("fragment {} spreads itself", f.name.s));
            }
        }
    }

    // ------------------------------------------------------------------------------------------------ variables

    /// the operation and the fragments it spreads, transitively
    fn scopes_of(&self, idx: usize) -> Vec<Scope> {
        let mut scopes = vec![Scope::Op(idx)];
        let mut seen: HashSet<String> = HashSet::new();
        let mut i = 0;
        while i < scopes.len() {
            for n in self.spreads.get(&scopes[i]).cloned().unwrap_or_default() {
                if seen.insert(n.clone()) && self.inp.doc.frag(&n).is_some() {
                    scopes.push(Scope::Frag(n));
                }
            }
            i += 1;
        }
        scopes
    }

    fn variables_of_operation(&mut self, idx: usize, o: &OpDef) {
        let scopes = self.scopes_of(idx);
        let mut used: HashSet<String> = HashSet::new();
        let mut found: Vec<Violation> = vec![];
        let mut open_points: Vec<String> = vec![];
        for sc in &scopes {
            for u in self.uses.get(sc).map(|v| v.as_slice()).unwrap_or(&[]) {
                let def = match o.vars.iter().find(|d| d.name.s == u.name) {
                    Some(d) => d,
                    None => {
                        found.push(Violation { rule: "all-variable-uses-defined", pos: u.pos, msg: format!("variable ${} is not defined by operation {}", u.name, o.name.as_ref().map(|n| n.s.as_str()).unwrap_or("<anonymous>")) });
                        continue;
                    }
                };
                used.insert(u.name.clone());
                if !self.ext.is_input(def.ty.ty.base()) {
                    continue;
                }
                if let Some(loc) = &u.loc_ty {
                    if !self.q.no_variable_usage_check && !is_variable_usage_allowed(&def.ty.ty, def.default.as_ref().map(|d| &d.v), loc, u.loc_has_default) {
                        found.push(Violation { rule: "all-variable-usages-are-allowed", pos: u.pos, msg: format!("variable ${} of type {} used where {} is expected", u.name, def.ty.ty.show(), loc.show()) });
                    }
                    if u.in_oneof && !def.ty.ty.is_nn() {
                        // a static rule of the RFC only (not of October 2021): either verdict is accepted
                        open_points.push(format!("nullable variable ${} as the field of a OneOf input object", u.name));
                    }
                }
            }
        }
        for d in &o.vars {
            if !used.contains(&d.name.s) {
                found.push(Violation { rule: "all-variables-used", pos: d.pos, msg: format!("variable ${} is never used", d.name.s) });
            }
        }
        self.out.extend(found);
        self.dont_care.extend(open_points);
    }

    fn coerce_variables(&mut self) {
        let ops: Vec<&OpDef> = self.inp.doc.ops().collect();
        let op = match self.inp.op_name {
            None if ops.len() == 1 => ops[0],
            None => {
                self.dont_care.push("no operation name for a document with several operations (GetOperation)".into());
                return;
            }
            Some(n) => match ops.iter().find(|o| o.name.as_ref().map(|x| x.s.as_str()) == Some(n)) {
                Some(o) => o,
                None => {
                    self.dont_care.push("operation name not in the document (GetOperation)".into());
                    return;
                }
            },
        };
        if op.vars.iter().any(|v| !self.ext.is_input(v.ty.ty.base())) {
            return;
        }
        let idx = self.inp.doc.defs.iter().position(|d| matches!(d, Def::Op(o) if std::ptr::eq(o, op))).unwrap_or(0);
        let scopes = self.scopes_of(idx);
        let in_non_null_position = |me: &Self, name: &str| scopes.iter().any(|sc| me.uses.get(sc).map_or(false, |us| us.iter().any(|u| u.name == name && u.loc_ty.as_ref().map_or(false, |t| t.is_nn()))));
        // CoerceVariableValues(schema, operation, variableValues)
        for vd in &op.vars {
            let ty = &vd.ty.ty;
            let run_time_value: Option<CV> = match self.inp.vars.get(&vd.name.s) {
                None => match &vd.default {
                    // a default value that is not a valid constant is already a violation of 5.6
                    Some(d) => coerce_literal(&self.ext, ty, &d.v, None).ok().flatten(),
                    None => {
                        if ty.is_nn() {
                            self.viol("coerce-variable-values", vd.pos, format!("required variable ${} not provided", vd.name.s));
                        }
                        None
                    }
                },
                Some(v) => {
                    match self.runtime_value(ty, v) {
                        Ok(()) => {}
                        Err((msg, true)) => self.dont_care.push(format!("variable coercion: {}", msg)),
                        Err((msg, false)) => self.viol("coerce-variable-values", vd.pos, format!("${}: {}", vd.name.s, msg)),
                    }
                    Some(v.clone())
                }
            };
            // §5.8.5's note: a nullable variable may stand in a non-null position (default value rule) and still be
            // null at run time; that is a field error of execution, which validation cannot decide
            if run_time_value == Some(CV::Null) && !ty.is_nn() && in_non_null_position(self, &vd.name.s) {
                self.dont_care.push(format!("${} is null at run time in a non-null position", vd.name.s));
            }
        }
    }

    /// §3 input coercion of a request variable's value (built-in scalars and enums: `coerce::coerce_runtime`)
    fn runtime_value(&self, ty: &Ty, v: &CV) -> Result<(), (String, bool)> {
        match ty {
            Ty::NonNull(inner) => {
                if *v == CV::Null {
                    Err(("null for a non-null type".into(), false))
                } else {
                    self.runtime_value(inner, v)
                }
            }
            _ if *v == CV::Null => Ok(()),
            Ty::List(inner) => match v {
                CV::List(items) => items.iter().try_for_each(|x| self.runtime_value(inner, x)),
                _ => self.runtime_value(inner, v),
            },
            Ty::Named(n) => {
                let td = self.ext.ty(n);
                match td.map(|t| t.kind) {
                    Some(Kind::Input) => {
                        let td = td.unwrap();
                        let o = match v {
                            CV::Obj(o) => o,
                            _ if self.q.non_object_for_input_object_accepted => return Ok(()),
                            _ => return Err((format!("input object {} expected", n), false)),
                        };
                        for (k, x) in o {
                            match td.input_fields.iter().find(|f| &f.name == k) {
                                None => return Err((format!("input object {} has no field {}", n, k), false)),
                                Some(fd) => self.runtime_value(&fd.ty, x)?,
                            }
                        }
                        if td.one_of {
                            if o.len() != 1 || o.values().next() == Some(&CV::Null) {
                                return Err((format!("OneOf input object {} needs exactly one non-null field", n), false));
                            }
                            return Ok(());
                        }
                        for fd in &td.input_fields {
                            if fd.ty.is_nn() && fd.default.is_none() && !o.contains_key(&fd.name) {
                                return Err((format!("required input field {}.{} missing", n, fd.name), false));
                            }
                        }
                        Ok(())
                    }
                    Some(Kind::Scalar) => {
                        if (self.inp.custom_scalar_ok)(n, v) {
                            Ok(())
                        } else {
                            Err((format!("scalar {} does not accept {}", n, v.show()), false))
                        }
                    }
                    _ => {
                        if self.q.int_accepts_64_bits && n == "Int" && matches!(v, CV::Int(_)) {
                            return Ok(());
                        }
                        coerce_runtime(&self.ext, ty, v).map(|_| ()).map_err(|e| (e.msg, e.dont_care))
                    }
                }
            }
        }
    }

    // ------------------------------------------------------------------------------------------------ field merging

    fn merging(&mut self) {
        let doc = self.inp.doc;
        let mut sets: Vec<(&SelSet, Option<String>)> = vec![];
        fn all_sets<'d>(v: &V<'_>, sel: &'d SelSet, parent: Option<String>, out: &mut Vec<(&'d SelSet, Option<String>)>) {
            if sel.items.is_empty() {
                return;
            }
            out.push((sel, parent.clone()));
            for it in &sel.items {
                match it {
                    Selection::Field(f) => {
                        if v.q.typename_fields_unvisited && f.name.s == "__typename" {
                            continue;
                        }
                        let child = parent.as_deref().and_then(|p| v.field_def(p, &f.name.s)).map(|d| d.ty.base().to_string()).filter(|b| v.ext.is_composite(b));
                        all_sets(v, &f.sel, child, out);
                    }
                    Selection::Inline(i) => {
                        let inner = match &i.cond {
                            Some(c) => Some(c.s.clone()).filter(|c| v.ext.is_composite(c)),
                            None => parent.clone(),
                        };
                        all_sets(v, &i.sel, inner, out);
                    }
                    Selection::Spread(_) => {}
                }
            }
        }
        for def in &doc.defs {
            match def {
                Def::Op(o) => all_sets(self, &o.sel, self.ext.root(o.kind).map(|s| s.to_string()), &mut sets),
                Def::Frag(f) => all_sets(self, &f.sel, Some(f.cond.s.clone()).filter(|c| self.ext.is_composite(c)), &mut sets),
            }
        }
        let mut reported: HashSet<(Pos, Pos)> = HashSet::new();
        for (sel, parent) in sets {
            let conflict = if self.q.merge_same_condition_only { self.quirk_conflict(sel) } else { self.can_merge(&[(sel, parent)]) };
            if let Some((a, b, msg)) = conflict {
                if reported.insert((a, b)) {
                    self.viol("field-selection-merging", b, msg);
                }
            }
            if self.budget == 0 {
                self.dont_care.push("field merging: work budget exceeded".into());
                return;
            }
        }
    }

    /// "the set of selections with a given response name in set including visiting fragments and inline fragments"
    fn collect<'d>(&self, sel: &'d SelSet, parent: Option<&str>, visited: &mut HashSet<String>, out: &mut Vec<FRef<'d>>)
    where
        'a: 'd,
    {
        for it in &sel.items {
            match it {
                Selection::Field(f) => out.push(FRef { f, parent: parent.map(|p| p.to_string()), def: parent.and_then(|p| self.field_def(p, &f.name.s)) }),
                Selection::Inline(i) => {
                    let inner = match &i.cond {
                        Some(c) => Some(c.s.as_str()).filter(|c| self.ext.is_composite(c)),
                        None => parent,
                    };
                    self.collect(&i.sel, inner, visited, out);
                }
                Selection::Spread(sp) => {
                    if visited.insert(sp.name.s.clone()) {
                        if let Some(fr) = self.inp.doc.frag(&sp.name.s) {
                            self.collect(&fr.sel, Some(fr.cond.s.as_str()).filter(|c| self.ext.is_composite(c)), visited, out);
                        }
                    }
                }
            }
        }
    }

    fn by_key<'d, 'r>(all: &'r [FRef<'d>]) -> IndexMap<&'d str, Vec<&'r FRef<'d>>> {
        let mut m: IndexMap<&str, Vec<&FRef<'d>>> = IndexMap::new();
        for r in all {
            m.entry(r.f.key()).or_default().push(r);
        }
        m
    }

    /// FieldsInSetCanMerge(set); `Some(conflict)` if it does not hold
    fn can_merge(&mut self, sets: &[(&SelSet, Option<String>)]) -> Option<(Pos, Pos, String)> {
        let mut all = vec![];
        let mut visited = HashSet::new();
        for (s, p) in sets {
            self.collect(s, p.as_deref(), &mut visited, &mut all);
        }
        for (key, group) in Self::by_key(&all) {
            for i in 0..group.len() {
                for j in i + 1..group.len() {
                    let (a, b) = (group[i], group[j]);
                    if id(a.f) == id(b.f) || self.merge_ok.contains(&(id(a.f), id(b.f))) {
                        continue;
                    }
                    let (da, db) = match (&a.def, &b.def) {
                        (Some(x), Some(y)) => (x, y),
                        // an undefined field is a violation of 5.3.1; nothing to compare
                        _ => continue,
                    };
                    if self.budget == 0 {
                        return None;
                    }
                    self.budget -= 1;
                    if !self.same_shape(a, b) {
                        return Some((a.f.pos, b.f.pos, format!("response key {}: fields {} and {} have different response shapes", key, a.f.name.s, b.f.name.s)));
                    }
                    let a_obj = a.parent.as_deref().map_or(false, |p| self.is_object(p));
                    let b_obj = b.parent.as_deref().map_or(false, |p| self.is_object(p));
                    if a.parent == b.parent || !a_obj || !b_obj {
                        if a.f.name.s != b.f.name.s {
                            return Some((a.f.pos, b.f.pos, format!("response key {}: different fields {} and {}", key, a.f.name.s, b.f.name.s)));
                        }
                        if !same_args(a.f, b.f) {
                            return Some((a.f.pos, b.f.pos, format!("response key {}: field {} with different arguments", key, a.f.name.s)));
                        }
                        self.merge_ok.insert((id(a.f), id(b.f)));
                        let ca = Some(da.ty.base().to_string()).filter(|t| self.ext.is_composite(t));
                        let cb = Some(db.ty.base().to_string()).filter(|t| self.ext.is_composite(t));
                        if let Some(c) = self.can_merge(&[(&a.f.sel, ca), (&b.f.sel, cb)]) {
                            return Some(c);
                        }
                    }
                }
            }
        }
        None
    }

    /// SameResponseShape(fieldA, fieldB)
    fn same_shape(&mut self, a: &FRef<'_>, b: &FRef<'_>) -> bool {
        let k = (id(a.f), id(b.f));
        if let Some(r) = self.shape_memo.get(&k) {
            return *r;
        }
        let (da, db) = match (&a.def, &b.def) {
            (Some(x), Some(y)) => (x, y),
            _ => return true,
        };
        let (mut ta, mut tb) = (&da.ty, &db.ty);
        let leafs_equal;
        loop {
            if ta.is_nn() || tb.is_nn() {
                if !ta.is_nn() || !tb.is_nn() {
                    self.shape_memo.insert(k, false);
                    return false;
                }
                ta = ta.nullable();
                tb = tb.nullable();
            }
            match (ta, tb) {
                (Ty::List(x), Ty::List(y)) => {
                    ta = x;
                    tb = y;
                }
                (Ty::List(_), _) | (_, Ty::List(_)) => {
                    self.shape_memo.insert(k, false);
                    return false;
                }
                _ => {
                    let (na, nb) = (ta.base(), tb.base());
                    leafs_equal = if self.ext.is_leaf(na) || self.ext.is_leaf(nb) { Some(na == nb) } else { None };
                    break;
                }
            }
        }
        if let Some(r) = leafs_equal {
            self.shape_memo.insert(k, r);
            return r;
        }
        // both composite: compare the sub-selections pairwise by response name
        self.shape_memo.insert(k, true);
        let mut all = vec![];
        let mut visited = HashSet::new();
        self.collect(&a.f.sel, Some(da.ty.base()), &mut visited, &mut all);
        self.collect(&b.f.sel, Some(db.ty.base()), &mut visited, &mut all);
        let mut ok = true;
        'outer: for (_, group) in Self::by_key(&all) {
            for i in 0..group.len() {
                for j in i + 1..group.len() {
                    if id(group[i].f) == id(group[j].f) {
                        continue;
                    }
                    if self.budget == 0 {
                        break 'outer;
                    }
                    self.budget -= 1;
                    if !self.same_shape(group[i], group[j]) {
                        ok = false;
                        break 'outer;
                    }
                }
            }
        }
        self.shape_memo.insert(k, ok);
        ok
    }

    /// C09-F2's description, executable: flatten the selection set through fragments (each named fragment once),
    /// key every field by (name of the innermost enclosing type condition, response key); two fields with the same
    /// key conflict if their names differ, their argument counts differ, or an argument of the first has no equal
    /// argument in the second.
    fn quirk_conflict(&self, sel: &SelSet) -> Option<(Pos, Pos, String)> {
        fn find<'d>(doc: &'d Doc, on: Option<&'d str>, sel: &'d SelSet, visited: &mut HashSet<&'d str>, outputs: &mut HashMap<(Option<&'d str>, &'d str), &'d Field>, hit: &mut Option<(Pos, Pos, String)>) {
            for it in &sel.items {
                match it {
                    Selection::Field(f) => match outputs.get(&(on, f.key())) {
                        Some(prev) => {
                            let differs = prev.name.s != f.name.s || prev.args.len() != f.args.len() || prev.args.iter().any(|(n, v)| !f.args.iter().any(|(m, w)| n.s == m.s && val_eq(&v.v, &w.v)));
                            if differs && hit.is_none() {
                                *hit = Some((prev.pos, f.pos, format!("response key {}: {} and {} differ (same type condition)", f.key(), prev.name.s, f.name.s)));
                            }
                        }
                        None => {
                            outputs.insert((on, f.key()), f);
                        }
                    },
                    Selection::Inline(i) => find(doc, i.cond.as_ref().map(|c| c.s.as_str()), &i.sel, visited, outputs, hit),
                    Selection::Spread(sp) => {
                        if let Some(fr) = doc.frag(&sp.name.s) {
                            if visited.insert(sp.name.s.as_str()) {
                                find(doc, Some(fr.cond.s.as_str()), &fr.sel, visited, outputs, hit);
                            }
                        }
                    }
                }
            }
        }
        let mut hit = None;
        find(self.inp.doc, None, sel, &mut HashSet::new(), &mut HashMap::new(), &mut hit);
        hit
    }
}
