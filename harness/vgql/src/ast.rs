//! Executable-document AST of the harness (independent of async-graphql's). Positions are filled in by the
//! printer (generator = oracle) or by the reference parser.

#[derive(Clone, Copy, Debug, PartialEq, Eq, Default, Hash, PartialOrd, Ord)]
pub struct Pos {
    pub line: u32,
    pub col: u32,
}

#[derive(Clone, Debug, PartialEq)]
pub struct Name {
    pub pos: Pos,
    pub s: String,
}
impl Name {
    pub fn new(s: impl Into<String>) -> Name {
        Name { pos: Pos::default(), s: s.into() }
    }
}

/// A value literal. Numbers keep their literal text (`Int("-0")`, `Float("1e3")`): what they denote is decided
/// by whoever compares.
#[derive(Clone, Debug, PartialEq)]
pub enum Val {
    Var(String),
    Int(String),
    Float(String),
    Str(String),
    Bool(bool),
    Null,
    Enum(String),
    List(Vec<PVal>),
    Obj(Vec<(Name, PVal)>),
}

#[derive(Clone, Debug, PartialEq)]
pub struct PVal {
    pub pos: Pos,
    pub v: Val,
}
impl PVal {
    pub fn new(v: Val) -> PVal {
        PVal { pos: Pos::default(), v }
    }
}

#[derive(Clone, Debug, PartialEq, Eq, Hash)]
pub enum Ty {
    Named(String),
    List(Box<Ty>),
    NonNull(Box<Ty>),
}
impl Ty {
    pub fn named(s: &str) -> Ty {
        Ty::Named(s.to_string())
    }
    pub fn list(t: Ty) -> Ty {
        Ty::List(Box::new(t))
    }
    pub fn nn(t: Ty) -> Ty {
        Ty::NonNull(Box::new(t))
    }
    pub fn base(&self) -> &str {
        match self {
            Ty::Named(n) => n,
            Ty::List(t) | Ty::NonNull(t) => t.base(),
        }
    }
    pub fn is_nn(&self) -> bool {
        matches!(self, Ty::NonNull(_))
    }
    pub fn nullable(&self) -> &Ty {
        match self {
            Ty::NonNull(t) => t,
            t => t,
        }
    }
    pub fn is_list(&self) -> bool {
        matches!(self.nullable(), Ty::List(_))
    }
    pub fn show(&self) -> String {
        match self {
            Ty::Named(n) => n.clone(),
            Ty::List(t) => format!("[{}]", t.show()),
            Ty::NonNull(t) => format!("{}!", t.show()),
        }
    }
    /// parse "[Int!]!" style text (harness-internal convenience)
    pub fn parse(s: &str) -> Ty {
        let s = s.trim();
        if let Some(inner) = s.strip_suffix('!') {
            return Ty::nn(Ty::parse(inner));
        }
        if let Some(inner) = s.strip_prefix('[') {
            return Ty::list(Ty::parse(inner.strip_suffix(']').expect("type text")));
        }
        Ty::Named(s.to_string())
    }
}

#[derive(Clone, Debug, PartialEq)]
pub struct PTy {
    pub pos: Pos,
    pub ty: Ty,
}

#[derive(Clone, Debug, PartialEq)]
pub struct Directive {
    pub pos: Pos, // the '@'
    pub name: Name,
    pub args: Vec<(Name, PVal)>,
}
impl Directive {
    pub fn new(name: &str, args: Vec<(&str, Val)>) -> Directive {
        Directive {
            pos: Pos::default(),
            name: Name::new(name),
            args: args.into_iter().map(|(n, v)| (Name::new(n), PVal::new(v))).collect(),
        }
    }
}

#[derive(Clone, Debug, PartialEq)]
pub struct SelSet {
    pub pos: Pos, // the '{' (default when absent)
    pub items: Vec<Selection>,
}
impl SelSet {
    pub fn new(items: Vec<Selection>) -> SelSet {
        SelSet { pos: Pos::default(), items }
    }
    pub fn empty() -> SelSet {
        SelSet::new(vec![])
    }
}

#[derive(Clone, Debug, PartialEq)]
pub struct Field {
    pub pos: Pos, // first token (alias or name)
    pub alias: Option<Name>,
    pub name: Name,
    pub args: Vec<(Name, PVal)>,
    pub directives: Vec<Directive>,
    pub sel: SelSet,
}
impl Field {
    pub fn new(name: &str) -> Field {
        Field { pos: Pos::default(), alias: None, name: Name::new(name), args: vec![], directives: vec![], sel: SelSet::empty() }
    }
    pub fn key(&self) -> &str {
        self.alias.as_ref().map(|a| a.s.as_str()).unwrap_or(&self.name.s)
    }
}

#[derive(Clone, Debug, PartialEq)]
pub struct Inline {
    pub pos: Pos, // the '...'
    pub cond: Option<Name>,
    pub cond_pos: Pos, // the `on` keyword
    pub directives: Vec<Directive>,
    pub sel: SelSet,
}

#[derive(Clone, Debug, PartialEq)]
pub struct Spread {
    pub pos: Pos, // the '...'
    pub name: Name,
    pub directives: Vec<Directive>,
}

#[derive(Clone, Debug, PartialEq)]
pub enum Selection {
    Field(Field),
    Inline(Inline),
    Spread(Spread),
}

#[derive(Clone, Copy, Debug, PartialEq, Eq, Hash)]
pub enum OpKind {
    Query,
    Mutation,
    Subscription,
}
impl OpKind {
    pub fn kw(self) -> &'static str {
        match self {
            OpKind::Query => "query",
            OpKind::Mutation => "mutation",
            OpKind::Subscription => "subscription",
        }
    }
}

#[derive(Clone, Debug, PartialEq)]
pub struct VarDef {
    pub pos: Pos, // the '$'
    pub name: Name,
    pub ty: PTy,
    pub default: Option<PVal>,
    pub directives: Vec<Directive>,
}

#[derive(Clone, Debug, PartialEq)]
pub struct OpDef {
    pub pos: Pos, // first token (keyword or '{')
    /// false = query shorthand (bare selection set)
    pub explicit: bool,
    pub kind: OpKind,
    pub name: Option<Name>,
    pub vars: Vec<VarDef>,
    pub directives: Vec<Directive>,
    pub sel: SelSet,
}

#[derive(Clone, Debug, PartialEq)]
pub struct FragDef {
    pub pos: Pos, // the `fragment` keyword
    pub name: Name,
    pub cond: Name,
    pub cond_pos: Pos,
    pub directives: Vec<Directive>,
    pub sel: SelSet,
}

#[derive(Clone, Debug, PartialEq)]
pub enum Def {
    Op(OpDef),
    Frag(FragDef),
}

#[derive(Clone, Debug, PartialEq, Default)]
pub struct Doc {
    pub defs: Vec<Def>,
}
impl Doc {
    pub fn ops(&self) -> impl Iterator<Item = &OpDef> {
        self.defs.iter().filter_map(|d| match d {
            Def::Op(o) => Some(o),
            _ => None,
        })
    }
    pub fn frags(&self) -> impl Iterator<Item = &FragDef> {
        self.defs.iter().filter_map(|d| match d {
            Def::Frag(f) => Some(f),
            _ => None,
        })
    }
    pub fn frag(&self, name: &str) -> Option<&FragDef> {
        self.frags().find(|f| f.name.s == name)
    }
}

/// Position-free structural equality helpers: strip all positions.
pub fn strip_doc(d: &Doc) -> Doc {
    let mut d = d.clone();
    for def in &mut d.defs {
        match def {
            Def::Op(o) => {
                o.pos = Pos::default();
                if let Some(n) = &mut o.name {
                    n.pos = Pos::default();
                }
                for v in &mut o.vars {
                    v.pos = Pos::default();
                    v.name.pos = Pos::default();
                    v.ty.pos = Pos::default();
                    if let Some(dv) = &mut v.default {
                        strip_val(dv);
                    }
                    strip_dirs(&mut v.directives);
                }
                strip_dirs(&mut o.directives);
                strip_sel(&mut o.sel);
            }
            Def::Frag(f) => {
                f.pos = Pos::default();
                f.name.pos = Pos::default();
                f.cond.pos = Pos::default();
                f.cond_pos = Pos::default();
                strip_dirs(&mut f.directives);
                strip_sel(&mut f.sel);
            }
        }
    }
    d
}
fn strip_dirs(ds: &mut Vec<Directive>) {
    for d in ds {
        d.pos = Pos::default();
        d.name.pos = Pos::default();
        for (n, v) in &mut d.args {
            n.pos = Pos::default();
            strip_val(v);
        }
    }
}
pub fn strip_val(v: &mut PVal) {
    v.pos = Pos::default();
    match &mut v.v {
        Val::List(l) => l.iter_mut().for_each(strip_val),
        Val::Obj(o) => o.iter_mut().for_each(|(n, v)| {
            n.pos = Pos::default();
            strip_val(v)
        }),
        _ => {}
    }
}
fn strip_sel(s: &mut SelSet) {
    s.pos = Pos::default();
    for it in &mut s.items {
        match it {
            Selection::Field(f) => {
                f.pos = Pos::default();
                if let Some(a) = &mut f.alias {
                    a.pos = Pos::default();
                }
                f.name.pos = Pos::default();
                for (n, v) in &mut f.args {
                    n.pos = Pos::default();
                    strip_val(v);
                }
                strip_dirs(&mut f.directives);
                strip_sel(&mut f.sel);
            }
            Selection::Inline(i) => {
                i.pos = Pos::default();
                i.cond_pos = Pos::default();
                if let Some(c) = &mut i.cond {
                    c.pos = Pos::default();
                }
                strip_dirs(&mut i.directives);
                strip_sel(&mut i.sel);
            }
            Selection::Spread(s) => {
                s.pos = Pos::default();
                s.name.pos = Pos::default();
                strip_dirs(&mut s.directives);
            }
        }
    }
}

/// Rewrite number literals to a canonical text of what they denote: ints as decimal i128, floats as
/// `f:<bits of the nearest f64>`; so that documents compare by denotation.
pub fn canon_numbers(d: &mut Doc) {
    fn val(v: &mut PVal) {
        match &mut v.v {
            Val::Int(t) => {
                if let Ok(i) = t.parse::<i128>() {
                    *t = i.to_string();
                }
            }
            Val::Float(t) => {
                if let Ok(f) = t.parse::<f64>() {
                    *t = format!("f:{:016x}", f.to_bits());
                }
            }
            Val::List(l) => l.iter_mut().for_each(val),
            Val::Obj(o) => o.iter_mut().for_each(|(_, v)| val(v)),
            _ => {}
        }
    }
    fn dirs(ds: &mut Vec<Directive>) {
        for d in ds {
            for (_, v) in &mut d.args {
                val(v);
            }
        }
    }
    fn sel(s: &mut SelSet) {
        for it in &mut s.items {
            match it {
                Selection::Field(f) => {
                    for (_, v) in &mut f.args {
                        val(v);
                    }
                    dirs(&mut f.directives);
                    sel(&mut f.sel);
                }
                Selection::Inline(i) => {
                    dirs(&mut i.directives);
                    sel(&mut i.sel);
                }
                Selection::Spread(s) => dirs(&mut s.directives),
            }
        }
    }
    for def in &mut d.defs {
        match def {
            Def::Op(o) => {
                for v in &mut o.vars {
                    if let Some(dv) = &mut v.default {
                        val(dv);
                    }
                    dirs(&mut v.directives);
                }
                dirs(&mut o.directives);
                sel(&mut o.sel);
            }
            Def::Frag(f) => {
                dirs(&mut f.directives);
                sel(&mut f.sel);
            }
        }
    }
}

/// Sort definitions (operations by name, anonymous first; then fragments by name) and mark every operation
/// explicit: the normal form in which documents are compared with parsers that keep definitions in maps.
pub fn normalize_defs(d: &mut Doc) {
    for def in &mut d.defs {
        if let Def::Op(o) = def {
            o.explicit = true;
        }
    }
    d.defs.sort_by_key(|d| match d {
        Def::Op(o) => (0, o.name.as_ref().map(|n| n.s.clone()).unwrap_or_default()),
        Def::Frag(f) => (1, f.name.s.clone()),
    });
}

/// Labelled positions of every positioned node, in a deterministic traversal order (nested values excluded:
/// async-graphql keeps positions only for top-level argument values).
pub fn positions(d: &Doc) -> Vec<(String, Pos)> {
    let mut out = vec![];
    fn dirs(path: &str, ds: &[Directive], out: &mut Vec<(String, Pos)>) {
        for (i, d) in ds.iter().enumerate() {
            out.push((format!("{}@{}[{}]", path, d.name.s, i), d.pos));
            out.push((format!("{}@{}[{}].name", path, d.name.s, i), d.name.pos));
            for (n, v) in &d.args {
                out.push((format!("{}@{}.{}:name", path, d.name.s, n.s), n.pos));
                out.push((format!("{}@{}.{}:value", path, d.name.s, n.s), v.pos));
            }
        }
    }
    fn sel(path: &str, s: &SelSet, out: &mut Vec<(String, Pos)>) {
        if s.items.is_empty() {
            return;
        }
        out.push((format!("{}{{", path), s.pos));
        for (i, it) in s.items.iter().enumerate() {
            match it {
                Selection::Field(f) => {
                    let p = format!("{}/{}:{}", path, i, f.key());
                    out.push((p.clone(), f.pos));
                    if let Some(a) = &f.alias {
                        out.push((format!("{}.alias", p), a.pos));
                    }
                    out.push((format!("{}.name", p), f.name.pos));
                    for (n, v) in &f.args {
                        out.push((format!("{}({}:name)", p, n.s), n.pos));
                        out.push((format!("{}({}:value)", p, n.s), v.pos));
                    }
                    dirs(&p, &f.directives, out);
                    sel(&p, &f.sel, out);
                }
                Selection::Inline(inl) => {
                    let p = format!("{}/{}:...on", path, i);
                    out.push((p.clone(), inl.pos));
                    if let Some(c) = &inl.cond {
                        out.push((format!("{}.on", p), inl.cond_pos));
                        out.push((format!("{}.cond", p), c.pos));
                    }
                    dirs(&p, &inl.directives, out);
                    sel(&p, &inl.sel, out);
                }
                Selection::Spread(sp) => {
                    let p = format!("{}/{}:...{}", path, i, sp.name.s);
                    out.push((p.clone(), sp.pos));
                    out.push((format!("{}.name", p), sp.name.pos));
                    dirs(&p, &sp.directives, out);
                }
            }
        }
    }
    for def in &d.defs {
        match def {
            Def::Op(o) => {
                let p = format!("op<{}>", o.name.as_ref().map(|n| n.s.as_str()).unwrap_or(""));
                out.push((p.clone(), o.pos));
                if let Some(n) = &o.name {
                    out.push((format!("{}.name", p), n.pos));
                }
                for v in &o.vars {
                    let vp = format!("{}${}", p, v.name.s);
                    out.push((vp.clone(), v.pos));
                    out.push((format!("{}.name", vp), v.name.pos));
                    out.push((format!("{}.type", vp), v.ty.pos));
                    if let Some(dv) = &v.default {
                        out.push((format!("{}.default", vp), dv.pos));
                    }
                    dirs(&vp, &v.directives, &mut out);
                }
                dirs(&p, &o.directives, &mut out);
                sel(&p, &o.sel, &mut out);
            }
            Def::Frag(f) => {
                let p = format!("frag<{}>", f.name.s);
                out.push((p.clone(), f.pos));
                out.push((format!("{}.name", p), f.name.pos));
                out.push((format!("{}.on", p), f.cond_pos));
                out.push((format!("{}.cond", p), f.cond.pos));
                dirs(&p, &f.directives, &mut out);
                sel(&p, &f.sel, &mut out);
            }
        }
    }
    out
}
