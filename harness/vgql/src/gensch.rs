//! Generator of small random type systems (valid by construction) as `Sch`.
use crate::ast::*;
use crate::sch::*;
use vcore::Src;

pub struct SchCfg {
    pub mutation: bool,
    pub subscription: bool,
    pub input_objects: bool,
    pub interface_inheritance: bool,
    pub arguments: bool,
}
impl Default for SchCfg {
    fn default() -> Self {
        SchCfg { mutation: true, subscription: false, input_objects: true, interface_inheritance: true, arguments: true }
    }
}

fn wrap(s: &mut dyn Src, base: &str, allow_list: bool) -> Ty {
    let named = Ty::named(base);
    let k = if allow_list { s.choose(9) } else { s.choose(2) };
    match k {
        0 => named,
        1 => Ty::nn(named),
        2 => Ty::list(named),
        3 => Ty::nn(Ty::list(Ty::nn(Ty::named(base)))),
        4 => Ty::list(Ty::nn(Ty::named(base))),
        5 => Ty::nn(Ty::list(Ty::named(base))),
        6 => Ty::list(Ty::list(Ty::named(base))),
        7 => Ty::nn(Ty::list(Ty::nn(Ty::list(Ty::nn(Ty::named(base)))))),
        _ => named,
    }
}

fn default_for(sch: &Sch, s: &mut dyn Src, ty: &Ty) -> Option<Val> {
    if !s.chance(1, 3) {
        return None;
    }
    let mut v = PVal::new(crate::gentyped::gen_input_literal(sch, ty, s, 1));
    strip_val(&mut v);
    Some(v.v)
}

pub fn gen_sch(s: &mut dyn Src, cfg: &SchCfg) -> Sch {
    let mut sch = Sch::default();
    sch.query = "Query".into();
    // leaves
    let mut leaf_names: Vec<String> = vec!["Int".into(), "Float".into(), "String".into(), "Boolean".into(), "ID".into()];
    let n_enum = 1 + s.choose(2);
    for i in 0..n_enum {
        let mut e = TypeDef::new(&format!("En{}", i + 1), Kind::Enum);
        let nv = 2 + s.choose(2);
        for v in 0..nv {
            e.values.push(EnumValDef { name: format!("V{}_{}", i + 1, v), desc: None, deprecated: None });
        }
        leaf_names.push(e.name.clone());
        sch.types.insert(e.name.clone(), e);
    }
    if s.bool() {
        let sc = TypeDef::new("Sc1", Kind::Scalar);
        leaf_names.push(sc.name.clone());
        sch.types.insert(sc.name.clone(), sc);
    }
    // input objects
    let mut input_names: Vec<String> = leaf_names.clone();
    if cfg.input_objects {
        let n_in = 1 + s.choose(2);
        for i in 0..n_in {
            let mut t = TypeDef::new(&format!("In{}", i + 1), Kind::Input);
            let nf = 1 + s.choose(3);
            for f in 0..nf {
                let base = input_names[s.choose(input_names.len())].clone();
                let ty = wrap(s, &base, true);
                let default = default_for(&sch, s, &ty);
                t.input_fields.push(ArgDef { name: format!("f{}", f), ty, default, desc: None, deprecated: None });
            }
            input_names.push(t.name.clone());
            sch.types.insert(t.name.clone(), t);
        }
        if s.bool() {
            let mut t = TypeDef::new("One1", Kind::Input);
            t.one_of = true;
            for f in 0..2 + s.choose(2) {
                let base = leaf_names[s.choose(leaf_names.len())].clone();
                // oneOf fields are nullable without defaults
                let ty = if s.bool() { Ty::named(&base) } else { Ty::list(Ty::named(&base)) };
                t.input_fields.push(ArgDef { name: format!("o{}", f), ty, default: None, desc: None, deprecated: None });
            }
            input_names.push(t.name.clone());
            sch.types.insert(t.name.clone(), t);
        }
    }
    // plan the composite type names first so that fields can reference any of them
    let n_obj = 2 + s.choose(3);
    let n_if = 1 + s.choose(2);
    let n_un = 1 + s.choose(2);
    let objs: Vec<String> = (0..n_obj).map(|i| format!("Ob{}", i + 1)).collect();
    let ifs: Vec<String> = (0..n_if).map(|i| format!("If{}", i + 1)).collect();
    let uns: Vec<String> = (0..n_un).map(|i| format!("Un{}", i + 1)).collect();
    let mut out_names: Vec<String> = leaf_names.clone();
    out_names.extend(objs.iter().cloned());
    out_names.extend(ifs.iter().cloned());
    out_names.extend(uns.iter().cloned());

    let gen_field = |s: &mut dyn Src, sch: &Sch, name: String| -> FieldDef {
        // prefer leaves a bit so that documents terminate
        let base = if s.chance(1, 2) { leaf_names[s.choose(leaf_names.len())].clone() } else { out_names[s.choose(out_names.len())].clone() };
        let ty = wrap(s, &base, true);
        let mut args = vec![];
        if cfg.arguments && s.chance(1, 3) {
            for a in 0..1 + s.choose(2) {
                let ab = input_names[s.choose(input_names.len())].clone();
                let aty = wrap(s, &ab, true);
                let default = default_for(sch, s, &aty);
                args.push(ArgDef { name: format!("a{}", a), ty: aty, default, desc: None, deprecated: None });
            }
        }
        FieldDef { name, args, ty, desc: None, deprecated: None }
    };

    // interfaces (If2 may implement If1)
    for (i, n) in ifs.iter().enumerate() {
        let mut t = TypeDef::new(n, Kind::Interface);
        let nf = 1 + s.choose(2);
        for f in 0..nf {
            t.fields.push(gen_field(s, &sch, format!("i{}f{}", i + 1, f)));
        }
        if i > 0 && cfg.interface_inheritance && s.bool() {
            t.interfaces.push(ifs[0].clone());
            let inherited = sch.types[&ifs[0]].fields.clone();
            t.fields.extend(inherited);
        }
        sch.types.insert(n.clone(), t);
    }
    // objects; make sure every interface has an implementor
    for (i, n) in objs.iter().enumerate() {
        let mut t = TypeDef::new(n, Kind::Object);
        for (k, inf) in ifs.iter().enumerate() {
            let must = i == k % objs.len();
            if must || s.chance(1, 3) {
                if !t.interfaces.contains(inf) {
                    t.interfaces.push(inf.clone());
                }
                // implementing an interface implies implementing its interfaces
                for parent in sch.types[inf].interfaces.clone() {
                    if !t.interfaces.contains(&parent) {
                        t.interfaces.push(parent);
                    }
                }
            }
        }
        for inf in t.interfaces.clone() {
            for f in sch.types[&inf].fields.clone() {
                if t.field(&f.name).is_none() {
                    t.fields.push(f);
                }
            }
        }
        let nf = 1 + s.choose(3);
        for f in 0..nf {
            t.fields.push(gen_field(s, &sch, format!("o{}f{}", i + 1, f)));
        }
        sch.types.insert(n.clone(), t);
    }
    for n in &uns {
        let mut t = TypeDef::new(n, Kind::Union);
        let start = s.choose(objs.len());
        let cnt = 1 + s.choose(objs.len());
        for k in 0..cnt {
            let m = objs[(start + k) % objs.len()].clone();
            if !t.members.contains(&m) {
                t.members.push(m);
            }
        }
        sch.types.insert(n.clone(), t);
    }
    // roots: reach everything
    let mut q = TypeDef::new("Query", Kind::Object);
    for (i, n) in objs.iter().chain(ifs.iter()).chain(uns.iter()).enumerate() {
        let ty = wrap(s, n, true);
        q.fields.push(FieldDef { name: format!("q{}", i), args: vec![], ty, desc: None, deprecated: None });
    }
    for f in 0..1 + s.choose(3) {
        q.fields.push(gen_field(s, &sch, format!("qx{}", f)));
    }
    sch.types.insert("Query".into(), q);
    if cfg.mutation && s.bool() {
        let mut m = TypeDef::new("Mutation", Kind::Object);
        for f in 0..1 + s.choose(3) {
            m.fields.push(gen_field(s, &sch, format!("m{}", f)));
        }
        sch.mutation = Some("Mutation".into());
        sch.types.insert("Mutation".into(), m);
    }
    if cfg.subscription && s.bool() {
        let mut m = TypeDef::new("Subscription", Kind::Object);
        for f in 0..1 + s.choose(2) {
            m.fields.push(gen_field(s, &sch, format!("s{}", f)));
        }
        sch.subscription = Some("Subscription".into());
        sch.types.insert("Subscription".into(), m);
    }
    sch
}

/// SDL-ish rendering for replay files / samples
pub fn show_sch(sch: &Sch) -> String {
    let mut out = String::new();
    for t in sch.types.values() {
        match t.kind {
            Kind::Scalar => out.push_str(&format!("scalar {} ", t.name)),
            Kind::Enum => out.push_str(&format!("enum {}{{{}}} ", t.name, t.values.iter().map(|v| v.name.clone()).collect::<Vec<_>>().join(" "))),
            Kind::Union => out.push_str(&format!("union {}={} ", t.name, t.members.join("|"))),
            Kind::Input => out.push_str(&format!(
                "input {}{}{{{}}} ",
                t.name,
                if t.one_of { "@oneOf" } else { "" },
                t.input_fields.iter().map(|f| format!("{}:{}{}", f.name, f.ty.show(), f.default.as_ref().map(|d| format!("={}", crate::print::print_value_plain(d))).unwrap_or_default())).collect::<Vec<_>>().join(" ")
            )),
            Kind::Object | Kind::Interface => {
                out.push_str(&format!(
                    "{} {}{}{{{}}} ",
                    if t.kind == Kind::Object { "type" } else { "interface" },
                    t.name,
                    if t.interfaces.is_empty() { String::new() } else { format!(" implements {}", t.interfaces.join("&")) },
                    t.fields
                        .iter()
                        .map(|f| format!(
                            "{}{}:{}",
                            f.name,
                            if f.args.is_empty() {
                                String::new()
                            } else {
                                format!("({})", f.args.iter().map(|a| format!("{}:{}{}", a.name, a.ty.show(), a.default.as_ref().map(|d| format!("={}", crate::print::print_value_plain(d))).unwrap_or_default())).collect::<Vec<_>>().join(","))
                            },
                            f.ty.show()
                        ))
                        .collect::<Vec<_>>()
                        .join(" ")
                ));
            }
        }
    }
    out
}
