pub mod ast;
pub mod blockstr;
pub mod gendoc;
pub mod print;
pub mod print_sdl;
pub mod refparse;
