pub fn placeholder() {}
