//! Reference GraphQL parser (lexer + recursive descent), written from the October 2021 specification text:
//! §2 lexical grammar incl. lookahead restrictions, string escapes and BlockStringValue, executable documents
//! and type-system documents incl. extensions. Shares no code with async-graphql.

use crate::ast::*;
use crate::blockstr::block_string_value;

#[derive(Clone, Debug, PartialEq)]
pub enum Tok {
    Punct(&'static str),
    Name(String),
    Int(String),
    Float(String),
    Str(String),
    Eof,
}

#[derive(Clone, Debug)]
pub struct Token {
    pub t: Tok,
    pub pos: Pos,
    /// was a block string (descriptions etc. do not care; kept for diagnostics)
    pub block: bool,
}

#[derive(Clone, Debug, PartialEq)]
pub struct PErr {
    pub pos: Pos,
    pub msg: String,
    /// the input touches a construct on which editions of the specification disagree (no verdict demanded)
    pub dont_care: bool,
}

#[derive(Clone, Copy, Debug)]
pub struct Opts {
    /// documented deviation: `\uXXXX` must denote a Unicode scalar value (no surrogates)
    pub scalar_escapes_only: bool,
    /// documented deviation: maximum selection-set nesting (None = unlimited)
    pub max_sel_depth: Option<usize>,
    /// quirk of known finding C13-F2: variable directives may also come BEFORE the default value
    pub legacy_var_directive_order: bool,
}
impl Default for Opts {
    fn default() -> Self {
        Opts { scalar_escapes_only: true, max_sel_depth: None, legacy_var_directive_order: false }
    }
}

struct Lexer<'a> {
    cs: Vec<char>,
    i: usize,
    line: u32,
    col: u32,
    opts: &'a Opts,
    pub dont_care: bool,
}

fn is_name_start(c: char) -> bool {
    c.is_ascii_alphabetic() || c == '_'
}
fn is_name_cont(c: char) -> bool {
    c.is_ascii_alphanumeric() || c == '_'
}

impl<'a> Lexer<'a> {
    fn new(s: &str, opts: &'a Opts) -> Lexer<'a> {
        Lexer { cs: s.chars().collect(), i: 0, line: 1, col: 1, opts, dont_care: false }
    }
    fn peek(&self, k: usize) -> Option<char> {
        self.cs.get(self.i + k).copied()
    }
    fn pos(&self) -> Pos {
        Pos { line: self.line, col: self.col }
    }
    fn bump(&mut self) -> Option<char> {
        let c = self.cs.get(self.i).copied()?;
        self.i += 1;
        match c {
            '\r' => {
                if self.peek(0) == Some('\n') {
                    self.i += 1;
                }
                self.line += 1;
                self.col = 1;
            }
            '\n' => {
                self.line += 1;
                self.col = 1;
            }
            _ => self.col += 1,
        }
        Some(c)
    }
    fn err<T>(&self, pos: Pos, msg: &str) -> Result<T, PErr> {
        Err(PErr { pos, msg: msg.to_string(), dont_care: self.dont_care })
    }
    fn source_char_ok(&mut self, c: char) {
        // October 2021: SourceCharacter = TAB | LF | CR | U+0020–U+FFFF; the current draft allows any scalar.
        // Raw control characters are therefore a class on which no verdict is demanded.
        if (c as u32) < 0x20 && c != '\t' && c != '\n' && c != '\r' {
            self.dont_care = true;
        }
    }
    fn skip_ignored(&mut self) {
        loop {
            match self.peek(0) {
                Some(' ') | Some('\t') | Some(',') | Some('\u{feff}') | Some('\n') | Some('\r') => {
                    self.bump();
                }
                Some('#') => {
                    while let Some(c) = self.peek(0) {
                        if c == '\n' || c == '\r' {
                            break;
                        }
                        self.source_char_ok(c);
                        self.bump();
                    }
                }
                _ => break,
            }
        }
    }
    fn next(&mut self) -> Result<Token, PErr> {
        self.skip_ignored();
        let pos = self.pos();
        let c = match self.peek(0) {
            None => return Ok(Token { t: Tok::Eof, pos, block: false }),
            Some(c) => c,
        };
        let mk = |t| Ok(Token { t, pos, block: false });
        match c {
            '!' | '$' | '&' | '(' | ')' | ':' | '=' | '@' | '[' | ']' | '{' | '|' | '}' => {
                self.bump();
                let p: &'static str = match c {
                    '!' => "!",
                    '$' => "$",
                    '&' => "&",
                    '(' => "(",
                    ')' => ")",
                    ':' => ":",
                    '=' => "=",
                    '@' => "@",
                    '[' => "[",
                    ']' => "]",
                    '{' => "{",
                    '|' => "|",
                    _ => "}",
                };
                mk(Tok::Punct(p))
            }
            '.' => {
                if self.peek(1) == Some('.') && self.peek(2) == Some('.') {
                    self.bump();
                    self.bump();
                    self.bump();
                    mk(Tok::Punct("..."))
                } else {
                    self.err(pos, "unexpected '.'")
                }
            }
            '"' => self.string(pos),
            c if is_name_start(c) => {
                let mut s = String::new();
                while let Some(c) = self.peek(0) {
                    if is_name_cont(c) {
                        s.push(c);
                        self.bump();
                    } else {
                        break;
                    }
                }
                mk(Tok::Name(s))
            }
            c if c == '-' || c.is_ascii_digit() => self.number(pos),
            c => {
                self.source_char_ok(c);
                self.err(pos, &format!("unexpected character {:?}", c))
            }
        }
    }
    fn number(&mut self, pos: Pos) -> Result<Token, PErr> {
        let mut s = String::new();
        if self.peek(0) == Some('-') {
            s.push('-');
            self.bump();
        }
        match self.peek(0) {
            Some('0') => {
                s.push('0');
                self.bump();
                if let Some(c) = self.peek(0) {
                    if c.is_ascii_digit() {
                        return self.err(pos, "leading zero");
                    }
                }
            }
            Some(c) if c.is_ascii_digit() => {
                while let Some(c) = self.peek(0) {
                    if c.is_ascii_digit() {
                        s.push(c);
                        self.bump();
                    } else {
                        break;
                    }
                }
            }
            _ => return self.err(pos, "digit expected"),
        }
        let mut float = false;
        if self.peek(0) == Some('.') {
            // FractionalPart needs at least one digit
            if self.peek(1).map_or(false, |c| c.is_ascii_digit()) {
                float = true;
                s.push('.');
                self.bump();
                while let Some(c) = self.peek(0) {
                    if c.is_ascii_digit() {
                        s.push(c);
                        self.bump();
                    } else {
                        break;
                    }
                }
            } else {
                return self.err(pos, "number followed by '.'");
            }
        }
        if matches!(self.peek(0), Some('e') | Some('E')) {
            // ExponentPart: e [+-]? digit+ ; otherwise this is a NameStart after a number: error
            let mut k = 1;
            if matches!(self.peek(1), Some('+') | Some('-')) {
                k = 2;
            }
            if self.peek(k).map_or(false, |c| c.is_ascii_digit()) {
                float = true;
                for _ in 0..k {
                    s.push(self.peek(0).unwrap());
                    self.bump();
                }
                while let Some(c) = self.peek(0) {
                    if c.is_ascii_digit() {
                        s.push(c);
                        self.bump();
                    } else {
                        break;
                    }
                }
            } else {
                return self.err(pos, "bad exponent");
            }
        }
        // lookahead restriction: not followed by Digit, '.', NameStart
        if let Some(c) = self.peek(0) {
            if c.is_ascii_digit() || c == '.' || is_name_start(c) {
                return self.err(pos, "number followed by digit, '.' or name start");
            }
        }
        Ok(Token { t: if float { Tok::Float(s) } else { Tok::Int(s) }, pos, block: false })
    }
    fn string(&mut self, pos: Pos) -> Result<Token, PErr> {
        // block string?
        if self.peek(1) == Some('"') && self.peek(2) == Some('"') {
            self.bump();
            self.bump();
            self.bump();
            let mut raw = String::new();
            loop {
                match self.peek(0) {
                    None => return self.err(pos, "unterminated block string"),
                    Some('"') if self.peek(1) == Some('"') && self.peek(2) == Some('"') => {
                        self.bump();
                        self.bump();
                        self.bump();
                        break;
                    }
                    Some('\\') if self.peek(1) == Some('"') && self.peek(2) == Some('"') && self.peek(3) == Some('"') => {
                        raw.push_str("\\\"\"\"");
                        for _ in 0..4 {
                            self.bump();
                        }
                    }
                    Some('\r') => {
                        raw.push('\r');
                        if self.peek(1) == Some('\n') {
                            raw.push('\n');
                        }
                        self.bump();
                    }
                    Some(c) => {
                        self.source_char_ok(c);
                        raw.push(c);
                        self.bump();
                    }
                }
            }
            return Ok(Token { t: Tok::Str(block_string_value(&raw)), pos, block: true });
        }
        self.bump(); // opening quote
        let mut out = String::new();
        loop {
            let c = match self.peek(0) {
                None => return self.err(pos, "unterminated string"),
                Some(c) => c,
            };
            match c {
                '"' => {
                    self.bump();
                    break;
                }
                '\n' | '\r' => return self.err(pos, "line terminator in string"),
                '\\' => {
                    let epos = self.pos();
                    self.bump();
                    let e = match self.peek(0) {
                        None => return self.err(pos, "unterminated string"),
                        Some(e) => e,
                    };
                    match e {
                        '"' => out.push('"'),
                        '\\' => out.push('\\'),
                        '/' => out.push('/'),
                        'b' => out.push('\u{8}'),
                        'f' => out.push('\u{c}'),
                        'n' => out.push('\n'),
                        'r' => out.push('\r'),
                        't' => out.push('\t'),
                        'u' => {
                            if self.peek(1) == Some('{') {
                                // variable-width escapes exist only in the current draft
                                self.dont_care = true;
                                return self.err(epos, "variable width unicode escape");
                            }
                            let mut v = 0u32;
                            for k in 1..=4 {
                                match self.peek(k).and_then(|h| h.to_digit(16)) {
                                    Some(d) => v = v * 16 + d,
                                    None => return self.err(epos, "bad unicode escape"),
                                }
                            }
                            match char::from_u32(v) {
                                Some(ch) => out.push(ch),
                                None => {
                                    if self.opts.scalar_escapes_only {
                                        return self.err(epos, "escape is not a unicode scalar value");
                                    }
                                    // surrogate code units cannot be represented in a Rust string: the caller
                                    // asked for spec behaviour, which we cannot model; treat as don't care
                                    self.dont_care = true;
                                    return self.err(epos, "surrogate escape");
                                }
                            }
                            for _ in 0..4 {
                                self.bump();
                            }
                        }
                        _ => return self.err(epos, "bad escape"),
                    }
                    self.bump();
                }
                c => {
                    self.source_char_ok(c);
                    out.push(c);
                    self.bump();
                }
            }
        }
        Ok(Token { t: Tok::Str(out), pos, block: false })
    }
}

pub fn lex(s: &str, opts: &Opts) -> Result<Vec<Token>, PErr> {
    let mut lx = Lexer::new(s, opts);
    let mut out = vec![];
    loop {
        let t = lx.next();
        match t {
            Ok(t) => {
                let eof = t.t == Tok::Eof;
                out.push(t);
                if eof {
                    break;
                }
            }
            Err(mut e) => {
                // keep scanning only to learn whether a don't-care construct occurs later? No: the first error
                // decides; but a raw control character anywhere makes the whole input don't-care.
                if s.chars().any(|c| (c as u32) < 0x20 && c != '\t' && c != '\n' && c != '\r') {
                    e.dont_care = true;
                }
                return Err(e);
            }
        }
    }
    if lx.dont_care {
        // signal through a synthetic error? No: a document can be fine AND contain a raw control character in a
        // comment; callers that care call `has_dont_care_chars`.
    }
    Ok(out)
}

pub fn has_dont_care_chars(s: &str) -> bool {
    s.chars().any(|c| (c as u32) < 0x20 && c != '\t' && c != '\n' && c != '\r') || s.contains("\\u{")
}

// ------------------------------------------------------------------------------------------------------
// type-system AST

#[derive(Clone, Debug, PartialEq)]
pub struct InputDefn {
    pub desc: Option<String>,
    pub name: String,
    pub ty: Ty,
    pub default: Option<Val>,
    pub directives: Vec<Directive>,
}
#[derive(Clone, Debug, PartialEq)]
pub struct FieldDefn {
    pub desc: Option<String>,
    pub name: String,
    pub args: Vec<InputDefn>,
    pub ty: Ty,
    pub directives: Vec<Directive>,
}
#[derive(Clone, Debug, PartialEq)]
pub struct EnumValDefn {
    pub desc: Option<String>,
    pub name: String,
    pub directives: Vec<Directive>,
}
#[derive(Clone, Copy, Debug, PartialEq, Eq, Hash)]
pub enum TKind {
    Scalar,
    Object,
    Interface,
    Union,
    Enum,
    Input,
}
#[derive(Clone, Debug, PartialEq)]
pub struct TypeDefn {
    pub extend: bool,
    pub desc: Option<String>,
    pub kind: TKind,
    pub name: String,
    pub interfaces: Vec<String>,
    pub directives: Vec<Directive>,
    pub fields: Vec<FieldDefn>,
    pub members: Vec<String>,
    pub values: Vec<EnumValDefn>,
    pub input_fields: Vec<InputDefn>,
}
#[derive(Clone, Debug, PartialEq)]
pub struct DirectiveDefn {
    pub desc: Option<String>,
    pub name: String,
    pub args: Vec<InputDefn>,
    pub repeatable: bool,
    pub locations: Vec<String>,
}
#[derive(Clone, Debug, PartialEq)]
pub struct SchemaDefn {
    pub extend: bool,
    pub desc: Option<String>,
    pub directives: Vec<Directive>,
    pub ops: Vec<(OpKind, String)>,
}
#[derive(Clone, Debug, PartialEq)]
pub enum SdlDef {
    Schema(SchemaDefn),
    Type(TypeDefn),
    Directive(DirectiveDefn),
}
#[derive(Clone, Debug, PartialEq, Default)]
pub struct SdlDoc {
    pub defs: Vec<SdlDef>,
}

// ------------------------------------------------------------------------------------------------------

struct P<'a> {
    toks: Vec<Token>,
    i: usize,
    opts: &'a Opts,
}

type R<T> = Result<T, PErr>;

impl<'a> P<'a> {
    fn peek(&self) -> &Tok {
        &self.toks[self.i].t
    }
    fn peek2(&self) -> &Tok {
        &self.toks[(self.i + 1).min(self.toks.len() - 1)].t
    }
    fn pos(&self) -> Pos {
        self.toks[self.i].pos
    }
    fn bump(&mut self) -> Token {
        let t = self.toks[self.i].clone();
        if self.i + 1 < self.toks.len() {
            self.i += 1;
        }
        t
    }
    fn err<T>(&self, msg: &str) -> R<T> {
        Err(PErr { pos: self.pos(), msg: format!("{} (found {:?})", msg, self.peek()), dont_care: false })
    }
    fn is_punct(&self, p: &str) -> bool {
        matches!(self.peek(), Tok::Punct(q) if *q == p)
    }
    fn is_kw(&self, k: &str) -> bool {
        matches!(self.peek(), Tok::Name(n) if n == k)
    }
    fn eat_punct(&mut self, p: &str) -> bool {
        if self.is_punct(p) {
            self.bump();
            true
        } else {
            false
        }
    }
    fn expect_punct(&mut self, p: &str) -> R<Pos> {
        if self.is_punct(p) {
            Ok(self.bump().pos)
        } else {
            self.err(&format!("expected '{}'", p))
        }
    }
    fn expect_kw(&mut self, k: &str) -> R<Pos> {
        if self.is_kw(k) {
            Ok(self.bump().pos)
        } else {
            self.err(&format!("expected '{}'", k))
        }
    }
    fn name(&mut self) -> R<Name> {
        match self.peek().clone() {
            Tok::Name(s) => {
                let pos = self.bump().pos;
                Ok(Name { pos, s })
            }
            _ => self.err("expected name"),
        }
    }

    fn value(&mut self, is_const: bool) -> R<PVal> {
        let pos = self.pos();
        let v = match self.peek().clone() {
            Tok::Punct("$") => {
                if is_const {
                    return self.err("variable in const context");
                }
                self.bump();
                Val::Var(self.name()?.s)
            }
            Tok::Int(s) => {
                self.bump();
                Val::Int(s)
            }
            Tok::Float(s) => {
                self.bump();
                Val::Float(s)
            }
            Tok::Str(s) => {
                self.bump();
                Val::Str(s)
            }
            Tok::Name(n) => {
                self.bump();
                match n.as_str() {
                    "true" => Val::Bool(true),
                    "false" => Val::Bool(false),
                    "null" => Val::Null,
                    _ => Val::Enum(n),
                }
            }
            Tok::Punct("[") => {
                self.bump();
                let mut items = vec![];
                while !self.is_punct("]") {
                    items.push(self.value(is_const)?);
                }
                self.bump();
                Val::List(items)
            }
            Tok::Punct("{") => {
                self.bump();
                let mut fields = vec![];
                while !self.is_punct("}") {
                    let n = self.name()?;
                    self.expect_punct(":")?;
                    let v = self.value(is_const)?;
                    fields.push((n, v));
                }
                self.bump();
                Val::Obj(fields)
            }
            _ => return self.err("expected value"),
        };
        Ok(PVal { pos, v })
    }

    fn ty(&mut self) -> R<PTy> {
        let pos = self.pos();
        let t = self.ty_inner()?;
        Ok(PTy { pos, ty: t })
    }
    fn ty_inner(&mut self) -> R<Ty> {
        let base = if self.eat_punct("[") {
            let inner = self.ty_inner()?;
            self.expect_punct("]")?;
            Ty::List(Box::new(inner))
        } else {
            Ty::Named(self.name()?.s)
        };
        if self.eat_punct("!") {
            Ok(Ty::NonNull(Box::new(base)))
        } else {
            Ok(base)
        }
    }

    fn arguments(&mut self, is_const: bool) -> R<Vec<(Name, PVal)>> {
        let mut out = vec![];
        if self.eat_punct("(") {
            loop {
                let n = self.name()?;
                self.expect_punct(":")?;
                let v = self.value(is_const)?;
                out.push((n, v));
                if self.eat_punct(")") {
                    break;
                }
            }
        }
        Ok(out)
    }
    fn directives(&mut self, is_const: bool) -> R<Vec<Directive>> {
        let mut out = vec![];
        while self.is_punct("@") {
            let pos = self.bump().pos;
            let name = self.name()?;
            let args = self.arguments(is_const)?;
            out.push(Directive { pos, name, args });
        }
        Ok(out)
    }

    fn selset(&mut self, depth: usize) -> R<SelSet> {
        if let Some(m) = self.opts.max_sel_depth {
            if depth > m {
                return Err(PErr { pos: self.pos(), msg: "selection set nesting limit".into(), dont_care: false });
            }
        }
        let pos = self.expect_punct("{")?;
        let mut items = vec![];
        loop {
            items.push(self.selection(depth)?);
            if self.eat_punct("}") {
                break;
            }
        }
        Ok(SelSet { pos, items })
    }
    fn selection(&mut self, depth: usize) -> R<Selection> {
        if self.is_punct("...") {
            let pos = self.bump().pos;
            // FragmentName is a Name but not `on`
            if let Tok::Name(n) = self.peek().clone() {
                if n != "on" {
                    let name = self.name()?;
                    let directives = self.directives(false)?;
                    return Ok(Selection::Spread(Spread { pos, name, directives }));
                }
            }
            let mut cond = None;
            let mut cond_pos = Pos::default();
            if self.is_kw("on") {
                cond_pos = self.bump().pos;
                cond = Some(self.name()?);
            }
            let directives = self.directives(false)?;
            let sel = self.selset(depth + 1)?;
            return Ok(Selection::Inline(Inline { pos, cond, cond_pos, directives, sel }));
        }
        let pos = self.pos();
        let first = self.name()?;
        let (alias, name) = if self.eat_punct(":") { (Some(first), self.name()?) } else { (None, first) };
        let args = self.arguments(false)?;
        let directives = self.directives(false)?;
        let sel = if self.is_punct("{") { self.selset(depth + 1)? } else { SelSet::empty() };
        Ok(Selection::Field(Field { pos, alias, name, args, directives, sel }))
    }

    fn executable_def(&mut self) -> R<Def> {
        let pos = self.pos();
        if self.is_punct("{") {
            let sel = self.selset(1)?;
            return Ok(Def::Op(OpDef { pos, explicit: false, kind: OpKind::Query, name: None, vars: vec![], directives: vec![], sel }));
        }
        let kw = match self.peek().clone() {
            Tok::Name(n) => n,
            _ => return self.err("expected definition"),
        };
        match kw.as_str() {
            "query" | "mutation" | "subscription" => {
                self.bump();
                let kind = match kw.as_str() {
                    "query" => OpKind::Query,
                    "mutation" => OpKind::Mutation,
                    _ => OpKind::Subscription,
                };
                let name = if let Tok::Name(_) = self.peek() { Some(self.name()?) } else { None };
                let mut vars = vec![];
                if self.eat_punct("(") {
                    loop {
                        let vpos = self.expect_punct("$")?;
                        let vname = self.name()?;
                        self.expect_punct(":")?;
                        let ty = self.ty()?;
                        let mut directives = if self.opts.legacy_var_directive_order { self.directives(true)? } else { vec![] };
                        let default = if self.eat_punct("=") { Some(self.value(true)?) } else { None };
                        if directives.is_empty() {
                            directives = self.directives(true)?;
                        }
                        vars.push(VarDef { pos: vpos, name: vname, ty, default, directives });
                        if self.eat_punct(")") {
                            break;
                        }
                    }
                }
                let directives = self.directives(false)?;
                let sel = self.selset(1)?;
                Ok(Def::Op(OpDef { pos, explicit: true, kind, name, vars, directives, sel }))
            }
            "fragment" => {
                self.bump();
                let name = self.name()?;
                if name.s == "on" {
                    return self.err("fragment name must not be 'on'");
                }
                let cond_pos = self.expect_kw("on")?;
                let cond = self.name()?;
                let directives = self.directives(false)?;
                let sel = self.selset(1)?;
                Ok(Def::Frag(FragDef { pos, name, cond, cond_pos, directives, sel }))
            }
            _ => self.err("expected executable definition"),
        }
    }

    // ---- type system ----
    fn description(&mut self) -> Option<String> {
        if let Tok::Str(s) = self.peek().clone() {
            self.bump();
            Some(s)
        } else {
            None
        }
    }
    fn input_defn(&mut self) -> R<InputDefn> {
        let desc = self.description();
        let name = self.name()?.s;
        self.expect_punct(":")?;
        let ty = self.ty()?.ty;
        let default = if self.eat_punct("=") { Some(self.value(true)?.v) } else { None };
        let directives = self.directives(true)?;
        Ok(InputDefn { desc, name, ty, default, directives })
    }
    fn args_defn(&mut self) -> R<Vec<InputDefn>> {
        let mut out = vec![];
        if self.eat_punct("(") {
            loop {
                out.push(self.input_defn()?);
                if self.eat_punct(")") {
                    break;
                }
            }
        }
        Ok(out)
    }
    fn fields_defn(&mut self) -> R<Vec<FieldDefn>> {
        let mut out = vec![];
        if self.eat_punct("{") {
            loop {
                let desc = self.description();
                let name = self.name()?.s;
                let args = self.args_defn()?;
                self.expect_punct(":")?;
                let ty = self.ty()?.ty;
                let directives = self.directives(true)?;
                out.push(FieldDefn { desc, name, args, ty, directives });
                if self.eat_punct("}") {
                    break;
                }
            }
        }
        Ok(out)
    }
    fn implements(&mut self) -> R<Vec<String>> {
        let mut out = vec![];
        if self.is_kw("implements") {
            self.bump();
            self.eat_punct("&");
            out.push(self.name()?.s);
            while self.eat_punct("&") {
                out.push(self.name()?.s);
            }
        }
        Ok(out)
    }
    fn type_system_def(&mut self) -> R<SdlDef> {
        let desc = self.description();
        let mut extend = false;
        if self.is_kw("extend") {
            if desc.is_some() {
                return self.err("extension cannot have a description");
            }
            extend = true;
            self.bump();
        }
        let kw = match self.peek().clone() {
            Tok::Name(n) => n,
            _ => return self.err("expected type system definition"),
        };
        let mut td = TypeDefn {
            extend,
            desc: desc.clone(),
            kind: TKind::Scalar,
            name: String::new(),
            interfaces: vec![],
            directives: vec![],
            fields: vec![],
            members: vec![],
            values: vec![],
            input_fields: vec![],
        };
        match kw.as_str() {
            "schema" => {
                self.bump();
                let directives = self.directives(true)?;
                let mut ops = vec![];
                if self.eat_punct("{") {
                    loop {
                        let k = match self.peek().clone() {
                            Tok::Name(n) if n == "query" => OpKind::Query,
                            Tok::Name(n) if n == "mutation" => OpKind::Mutation,
                            Tok::Name(n) if n == "subscription" => OpKind::Subscription,
                            _ => return self.err("expected operation type"),
                        };
                        self.bump();
                        self.expect_punct(":")?;
                        ops.push((k, self.name()?.s));
                        if self.eat_punct("}") {
                            break;
                        }
                    }
                } else if !extend || directives.is_empty() {
                    return self.err("schema definition needs operation types");
                }
                Ok(SdlDef::Schema(SchemaDefn { extend, desc, directives, ops }))
            }
            "directive" => {
                if extend {
                    return self.err("cannot extend a directive");
                }
                self.bump();
                self.expect_punct("@")?;
                let name = self.name()?.s;
                let args = self.args_defn()?;
                let repeatable = if self.is_kw("repeatable") {
                    self.bump();
                    true
                } else {
                    false
                };
                self.expect_kw("on")?;
                self.eat_punct("|");
                let mut locations = vec![self.dir_location()?];
                while self.eat_punct("|") {
                    locations.push(self.dir_location()?);
                }
                Ok(SdlDef::Directive(DirectiveDefn { desc, name, args, repeatable, locations }))
            }
            "scalar" => {
                self.bump();
                td.kind = TKind::Scalar;
                td.name = self.name()?.s;
                td.directives = self.directives(true)?;
                if extend && td.directives.is_empty() {
                    return self.err("scalar extension needs directives");
                }
                Ok(SdlDef::Type(td))
            }
            "type" | "interface" => {
                self.bump();
                td.kind = if kw == "type" { TKind::Object } else { TKind::Interface };
                td.name = self.name()?.s;
                td.interfaces = self.implements()?;
                td.directives = self.directives(true)?;
                let had_brace = self.is_punct("{");
                td.fields = self.fields_defn()?;
                if extend && td.interfaces.is_empty() && td.directives.is_empty() && !had_brace {
                    return self.err("extension adds nothing");
                }
                Ok(SdlDef::Type(td))
            }
            "union" => {
                self.bump();
                td.kind = TKind::Union;
                td.name = self.name()?.s;
                td.directives = self.directives(true)?;
                let mut had = false;
                if self.eat_punct("=") {
                    had = true;
                    self.eat_punct("|");
                    td.members.push(self.name()?.s);
                    while self.eat_punct("|") {
                        td.members.push(self.name()?.s);
                    }
                }
                if extend && td.directives.is_empty() && !had {
                    return self.err("extension adds nothing");
                }
                Ok(SdlDef::Type(td))
            }
            "enum" => {
                self.bump();
                td.kind = TKind::Enum;
                td.name = self.name()?.s;
                td.directives = self.directives(true)?;
                let mut had = false;
                if self.eat_punct("{") {
                    had = true;
                    loop {
                        let desc = self.description();
                        let n = self.name()?;
                        if n.s == "true" || n.s == "false" || n.s == "null" {
                            return self.err("enum value must not be true/false/null");
                        }
                        let directives = self.directives(true)?;
                        td.values.push(EnumValDefn { desc, name: n.s, directives });
                        if self.eat_punct("}") {
                            break;
                        }
                    }
                }
                if extend && td.directives.is_empty() && !had {
                    return self.err("extension adds nothing");
                }
                Ok(SdlDef::Type(td))
            }
            "input" => {
                self.bump();
                td.kind = TKind::Input;
                td.name = self.name()?.s;
                td.directives = self.directives(true)?;
                let mut had = false;
                if self.eat_punct("{") {
                    had = true;
                    loop {
                        td.input_fields.push(self.input_defn()?);
                        if self.eat_punct("}") {
                            break;
                        }
                    }
                }
                if extend && td.directives.is_empty() && !had {
                    return self.err("extension adds nothing");
                }
                Ok(SdlDef::Type(td))
            }
            _ => self.err("expected type system definition"),
        }
    }
    fn dir_location(&mut self) -> R<String> {
        const LOCS: [&str; 19] = [
            "QUERY", "MUTATION", "SUBSCRIPTION", "FIELD", "FRAGMENT_DEFINITION", "FRAGMENT_SPREAD", "INLINE_FRAGMENT",
            "VARIABLE_DEFINITION", "SCHEMA", "SCALAR", "OBJECT", "FIELD_DEFINITION", "ARGUMENT_DEFINITION", "INTERFACE",
            "UNION", "ENUM", "ENUM_VALUE", "INPUT_OBJECT", "INPUT_FIELD_DEFINITION",
        ];
        let n = self.name()?;
        if LOCS.contains(&n.s.as_str()) {
            Ok(n.s)
        } else {
            Err(PErr { pos: n.pos, msg: format!("unknown directive location {}", n.s), dont_care: false })
        }
    }
}

/// Parse an executable document (ExecutableDocument: ExecutableDefinition+).
pub fn parse_executable(s: &str, opts: &Opts) -> Result<Doc, PErr> {
    let toks = lex(s, opts)?;
    let mut p = P { toks, i: 0, opts };
    let mut defs = vec![];
    loop {
        defs.push(p.executable_def()?);
        if *p.peek() == Tok::Eof {
            break;
        }
    }
    Ok(Doc { defs })
}

/// Parse a type-system document (TypeSystemDefinitionOrExtension+).
pub fn parse_type_system(s: &str, opts: &Opts) -> Result<SdlDoc, PErr> {
    let toks = lex(s, opts)?;
    let mut p = P { toks, i: 0, opts };
    let mut defs = vec![];
    loop {
        defs.push(p.type_system_def()?);
        if *p.peek() == Tok::Eof {
            break;
        }
    }
    let _ = p.peek2();
    Ok(SdlDoc { defs })
}

/// maximum selection-set nesting of a document (root selection set = 1)
pub fn sel_depth(d: &Doc) -> usize {
    fn go(s: &SelSet) -> usize {
        if s.items.is_empty() {
            return 0;
        }
        1 + s
            .items
            .iter()
            .map(|i| match i {
                Selection::Field(f) => go(&f.sel),
                Selection::Inline(i) => go(&i.sel),
                Selection::Spread(_) => 0,
            })
            .max()
            .unwrap_or(0)
    }
    d.defs
        .iter()
        .map(|d| match d {
            Def::Op(o) => go(&o.sel),
            Def::Frag(f) => go(&f.sel),
        })
        .max()
        .unwrap_or(0)
}
