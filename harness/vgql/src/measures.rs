//! Reference measures of an executable document, written from the statement of C10 and DESIGN Appendix B:
//! query depth, query complexity, selection nesting and directives per field, "with fragments counted as if
//! written inline". Also the number of selections of the document written out inline (C11's model of what a
//! walker costs that follows every fragment spread).
//!
//! `__typename` is a don't-care of C10 (whether it counts as a field is not specified): depth and complexity are
//! returned as an interval `lo ..= hi` (`lo` = it does not count, `hi` = it counts like any other field).
use crate::ast::*;
use crate::coerce::*;
use crate::sch::*;
use indexmap::IndexMap;

/// A custom complexity rule table: `(parent type, field name, coerced arguments, Σ children) -> Some(value)` when
/// the field declares its own rule.
pub type Rules<'a> = &'a dyn Fn(&str, &str, &IndexMap<String, CV>, u64) -> Option<u64>;

pub fn no_rules(_: &str, _: &str, _: &IndexMap<String, CV>, _: u64) -> Option<u64> {
    None
}

#[derive(Clone, Copy, Debug, PartialEq, Eq, Default)]
pub struct Interval {
    pub lo: u64,
    pub hi: u64,
}

#[derive(Clone, Debug, Default, PartialEq)]
pub struct Measures {
    pub depth: Interval,
    /// a deepest field lies inside a (named or inline) fragment
    pub depth_via_fragment: bool,
    /// ... inside a named fragment
    pub depth_via_named: bool,
    pub complexity: Interval,
    /// number of field nodes (inlined) whose value came from a declared rule
    pub custom_rules: u32,
    /// ... of those, inside a named fragment
    pub custom_rules_in_named: u32,
    /// ... of those, with an argument bound to a variable / taken from the argument default
    pub custom_rules_var_arg: u32,
    pub custom_rules_default_arg: u32,
    /// nesting of selection sets below the operation's own selection set (level 0); a field's selection set, an
    /// inline fragment and a fragment spread each open one level
    pub nesting: u64,
    pub nesting_via_named: bool,
    /// largest number of directives on one field
    pub field_directives: u64,
    pub field_directives_in_named: bool,
    pub has_typename: bool,
}

const MAX_FRAGMENT_STACK: usize = 200;

struct M<'a> {
    sch: &'a Sch,
    doc: &'a Doc,
    vars: &'a Vars,
    rules: Rules<'a>,
    count_typename: bool,
    stack: Vec<&'a str>,
    custom: u32,
    custom_named: u32,
    custom_var: u32,
    custom_default: u32,
    typename: bool,
}

impl<'a> M<'a> {
    /// (depth of the deepest field at or below this selection set, it lies in a fragment, in a named fragment)
    fn depth(&mut self, sel: &'a SelSet, d: u64, in_frag: bool, in_named: bool) -> (u64, bool, bool) {
        // flags: OR over all fields of the greatest depth
        let mut best = (0u64, false, false);
        let mut upd = |c: (u64, bool, bool)| {
            if c.0 > best.0 {
                best = c;
            } else if c.0 == best.0 {
                best.1 |= c.1;
                best.2 |= c.2;
            }
        };
        for it in &sel.items {
            match it {
                Selection::Field(f) => {
                    if f.name.s == "__typename" {
                        self.typename = true;
                        if !self.count_typename {
                            continue;
                        }
                    }
                    upd((d + 1, in_frag, in_named));
                    upd(self.depth(&f.sel, d + 1, in_frag, in_named));
                }
                Selection::Inline(i) => upd(self.depth(&i.sel, d, true, in_named)),
                Selection::Spread(sp) => {
                    if let Some(fr) = self.doc.frag(&sp.name.s) {
                        if self.stack.len() < MAX_FRAGMENT_STACK && !self.stack.contains(&fr.name.s.as_str()) {
                            self.stack.push(&fr.name.s);
                            let r = self.depth(&fr.sel, d, true, true);
                            self.stack.pop();
                            upd(r);
                        }
                    }
                }
            }
        }
        best
    }

    fn complexity(&mut self, sel: &'a SelSet, parent: &str, in_named: bool) -> Result<u64, CoErr> {
        let mut sum = 0u64;
        for it in &sel.items {
            match it {
                Selection::Field(f) => {
                    if f.name.s == "__typename" {
                        if self.count_typename {
                            sum = sum.saturating_add(1);
                        }
                        continue;
                    }
                    let fd = match self.sch.field(parent, &f.name.s) {
                        Some(fd) => fd,
                        None => return Err(CoErr { msg: format!("no field {}.{}", parent, f.name.s), dont_care: false }),
                    };
                    let children = self.complexity(&f.sel, fd.ty.base(), in_named)?;
                    let args = coerce_arguments(self.sch, fd, &f.args, self.vars)?;
                    match (self.rules)(parent, &f.name.s, &args, children) {
                        Some(v) => {
                            self.custom += 1;
                            if in_named {
                                self.custom_named += 1;
                            }
                            if f.args.iter().any(|(_, v)| matches!(v.v, Val::Var(_))) {
                                self.custom_var += 1;
                            }
                            if fd.args.iter().any(|a| a.default.is_some() && !f.args.iter().any(|(n, _)| n.s == a.name)) {
                                self.custom_default += 1;
                            }
                            sum = sum.saturating_add(v)
                        }
                        None => sum = sum.saturating_add(1).saturating_add(children),
                    }
                }
                Selection::Inline(i) => {
                    let p = i.cond.as_ref().map(|c| c.s.as_str()).unwrap_or(parent);
                    sum = sum.saturating_add(self.complexity(&i.sel, p, in_named)?);
                }
                Selection::Spread(sp) => {
                    if let Some(fr) = self.doc.frag(&sp.name.s) {
                        if self.stack.len() < MAX_FRAGMENT_STACK && !self.stack.contains(&fr.name.s.as_str()) {
                            self.stack.push(&fr.name.s);
                            let r = self.complexity(&fr.sel, &fr.cond.s, true);
                            self.stack.pop();
                            sum = sum.saturating_add(r?);
                        }
                    }
                }
            }
        }
        Ok(sum)
    }

    /// deepest selection-set level at or below `sel`, which is at level `level`
    fn nesting(&mut self, sel: &'a SelSet, level: u64, in_named: bool) -> (u64, bool) {
        let mut best = (level, in_named);
        let mut upd = |c: (u64, bool)| {
            if c.0 > best.0 {
                best = c;
            } else if c.0 == best.0 {
                best.1 |= c.1;
            }
        };
        for it in &sel.items {
            match it {
                Selection::Field(f) => {
                    if !f.sel.items.is_empty() {
                        upd(self.nesting(&f.sel, level + 1, in_named));
                    }
                }
                Selection::Inline(i) => upd(self.nesting(&i.sel, level + 1, in_named)),
                Selection::Spread(sp) => {
                    if let Some(fr) = self.doc.frag(&sp.name.s) {
                        if self.stack.len() < MAX_FRAGMENT_STACK && !self.stack.contains(&fr.name.s.as_str()) {
                            self.stack.push(&fr.name.s);
                            let r = self.nesting(&fr.sel, level + 1, true);
                            self.stack.pop();
                            upd(r);
                        }
                    }
                }
            }
        }
        best
    }

    fn directives(&mut self, sel: &'a SelSet, in_named: bool) -> (u64, bool) {
        let mut best = (0u64, false);
        let mut upd = |c: (u64, bool)| {
            if c.0 > best.0 {
                best = c;
            } else if c.0 == best.0 {
                best.1 |= c.1;
            }
        };
        for it in &sel.items {
            match it {
                Selection::Field(f) => {
                    upd((f.directives.len() as u64, in_named));
                    upd(self.directives(&f.sel, in_named));
                }
                Selection::Inline(i) => upd(self.directives(&i.sel, in_named)),
                Selection::Spread(sp) => {
                    if let Some(fr) = self.doc.frag(&sp.name.s) {
                        if self.stack.len() < MAX_FRAGMENT_STACK && !self.stack.contains(&fr.name.s.as_str()) {
                            self.stack.push(&fr.name.s);
                            let r = self.directives(&fr.sel, true);
                            self.stack.pop();
                            upd(r);
                        }
                    }
                }
            }
        }
        best
    }
}

/// The measures of one operation of `doc`. `vars` are the COERCED variable values of that operation
/// (`coerce_variables`). Err = the arguments of some field cannot be coerced (the complexity is then undefined).
pub fn measure(sch: &Sch, doc: &Doc, op: &OpDef, vars: &Vars, rules: Rules<'_>) -> Result<Measures, CoErr> {
    let root = match sch.root(op.kind) {
        Some(r) => r.to_string(),
        None => return Err(CoErr { msg: "no such root".into(), dont_care: false }),
    };
    let mut out = Measures::default();
    for count_typename in [false, true] {
        let mut m = M { sch, doc, vars, rules, count_typename, stack: vec![], custom: 0, custom_named: 0, custom_var: 0, custom_default: 0, typename: false };
        let (d, via_frag, via_named) = m.depth(&op.sel, 0, false, false);
        let c = m.complexity(&op.sel, &root, false)?;
        if count_typename {
            out.depth.hi = d.max(out.depth.lo);
            out.complexity.hi = c.max(out.complexity.lo);
            out.complexity.lo = c.min(out.complexity.lo);
        } else {
            out.depth.lo = d;
            out.depth_via_fragment = via_frag;
            out.depth_via_named = via_named;
            out.complexity.lo = c;
            out.custom_rules = m.custom;
            out.custom_rules_in_named = m.custom_named;
            out.custom_rules_var_arg = m.custom_var;
            out.custom_rules_default_arg = m.custom_default;
            out.has_typename = m.typename;
            let (n, nn) = m.nesting(&op.sel, 0, false);
            out.nesting = n;
            out.nesting_via_named = nn;
            let (k, kn) = m.directives(&op.sel, false);
            out.field_directives = k;
            out.field_directives_in_named = kn;
        }
    }
    Ok(out)
}

/// Number of selections met by a walker that starts at `sel` and follows every fragment spread as if the
/// fragment were written inline (saturating). This is exponential in the document size for fragment fan-out.
pub fn inlined_selections(doc: &Doc, sel: &SelSet) -> u64 {
    fn go<'a>(doc: &'a Doc, sel: &'a SelSet, memo: &mut IndexMap<&'a str, u64>, stack: &mut Vec<&'a str>) -> u64 {
        let mut n = 0u64;
        for it in &sel.items {
            n = n.saturating_add(1);
            match it {
                Selection::Field(f) => n = n.saturating_add(go(doc, &f.sel, memo, stack)),
                Selection::Inline(i) => n = n.saturating_add(go(doc, &i.sel, memo, stack)),
                Selection::Spread(sp) => {
                    if let Some(fr) = doc.frag(&sp.name.s) {
                        if let Some(v) = memo.get(fr.name.s.as_str()) {
                            n = n.saturating_add(*v);
                        } else if !stack.contains(&fr.name.s.as_str()) {
                            stack.push(&fr.name.s);
                            let v = go(doc, &fr.sel, memo, stack);
                            stack.pop();
                            memo.insert(&fr.name.s, v);
                            n = n.saturating_add(v);
                        }
                    }
                }
            }
        }
        n
    }
    go(doc, sel, &mut IndexMap::new(), &mut vec![])
}

/// Number of selections written in the document (every definition once).
pub fn written_selections(doc: &Doc) -> u64 {
    fn go(sel: &SelSet) -> u64 {
        sel.items
            .iter()
            .map(|it| {
                1 + match it {
                    Selection::Field(f) => go(&f.sel),
                    Selection::Inline(i) => go(&i.sel),
                    Selection::Spread(_) => 0,
                }
            })
            .sum()
    }
    doc.defs
        .iter()
        .map(|d| match d {
            Def::Op(o) => go(&o.sel),
            Def::Frag(f) => go(&f.sel),
        })
        .sum()
}
