//! BlockStringValue() of the GraphQL specification (October 2021, §2.9.4), written from the text.

/// `raw` is the text between the `"""` delimiters, escapes not yet processed.
pub fn block_string_value(raw: &str) -> String {
    let raw = raw.replace("\\\"\"\"", "\"\"\"");
    // split by LineTerminator: LF, CRLF, lone CR
    let mut lines: Vec<String> = vec![];
    let mut cur = String::new();
    let cs: Vec<char> = raw.chars().collect();
    let mut i = 0;
    while i < cs.len() {
        match cs[i] {
            '\r' => {
                lines.push(std::mem::take(&mut cur));
                if i + 1 < cs.len() && cs[i + 1] == '\n' {
                    i += 1;
                }
            }
            '\n' => lines.push(std::mem::take(&mut cur)),
            c => cur.push(c),
        }
        i += 1;
    }
    lines.push(cur);
    let is_ws = |c: char| c == ' ' || c == '\t';
    let mut common: Option<usize> = None;
    for l in lines.iter().skip(1) {
        let len = l.chars().count();
        let indent = l.chars().take_while(|c| is_ws(*c)).count();
        if indent < len && common.map_or(true, |c| indent < c) {
            common = Some(indent);
        }
    }
    if let Some(c) = common {
        for l in lines.iter_mut().skip(1) {
            *l = l.chars().skip(c).collect();
        }
    }
    while lines.first().map_or(false, |l| l.chars().all(is_ws)) {
        lines.remove(0);
    }
    while lines.last().map_or(false, |l| l.chars().all(is_ws)) {
        lines.pop();
    }
    lines.join("\n")
}

#[cfg(test)]
mod tests {
    use super::*;
    #[test]
    fn spec_example() {
        let raw = "\n    Hello,\n      World!\n\n    Yours,\n      GraphQL.\n  ";
        assert_eq!(block_string_value(raw), "Hello,\n  World!\n\nYours,\n  GraphQL.");
    }
}
