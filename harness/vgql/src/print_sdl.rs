//! Type-system document printing (same trivia machinery as executable documents).
use crate::ast::*;
use crate::print::*;
use crate::refparse::*;

impl<'a> Printer<'a> {
    fn description(&mut self, d: &Option<String>) {
        if let Some(d) = d {
            self.string(d);
            if self.st.src.is_none() {
                self.push_char('\n');
                self.last = Tk::Punct;
            }
        }
    }
    fn const_directives(&mut self, ds: &[Directive]) {
        let mut ds = ds.to_vec();
        self.directives(&mut ds);
    }
    fn input_defn(&mut self, i: &InputDefn) {
        self.description(&i.desc);
        self.word(&i.name);
        self.punct(":");
        self.space();
        let mut t = PTy { pos: Pos::default(), ty: i.ty.clone() };
        self.ty(&mut t);
        if let Some(dv) = &i.default {
            self.space();
            self.punct("=");
            self.space();
            let mut v = PVal::new(dv.clone());
            self.value(&mut v);
        }
        self.const_directives(&i.directives);
    }
    fn args_defn(&mut self, args: &[InputDefn]) {
        if args.is_empty() {
            return;
        }
        self.punct("(");
        for (i, a) in args.iter().enumerate() {
            if i > 0 && self.st.src.is_none() {
                self.push_str(", ");
                self.last = Tk::Punct;
            }
            self.input_defn(a);
        }
        self.punct(")");
    }
    pub fn sdl(&mut self, d: &SdlDoc) {
        for def in &d.defs {
            match def {
                SdlDef::Schema(s) => {
                    self.description(&s.desc);
                    if s.extend {
                        self.word("extend");
                    }
                    self.word("schema");
                    self.const_directives(&s.directives);
                    if !s.ops.is_empty() {
                        self.space();
                        self.punct("{");
                        for (k, n) in &s.ops {
                            self.space();
                            self.word(k.kw());
                            self.punct(":");
                            self.space();
                            self.word(n);
                        }
                        self.space();
                        self.punct("}");
                    }
                }
                SdlDef::Directive(dd) => {
                    self.description(&dd.desc);
                    self.word("directive");
                    self.punct("@");
                    self.word(&dd.name);
                    self.args_defn(&dd.args);
                    if dd.repeatable {
                        self.word("repeatable");
                    }
                    self.word("on");
                    let lead = self.chance(1, 4);
                    for (i, l) in dd.locations.iter().enumerate() {
                        if i > 0 || lead {
                            self.space();
                            self.punct("|");
                            self.space();
                        }
                        self.word(l);
                    }
                }
                SdlDef::Type(t) => {
                    self.description(&t.desc);
                    if t.extend {
                        self.word("extend");
                    }
                    self.word(match t.kind {
                        TKind::Scalar => "scalar",
                        TKind::Object => "type",
                        TKind::Interface => "interface",
                        TKind::Union => "union",
                        TKind::Enum => "enum",
                        TKind::Input => "input",
                    });
                    self.word(&t.name);
                    if !t.interfaces.is_empty() {
                        self.word("implements");
                        let lead = self.chance(1, 4);
                        for (i, n) in t.interfaces.iter().enumerate() {
                            if i > 0 || lead {
                                self.space();
                                self.punct("&");
                                self.space();
                            }
                            self.word(n);
                        }
                    }
                    self.const_directives(&t.directives);
                    if !t.fields.is_empty() {
                        self.space();
                        self.punct("{");
                        for f in &t.fields {
                            self.space();
                            self.description(&f.desc);
                            self.word(&f.name);
                            self.args_defn(&f.args);
                            self.punct(":");
                            self.space();
                            let mut ty = PTy { pos: Pos::default(), ty: f.ty.clone() };
                            self.ty(&mut ty);
                            self.const_directives(&f.directives);
                        }
                        self.space();
                        self.punct("}");
                    }
                    if !t.members.is_empty() {
                        self.space();
                        self.punct("=");
                        let lead = self.chance(1, 4);
                        for (i, n) in t.members.iter().enumerate() {
                            if i > 0 || lead {
                                self.space();
                                self.punct("|");
                            }
                            self.space();
                            self.word(n);
                        }
                    }
                    if !t.values.is_empty() {
                        self.space();
                        self.punct("{");
                        for v in &t.values {
                            self.space();
                            self.description(&v.desc);
                            self.word(&v.name);
                            self.const_directives(&v.directives);
                        }
                        self.space();
                        self.punct("}");
                    }
                    if !t.input_fields.is_empty() {
                        self.space();
                        self.punct("{");
                        for f in &t.input_fields {
                            self.space();
                            self.input_defn(f);
                        }
                        self.space();
                        self.punct("}");
                    }
                }
            }
            if self.st.src.is_none() {
                self.push_char('\n');
                self.last = Tk::Punct;
            }
        }
        if self.st.src.is_some() {
            self.gap(Tk::Punct);
        }
    }
}
