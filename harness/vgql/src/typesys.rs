//! Reference type-system validator over `Sch`, written from the October 2021 specification, §3 "Type System":
//! root operation types (§3.3.1), Objects / Interfaces / Unions / Input Objects "Type Validation" (§3.6, §3.7, §3.8,
//! §3.10) including `IsValidImplementation` and `IsValidImplementationFieldType`. It shares no code with
//! async-graphql. Only the rules that property C33 lists are implemented (see `RULES`); rules about names
//! (`__` prefix, uniqueness), enum values, oneOf fields and "an interface may not implement itself" are NOT checked —
//! callers keep those out of their domain.
//!
//! `TsQuirks` are the oracle switches of the known findings of C33: each one replaces exactly one rule by the
//! deviating behaviour that was observed in `async_graphql::dynamic`.
use crate::ast::Ty;
use crate::sch::*;

pub const RULES: [&str; 20] = [
    "root.query-missing",
    "root.query-not-object",
    "root.mutation-missing",
    "root.mutation-not-object",
    "root.subscription-missing",
    "root.subscription-not-object",
    "object.no-fields",
    "field.type-unknown",
    "field.type-not-output",
    "argument.type-unknown",
    "argument.type-not-input",
    "input-field.type-unknown",
    "input-field.type-not-input",
    "implements.unknown-type",
    "implements.not-an-interface",
    "implements.parent-interface-not-declared",
    "implements.field",
    "implements.argument",
    "union.member",
    "input-object.required-cycle",
];

#[derive(Clone, Copy, Debug, Default, PartialEq, Eq)]
pub struct TsQuirks {
    /// implementing field types: `T` is accepted where the interface says `T!`, `T!` is rejected where it says `T`
    pub nonnull_variance_reversed: bool,
    /// implementing field types: a named type is only compatible with the identical name (no object-for-interface,
    /// object-for-union, interface-for-interface)
    pub abstract_covariance_rejected: bool,
    /// an additional REQUIRED argument on the implementing field is accepted
    pub extra_required_argument_accepted: bool,
    /// a missing argument is accepted when the interface's argument type is nullable
    pub missing_nullable_argument_accepted: bool,
    /// argument types are compared with the (reversed, name-exact) sub-type relation instead of equality:
    /// interface `a: T` / implementation `a: T!` is accepted
    pub argument_type_subtype: bool,
    /// an interface's own `implements` list is not checked for unknown names
    pub interface_implements_unknown_accepted: bool,
    /// "type must also implement the interfaces of the implemented interface" is not checked
    pub parent_interface_declaration_unchecked: bool,
    /// a subscription root name that is not registered is accepted
    pub missing_subscription_root_accepted: bool,
    /// a union without members is accepted
    pub empty_union_accepted: bool,
    /// field and argument types of the subscription root are not checked for being output / input types
    pub subscription_fields_unchecked: bool,
}

#[derive(Clone, Debug, PartialEq)]
pub struct Violation {
    pub rule: &'static str,
    pub at: String,
}

fn v(out: &mut Vec<Violation>, rule: &'static str, at: String) {
    debug_assert!(RULES.contains(&rule));
    out.push(Violation { rule, at });
}

/// IsOutputType / IsInputType on the named (unwrapped) type
fn is_output(sch: &Sch, base: &str) -> bool {
    matches!(sch.kind(base), Some(Kind::Scalar) | Some(Kind::Object) | Some(Kind::Interface) | Some(Kind::Union) | Some(Kind::Enum))
}
fn is_input(sch: &Sch, base: &str) -> bool {
    matches!(sch.kind(base), Some(Kind::Scalar) | Some(Kind::Enum) | Some(Kind::Input))
}

/// named-type step of IsValidImplementationFieldType (steps 3–5)
fn named_compatible(sch: &Sch, field: &str, implemented: &str, q: &TsQuirks) -> bool {
    if field == implemented {
        return true;
    }
    if q.abstract_covariance_rejected {
        return false;
    }
    match (sch.kind(field), sch.kind(implemented)) {
        (Some(Kind::Object), Some(Kind::Union)) => sch.types[implemented].members.iter().any(|m| m == field),
        (Some(Kind::Object), Some(Kind::Interface)) | (Some(Kind::Interface), Some(Kind::Interface)) => sch.types[field].interfaces.iter().any(|i| i == implemented),
        _ => false,
    }
}

/// IsValidImplementationFieldType(fieldType, implementedFieldType)
pub fn valid_implementation_field_type(sch: &Sch, field: &Ty, implemented: &Ty, q: &TsQuirks) -> bool {
    if q.nonnull_variance_reversed {
        return match (field, implemented) {
            (Ty::NonNull(a), Ty::NonNull(b)) => valid_implementation_field_type(sch, a, b, q),
            (a, Ty::NonNull(b)) => valid_implementation_field_type(sch, a, b, q),
            (Ty::Named(a), Ty::Named(b)) => named_compatible(sch, a, b, q),
            (Ty::List(a), Ty::List(b)) => valid_implementation_field_type(sch, a, b, q),
            _ => false,
        };
    }
    // 1. If fieldType is a Non-Null type: unwrap it, unwrap implementedFieldType if it is Non-Null too, recurse
    if let Ty::NonNull(inner) = field {
        return valid_implementation_field_type(sch, inner, implemented.nullable(), q);
    }
    match (field, implemented) {
        // 2. both List types: item types
        (Ty::List(a), Ty::List(b)) => valid_implementation_field_type(sch, a, b, q),
        // 3.–5. same type, object in union, object/interface implementing interface
        (Ty::Named(a), Ty::Named(b)) => named_compatible(sch, a, b, q),
        // 6. otherwise false (this is where a nullable field meets a Non-Null implemented type)
        _ => false,
    }
}

/// the relation `async_graphql::dynamic::TypeRef::is_subtype` computes, for quirk `argument_type_subtype`
fn reversed_exact_subtype(cur: &Ty, sub: &Ty) -> bool {
    match (cur, sub) {
        (Ty::NonNull(a), Ty::NonNull(b)) => reversed_exact_subtype(a, b),
        (a, Ty::NonNull(b)) => reversed_exact_subtype(a, b),
        (Ty::Named(a), Ty::Named(b)) => a == b,
        (Ty::List(a), Ty::List(b)) => reversed_exact_subtype(a, b),
        _ => false,
    }
}

fn is_required(a: &ArgDef) -> bool {
    a.ty.is_nn() && a.default.is_none()
}

/// IsValidImplementation(type, implementedType)
fn valid_implementation(sch: &Sch, t: &TypeDef, it: &TypeDef, q: &TsQuirks, out: &mut Vec<Violation>) {
    // 1. the interfaces of the implemented interface must be declared too
    if !q.parent_interface_declaration_unchecked {
        for parent in &it.interfaces {
            if !t.interfaces.contains(parent) {
                v(out, "implements.parent-interface-not-declared", format!("{} implements {} but not its interface {}", t.name, it.name, parent));
            }
        }
    }
    // 2. every field of the implemented interface
    for ifield in &it.fields {
        let field = match t.field(&ifield.name) {
            Some(f) => f,
            None => {
                v(out, "implements.field", format!("{} lacks {}.{}", t.name, it.name, ifield.name));
                continue;
            }
        };
        // 2.a every argument of the implemented field, with the same type
        for iarg in &ifield.args {
            match field.arg(&iarg.name) {
                None => {
                    if !(q.missing_nullable_argument_accepted && !iarg.ty.is_nn()) {
                        v(out, "implements.argument", format!("{}.{} lacks argument {} of {}.{}", t.name, field.name, iarg.name, it.name, ifield.name));
                    }
                }
                Some(arg) => {
                    let same = if q.argument_type_subtype { reversed_exact_subtype(&iarg.ty, &arg.ty) } else { arg.ty == iarg.ty };
                    if !same {
                        v(out, "implements.argument", format!("{}.{}({}: {}) but {}.{}({}: {})", t.name, field.name, arg.name, arg.ty.show(), it.name, ifield.name, iarg.name, iarg.ty.show()));
                    }
                }
            }
        }
        // 2.b additional arguments must not be required
        if !q.extra_required_argument_accepted {
            for arg in &field.args {
                if ifield.arg(&arg.name).is_none() && is_required(arg) {
                    v(out, "implements.argument", format!("{}.{} has the additional required argument {}", t.name, field.name, arg.name));
                }
            }
        }
        // 2.c covariant return type
        if !valid_implementation_field_type(sch, &field.ty, &ifield.ty, q) {
            v(out, "implements.field", format!("{}.{}: {} is not a valid implementation of {}.{}: {}", t.name, field.name, field.ty.show(), it.name, ifield.name, ifield.ty.show()));
        }
    }
}

/// Is there a cycle of input objects linked by fields of type `T!` (non-null, not a list)? `defaults_break` treats a
/// field with a default value as not being part of a chain (the October 2021 text does not mention default values;
/// the definition of a *required* field does).
pub fn input_cycles(sch: &Sch, defaults_break: bool) -> Vec<String> {
    let edges = |t: &TypeDef| -> Vec<String> {
        t.input_fields
            .iter()
            .filter(|f| !(defaults_break && f.default.is_some()))
            .filter_map(|f| match &f.ty {
                Ty::NonNull(inner) => match &**inner {
                    Ty::Named(n) if sch.kind(n) == Some(Kind::Input) => Some(n.clone()),
                    _ => None,
                },
                _ => None,
            })
            .collect()
    };
    let mut bad = vec![];
    for start in sch.types.values().filter(|t| t.kind == Kind::Input) {
        // can `start` reach itself?
        let mut seen: Vec<String> = vec![];
        let mut stack = edges(start);
        let mut hit = false;
        while let Some(n) = stack.pop() {
            if n == start.name {
                hit = true;
                break;
            }
            if seen.contains(&n) {
                continue;
            }
            seen.push(n.clone());
            stack.extend(edges(&sch.types[&n]));
        }
        if hit {
            bad.push(start.name.clone());
        }
    }
    bad
}

fn check_fields(sch: &Sch, t: &TypeDef, out: &mut Vec<Violation>) {
    for f in &t.fields {
        match sch.kind(f.ty.base()) {
            None => v(out, "field.type-unknown", format!("{}.{}: {}", t.name, f.name, f.ty.show())),
            Some(_) if !is_output(sch, f.ty.base()) => v(out, "field.type-not-output", format!("{}.{}: {}", t.name, f.name, f.ty.show())),
            _ => {}
        }
        for a in &f.args {
            match sch.kind(a.ty.base()) {
                None => v(out, "argument.type-unknown", format!("{}.{}({}: {})", t.name, f.name, a.name, a.ty.show())),
                Some(_) if !is_input(sch, a.ty.base()) => v(out, "argument.type-not-input", format!("{}.{}({}: {})", t.name, f.name, a.name, a.ty.show())),
                _ => {}
            }
        }
    }
}

fn check_implements(sch: &Sch, t: &TypeDef, q: &TsQuirks, out: &mut Vec<Violation>) {
    for i in &t.interfaces {
        match sch.types.get(i) {
            None => {
                if !(q.interface_implements_unknown_accepted && t.kind == Kind::Interface) {
                    v(out, "implements.unknown-type", format!("{} implements {}", t.name, i))
                }
            }
            Some(it) if it.kind != Kind::Interface => v(out, "implements.not-an-interface", format!("{} implements {} {}", t.name, kind_word(it.kind), i)),
            Some(it) => valid_implementation(sch, t, it, q, out),
        }
    }
}

pub fn kind_word(k: Kind) -> &'static str {
    match k {
        Kind::Scalar => "scalar",
        Kind::Object => "object",
        Kind::Interface => "interface",
        Kind::Union => "union",
        Kind::Enum => "enum",
        Kind::Input => "input object",
    }
}

/// All violations of the implemented rules (empty = the type system is valid as far as C33's rules go).
pub fn validate(sch: &Sch, q: &TsQuirks) -> Vec<Violation> {
    let mut out = vec![];
    // root operation types: query must be provided and be an Object type; mutation / subscription, if given, too
    let roots: [(&str, Option<&str>, &'static str, &'static str); 3] = [
        ("query", Some(sch.query.as_str()), "root.query-missing", "root.query-not-object"),
        ("mutation", sch.mutation.as_deref(), "root.mutation-missing", "root.mutation-not-object"),
        ("subscription", sch.subscription.as_deref(), "root.subscription-missing", "root.subscription-not-object"),
    ];
    for (what, name, missing, not_object) in roots {
        if let Some(n) = name {
            match sch.types.get(n) {
                None => {
                    if !(q.missing_subscription_root_accepted && what == "subscription") {
                        v(&mut out, missing, format!("{} root {} is not defined", what, n))
                    }
                }
                Some(t) if t.kind != Kind::Object => v(&mut out, not_object, format!("{} root {} is {}", what, n, kind_word(t.kind))),
                _ => {}
            }
        }
    }
    for t in sch.types.values() {
        match t.kind {
            Kind::Object => {
                if t.fields.is_empty() {
                    v(&mut out, "object.no-fields", t.name.clone());
                }
                if !(q.subscription_fields_unchecked && sch.subscription.as_deref() == Some(t.name.as_str())) {
                    check_fields(sch, t, &mut out);
                }
                check_implements(sch, t, q, &mut out);
            }
            Kind::Interface => {
                check_fields(sch, t, &mut out);
                check_implements(sch, t, q, &mut out);
            }
            Kind::Union => {
                if t.members.is_empty() && !q.empty_union_accepted {
                    v(&mut out, "union.member", format!("{} has no members", t.name));
                }
                for m in &t.members {
                    match sch.types.get(m) {
                        Some(mt) if mt.kind == Kind::Object => {}
                        Some(mt) => v(&mut out, "union.member", format!("{} includes {} {}", t.name, kind_word(mt.kind), m)),
                        None => v(&mut out, "union.member", format!("{} includes undefined {}", t.name, m)),
                    }
                }
            }
            Kind::Input => {
                for f in &t.input_fields {
                    match sch.kind(f.ty.base()) {
                        None => v(&mut out, "input-field.type-unknown", format!("{}.{}: {}", t.name, f.name, f.ty.show())),
                        Some(_) if !is_input(sch, f.ty.base()) => v(&mut out, "input-field.type-not-input", format!("{}.{}: {}", t.name, f.name, f.ty.show())),
                        _ => {}
                    }
                }
            }
            Kind::Scalar | Kind::Enum => {}
        }
    }
    for n in input_cycles(sch, false) {
        v(&mut out, "input-object.required-cycle", n);
    }
    out
}
