//! Grammar-directed generators of arbitrary (not schema-directed) executable and type-system documents.
use crate::ast::*;
use crate::refparse::*;
use vcore::gens::{gen_name, gen_string};
use vcore::Src;

const TRICKY: [&str; 22] = [
    "a", "b", "on", "query", "fragment", "true", "false", "null", "mutation", "subscription", "type", "input", "extend", "schema",
    "implements", "enum", "E1", "_", "__typename", "a1", "onX", "queryX",
];

pub struct GenCfg {
    pub max_depth: usize,
    pub max_width: usize,
    /// allow `$v: T = dv @dir` (default value followed by directives)
    pub default_then_directive: bool,
    /// allow list literals whose elements could merge under a lexer without lookahead (`[0 1]`)
    pub tricky_names: bool,
}
impl Default for GenCfg {
    fn default() -> Self {
        GenCfg { max_depth: 4, max_width: 4, default_then_directive: true, tricky_names: true }
    }
}

fn name(s: &mut dyn Src, cfg: &GenCfg) -> String {
    if cfg.tricky_names && s.chance(1, 3) {
        TRICKY[s.choose(TRICKY.len())].to_string()
    } else {
        gen_name(s, 6)
    }
}
fn enum_name(s: &mut dyn Src, cfg: &GenCfg) -> String {
    loop {
        let n = name(s, cfg);
        if n != "true" && n != "false" && n != "null" {
            return n;
        }
    }
}
fn frag_name(s: &mut dyn Src, cfg: &GenCfg) -> String {
    loop {
        let n = name(s, cfg);
        if n != "on" {
            return n;
        }
    }
}

pub fn gen_int_text(s: &mut dyn Src) -> String {
    match s.choose(5) {
        0 => "0".into(),
        1 => s.range(1, 9).to_string(),
        2 => s.range(-1000, 1000).to_string(),
        3 => vcore::gens::gen_i64(s).to_string(),
        _ => (s.u64()).to_string(),
    }
}
pub fn gen_float_text(s: &mut dyn Src) -> String {
    let int = match s.choose(4) {
        0 => "0".to_string(),
        1 => "-0".to_string(),
        _ => s.range(-99999, 99999).to_string(),
    };
    let frac = |s: &mut dyn Src| {
        let n = 1 + s.choose(6);
        let mut t = String::from(".");
        for _ in 0..n {
            t.push((b'0' + s.choose(10) as u8) as char);
        }
        t
    };
    let exp = |s: &mut dyn Src| {
        let e = if s.bool() { "e" } else { "E" };
        let sign = match s.choose(3) {
            0 => "",
            1 => "+",
            _ => "-",
        };
        format!("{}{}{}", e, sign, s.choose(300))
    };
    match s.choose(3) {
        0 => format!("{}{}", int, frac(s)),
        1 => format!("{}{}", int, exp(s)),
        _ => format!("{}{}{}", int, frac(s), exp(s)),
    }
}

pub fn gen_val(s: &mut dyn Src, cfg: &GenCfg, depth: usize, is_const: bool) -> Val {
    let k = if depth == 0 { s.choose(7) } else { s.choose(9) };
    match k {
        0 => Val::Int(gen_int_text(s)),
        1 => {
            if s.bool() {
                Val::Str(gen_string(s, 10))
            } else {
                // block-string friendly text: lines, indentation, quotes, backslashes
                let n = s.choose(14);
                Val::Str((0..n).map(|_| *vcore::gens::pick(s, &['a', 'b', ' ', ' ', '\n', '\n', '\t', '"', '\\', 'é', '😀', 'x'])).collect())
            }
        }
        2 => Val::Enum(enum_name(s, cfg)),
        3 => {
            if is_const {
                Val::Null
            } else {
                Val::Var(name(s, cfg))
            }
        }
        4 => Val::Bool(s.bool()),
        5 => Val::Null,
        6 => Val::Float(gen_float_text(s)),
        7 => {
            let n = s.choose(4);
            Val::List((0..n).map(|_| PVal::new(gen_val(s, cfg, depth - 1, is_const))).collect())
        }
        _ => {
            let n = s.choose(4);
            // unique keys: a tree that keeps object fields in a map cannot represent duplicates (uniqueness is a
            // validation rule, C09's subject)
            let mut fields: Vec<(Name, PVal)> = vec![];
            for _ in 0..n {
                let k = name(s, cfg);
                if fields.iter().all(|(n, _)| n.s != k) {
                    fields.push((Name::new(k), PVal::new(gen_val(s, cfg, depth - 1, is_const))));
                }
            }
            Val::Obj(fields)
        }
    }
}

pub fn gen_ty(s: &mut dyn Src, cfg: &GenCfg, depth: usize) -> Ty {
    let base = if depth > 0 && s.chance(1, 3) { Ty::list(gen_ty(s, cfg, depth - 1)) } else { Ty::Named(name(s, cfg)) };
    if s.chance(1, 3) {
        Ty::nn(base)
    } else {
        base
    }
}

fn gen_args(s: &mut dyn Src, cfg: &GenCfg, is_const: bool) -> Vec<(Name, PVal)> {
    if !s.chance(1, 3) {
        return vec![];
    }
    let n = 1 + s.choose(3);
    (0..n).map(|_| (Name::new(name(s, cfg)), PVal::new(gen_val(s, cfg, 2, is_const)))).collect()
}
pub fn gen_directives(s: &mut dyn Src, cfg: &GenCfg, is_const: bool) -> Vec<Directive> {
    if !s.chance(1, 4) {
        return vec![];
    }
    let n = 1 + s.choose(2);
    (0..n).map(|_| Directive { pos: Pos::default(), name: Name::new(name(s, cfg)), args: gen_args(s, cfg, is_const) }).collect()
}

fn gen_selset(s: &mut dyn Src, cfg: &GenCfg, depth: usize) -> SelSet {
    let n = 1 + s.choose(cfg.max_width);
    let mut items = vec![];
    for _ in 0..n {
        let k = s.weighted(&[6, 2, 2]);
        match k {
            0 => {
                let mut f = Field::new(&name(s, cfg));
                if s.chance(1, 4) {
                    f.alias = Some(Name::new(name(s, cfg)));
                }
                f.args = gen_args(s, cfg, false);
                f.directives = gen_directives(s, cfg, false);
                if depth > 1 && s.chance(1, 2) {
                    f.sel = gen_selset(s, cfg, depth - 1);
                }
                items.push(Selection::Field(f));
            }
            1 if depth > 1 => {
                items.push(Selection::Inline(Inline {
                    pos: Pos::default(),
                    cond: if s.bool() { Some(Name::new(name(s, cfg))) } else { None },
                    cond_pos: Pos::default(),
                    directives: gen_directives(s, cfg, false),
                    sel: gen_selset(s, cfg, depth - 1),
                }));
            }
            _ => {
                items.push(Selection::Spread(Spread { pos: Pos::default(), name: Name::new(frag_name(s, cfg)), directives: gen_directives(s, cfg, false) }));
            }
        }
    }
    SelSet::new(items)
}

/// An arbitrary grammatical executable document with unique operation and fragment names (async-graphql
/// keeps definitions in maps; documents with duplicates are outside the compared domain).
pub fn gen_exec_doc(s: &mut dyn Src, cfg: &GenCfg) -> Doc {
    let mut defs = vec![];
    let nops = 1 + s.weighted(&[6, 2, 1]);
    let nfrags = s.weighted(&[4, 3, 2, 1]);
    let mut used = std::collections::HashSet::new();
    for i in 0..nops {
        let shorthand = nops == 1 && s.chance(1, 3);
        if shorthand {
            defs.push(Def::Op(OpDef {
                pos: Pos::default(),
                explicit: false,
                kind: OpKind::Query,
                name: None,
                vars: vec![],
                directives: vec![],
                sel: gen_selset(s, cfg, cfg.max_depth),
            }));
            continue;
        }
        let kind = *vcore::gens::pick(s, &[OpKind::Query, OpKind::Mutation, OpKind::Subscription]);
        let nm = if nops > 1 || s.bool() {
            let mut n = name(s, cfg);
            while !used.insert(n.clone()) {
                n = format!("{}{}", n, i);
            }
            Some(Name::new(n))
        } else {
            None
        };
        let nvars = if s.chance(1, 2) { 1 + s.choose(3) } else { 0 };
        let vars = (0..nvars)
            .map(|_| {
                let default = if s.chance(1, 2) { Some(PVal::new(gen_val(s, cfg, 2, true))) } else { None };
                let directives = if default.is_some() && !cfg.default_then_directive { vec![] } else { gen_directives(s, cfg, true) };
                VarDef { pos: Pos::default(), name: Name::new(name(s, cfg)), ty: PTy { pos: Pos::default(), ty: gen_ty(s, cfg, 2) }, default, directives }
            })
            .collect();
        defs.push(Def::Op(OpDef {
            pos: Pos::default(),
            explicit: true,
            kind,
            name: nm,
            vars,
            directives: gen_directives(s, cfg, false),
            sel: gen_selset(s, cfg, cfg.max_depth),
        }));
    }
    let mut fused = std::collections::HashSet::new();
    for i in 0..nfrags {
        let mut n = frag_name(s, cfg);
        while !fused.insert(n.clone()) {
            n = format!("{}{}", n, i);
        }
        defs.push(Def::Frag(FragDef {
            pos: Pos::default(),
            name: Name::new(n),
            cond: Name::new(name(s, cfg)),
            cond_pos: Pos::default(),
            directives: gen_directives(s, cfg, false),
            sel: gen_selset(s, cfg, cfg.max_depth.min(3)),
        }));
    }
    // shuffle definition order a little (rotation)
    if defs.len() > 1 {
        let r = s.choose(defs.len());
        defs.rotate_left(r);
    }
    Doc { defs }
}

// ---------------------------------------------------------------- type-system documents

fn desc(s: &mut dyn Src) -> Option<String> {
    if s.chance(1, 3) {
        if s.bool() {
            Some(gen_string(s, 12))
        } else {
            let n = s.choose(14);
            Some((0..n).map(|_| *vcore::gens::pick(s, &['a', 'b', ' ', ' ', '\n', '\n', '\t', '"', '\\', 'é', '😀', 'x'])).collect())
        }
    } else {
        None
    }
}
fn gen_input_defn(s: &mut dyn Src, cfg: &GenCfg) -> InputDefn {
    InputDefn {
        desc: desc(s),
        name: name(s, cfg),
        ty: gen_ty(s, cfg, 2),
        default: if s.chance(1, 3) { Some(gen_val(s, cfg, 2, true)) } else { None },
        directives: gen_directives(s, cfg, true),
    }
}
fn gen_fields(s: &mut dyn Src, cfg: &GenCfg) -> Vec<FieldDefn> {
    let n = 1 + s.choose(3);
    (0..n)
        .map(|_| FieldDefn {
            desc: desc(s),
            name: name(s, cfg),
            args: if s.chance(1, 3) { (0..1 + s.choose(2)).map(|_| gen_input_defn(s, cfg)).collect() } else { vec![] },
            ty: gen_ty(s, cfg, 2),
            directives: gen_directives(s, cfg, true),
        })
        .collect()
}

pub const DIR_LOCS: [&str; 19] = [
    "QUERY", "MUTATION", "SUBSCRIPTION", "FIELD", "FRAGMENT_DEFINITION", "FRAGMENT_SPREAD", "INLINE_FRAGMENT", "VARIABLE_DEFINITION",
    "SCHEMA", "SCALAR", "OBJECT", "FIELD_DEFINITION", "ARGUMENT_DEFINITION", "INTERFACE", "UNION", "ENUM", "ENUM_VALUE", "INPUT_OBJECT",
    "INPUT_FIELD_DEFINITION",
];

pub fn gen_sdl_doc(s: &mut dyn Src, cfg: &GenCfg, allow_extend: bool) -> SdlDoc {
    let n = 1 + s.choose(5);
    let mut defs = vec![];
    for _ in 0..n {
        let extend = allow_extend && s.chance(1, 5);
        let k = s.choose(8);
        let d = if extend { None } else { desc(s) };
        let mut td = TypeDefn {
            extend,
            desc: d.clone(),
            kind: TKind::Scalar,
            name: name(s, cfg),
            interfaces: vec![],
            directives: gen_directives(s, cfg, true),
            fields: vec![],
            members: vec![],
            values: vec![],
            input_fields: vec![],
        };
        match k {
            0 => {
                let mut ops = vec![];
                let nk = 1 + s.choose(3);
                for (i, kd) in [OpKind::Query, OpKind::Mutation, OpKind::Subscription].iter().enumerate() {
                    if i < nk {
                        ops.push((*kd, name(s, cfg)));
                    }
                }
                let directives = gen_directives(s, cfg, true);
                if extend && s.bool() && !directives.is_empty() {
                    ops.clear();
                }
                defs.push(SdlDef::Schema(SchemaDefn { extend, desc: d, directives, ops }));
                continue;
            }
            1 => {
                if extend {
                    // directives cannot be extended: make it a scalar extension instead
                    if td.directives.is_empty() {
                        td.directives = vec![Directive::new("d", vec![])];
                    }
                    defs.push(SdlDef::Type(td));
                    continue;
                }
                let nl = 1 + s.choose(3);
                defs.push(SdlDef::Directive(DirectiveDefn {
                    desc: d,
                    name: name(s, cfg),
                    args: if s.bool() { (0..1 + s.choose(2)).map(|_| gen_input_defn(s, cfg)).collect() } else { vec![] },
                    repeatable: s.bool(),
                    locations: (0..nl).map(|_| DIR_LOCS[s.choose(DIR_LOCS.len())].to_string()).collect(),
                }));
                continue;
            }
            2 => {
                td.kind = TKind::Scalar;
                if extend && td.directives.is_empty() {
                    td.directives = vec![Directive::new("d", vec![])];
                }
            }
            3 | 4 => {
                td.kind = if k == 3 { TKind::Object } else { TKind::Interface };
                if s.chance(1, 3) {
                    td.interfaces = (0..1 + s.choose(2)).map(|_| name(s, cfg)).collect();
                }
                // definitions may omit the field block; extensions must add something
                if !(s.chance(1, 5) && (!extend || !td.directives.is_empty() || !td.interfaces.is_empty())) {
                    td.fields = gen_fields(s, cfg);
                }
            }
            5 => {
                td.kind = TKind::Union;
                if !(s.chance(1, 5) && (!extend || !td.directives.is_empty())) {
                    td.members = (0..1 + s.choose(3)).map(|_| name(s, cfg)).collect();
                }
            }
            6 => {
                td.kind = TKind::Enum;
                if !(s.chance(1, 5) && (!extend || !td.directives.is_empty())) {
                    td.values = (0..1 + s.choose(3))
                        .map(|_| EnumValDefn { desc: desc(s), name: enum_name(s, cfg), directives: gen_directives(s, cfg, true) })
                        .collect();
                }
            }
            _ => {
                td.kind = TKind::Input;
                if !(s.chance(1, 5) && (!extend || !td.directives.is_empty())) {
                    td.input_fields = (0..1 + s.choose(3)).map(|_| gen_input_defn(s, cfg)).collect();
                }
            }
        }
        defs.push(SdlDef::Type(td));
    }
    SdlDoc { defs }
}
