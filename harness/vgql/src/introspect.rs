//! Client side of introspection, written from the specification (§4 "Introspection"): the standard introspection
//! query, the construction of a `Sch` from its JSON response together with the self-consistency conditions, and a
//! structural comparison of two `Sch` values (order-insensitive, default values by denotation).
use crate::ast::*;
use crate::refparse::{parse_executable, Opts};
use crate::sch::*;
use indexmap::IndexMap;
use serde_json::Value as J;

/// The query GraphiQL / graphql-js `getIntrospectionQuery({ oneOf: true })` sends (TypeRef nests 7 `ofType`s).
pub const INTROSPECTION_QUERY: &str = "query IntrospectionQuery { __schema { queryType { name } mutationType { name } subscriptionType { name } \
types { ...FullType } directives { name description locations args { ...InputValue } } } } \
fragment FullType on __Type { kind name description isOneOf \
fields(includeDeprecated: true) { name description args { ...InputValue } type { ...TypeRef } isDeprecated deprecationReason } \
inputFields { ...InputValue } interfaces { ...TypeRef } \
enumValues(includeDeprecated: true) { name description isDeprecated deprecationReason } possibleTypes { ...TypeRef } } \
fragment InputValue on __InputValue { name description type { ...TypeRef } defaultValue } \
fragment TypeRef on __Type { kind name ofType { kind name ofType { kind name ofType { kind name ofType { kind name ofType { kind name \
ofType { kind name ofType { kind name } } } } } } } }";

/// The same query with `includeDeprecated: true` on the lists of input values (graphql-js
/// `getIntrospectionQuery({ inputValueDeprecation: true })`).
pub fn introspection_query_with_deprecated_inputs() -> String {
    INTROSPECTION_QUERY
        .replace("description args { ...InputValue } type { ...TypeRef } isDeprecated", "description args(includeDeprecated: true) { ...InputValue } type { ...TypeRef } isDeprecated")
        .replace("inputFields { ...InputValue }", "inputFields(includeDeprecated: true) { ...InputValue }")
}

#[derive(Clone, Debug, PartialEq)]
pub enum Issue {
    /// the response does not have the shape the introspection schema prescribes
    Shape { at: String, why: String },
    /// LIST / NON_NULL chain malformed
    Wrapper { at: String, why: String },
    /// a named type is referenced but not an element of `__schema.types`
    Unlisted { at: String, name: String },
    /// a reference states another kind than the listed type has
    KindDisagrees { at: String, name: String, referenced_as: String, listed_as: String },
    /// `interfaces` of an OBJECT or INTERFACE type is not a list
    InterfacesNotAList { ty: String, kind: Kind },
    /// `possibleTypes` of an abstract type is not exactly its implementing objects / members
    PossibleTypes { ty: String, reported: Vec<String>, expected: Vec<String> },
    /// a non-object among the possible types / a non-interface among the interfaces
    WrongKindMember { ty: String, list: &'static str, member: String, kind: String },
    Duplicate { at: String, name: String },
}
impl Issue {
    pub fn show(&self) -> String {
        match self {
            Issue::Shape { at, why } => format!("{}: {}", at, why),
            Issue::Wrapper { at, why } => format!("{}: malformed type reference: {}", at, why),
            Issue::Unlisted { at, name } => format!("{}: type {} is referenced but not listed in __schema.types", at, name),
            Issue::KindDisagrees { at, name, referenced_as, listed_as } => format!("{}: {} referenced as {} but listed as {}", at, name, referenced_as, listed_as),
            Issue::InterfacesNotAList { ty, kind } => format!("{}: `interfaces` of this {:?} type is not a list", ty, kind),
            Issue::PossibleTypes { ty, reported, expected } => format!("{}: possibleTypes {:?}, but the listed types that implement / belong to it are {:?}", ty, reported, expected),
            Issue::WrongKindMember { ty, list, member, kind } => format!("{}: {} contains {} of kind {}", ty, list, member, kind),
            Issue::Duplicate { at, name } => format!("{}: {} occurs twice", at, name),
        }
    }
}

#[derive(Clone, Debug, PartialEq)]
pub struct DirectiveInfo {
    pub name: String,
    pub locations: Vec<String>,
    pub args: Vec<ArgDef>,
}

#[derive(Clone, Debug, Default)]
pub struct Introspected {
    /// the client schema: every listed type except the five built-in scalars and the `__` introspection types
    pub sch: Sch,
    /// all names of `__schema.types`, in response order
    pub listed: Vec<String>,
    /// `possibleTypes` as reported, per interface / union
    pub possible: IndexMap<String, Vec<String>>,
    pub directives: Vec<DirectiveInfo>,
    pub issues: Vec<Issue>,
}

fn kind_of(s: &str) -> Option<Kind> {
    Some(match s {
        "SCALAR" => Kind::Scalar,
        "OBJECT" => Kind::Object,
        "INTERFACE" => Kind::Interface,
        "UNION" => Kind::Union,
        "ENUM" => Kind::Enum,
        "INPUT_OBJECT" => Kind::Input,
        _ => return None,
    })
}

struct B<'a> {
    kinds: IndexMap<String, &'a str>,
    issues: Vec<Issue>,
}

impl<'a> B<'a> {
    fn shape(&mut self, at: &str, why: impl Into<String>) {
        self.issues.push(Issue::Shape { at: at.to_string(), why: why.into() });
    }
    /// a `...TypeRef` value -> the denoted type
    fn type_ref(&mut self, j: &J, at: &str) -> Option<Ty> {
        let kind = match j.get("kind").and_then(J::as_str) {
            Some(k) => k,
            None => {
                self.issues.push(Issue::Wrapper { at: at.into(), why: format!("no kind in {}", j) });
                return None;
            }
        };
        let name = j.get("name").filter(|n| !n.is_null());
        let of = j.get("ofType").filter(|n| !n.is_null());
        match kind {
            "NON_NULL" | "LIST" => {
                if name.is_some() {
                    self.issues.push(Issue::Wrapper { at: at.into(), why: format!("{} with a name", kind) });
                }
                let inner = match of {
                    Some(o) => o,
                    None => {
                        self.issues.push(Issue::Wrapper { at: at.into(), why: format!("{} without ofType", kind) });
                        return None;
                    }
                };
                if kind == "NON_NULL" && inner.get("kind").and_then(J::as_str) == Some("NON_NULL") {
                    self.issues.push(Issue::Wrapper { at: at.into(), why: "NON_NULL directly wraps NON_NULL".into() });
                }
                let t = self.type_ref(inner, at)?;
                Some(if kind == "LIST" { Ty::list(t) } else { Ty::nn(t) })
            }
            _ => {
                let n = match name.and_then(J::as_str) {
                    Some(n) => n,
                    None => {
                        self.issues.push(Issue::Wrapper { at: at.into(), why: format!("{} without a name", kind) });
                        return None;
                    }
                };
                if of.is_some() {
                    self.issues.push(Issue::Wrapper { at: at.into(), why: format!("named type {} with ofType", n) });
                }
                if kind_of(kind).is_none() {
                    self.issues.push(Issue::Wrapper { at: at.into(), why: format!("unknown kind {}", kind) });
                }
                match self.kinds.get(n) {
                    None => self.issues.push(Issue::Unlisted { at: at.into(), name: n.into() }),
                    Some(k) if *k != kind => self.issues.push(Issue::KindDisagrees { at: at.into(), name: n.into(), referenced_as: kind.into(), listed_as: k.to_string() }),
                    _ => {}
                }
                Some(Ty::named(n))
            }
        }
    }
    fn named_refs(&mut self, j: &J, at: &str) -> Vec<String> {
        let mut out = vec![];
        for x in j.as_array().cloned().unwrap_or_default() {
            match self.type_ref(&x, at) {
                Some(Ty::Named(n)) => {
                    if out.contains(&n) {
                        self.issues.push(Issue::Duplicate { at: at.into(), name: n.clone() });
                    }
                    out.push(n)
                }
                Some(t) => self.issues.push(Issue::Wrapper { at: at.into(), why: format!("wrapping type {} where a named type is required", t.show()) }),
                None => {}
            }
        }
        out
    }
    fn opt_str(&mut self, j: &J, key: &str, at: &str) -> Option<String> {
        match j.get(key) {
            None | Some(J::Null) => None,
            Some(J::String(s)) => Some(s.clone()),
            Some(o) => {
                self.shape(at, format!("{} is not a string: {}", key, o));
                None
            }
        }
    }
    fn name(&mut self, j: &J, at: &str) -> String {
        match j.get("name").and_then(J::as_str) {
            Some(s) => s.to_string(),
            None => {
                self.shape(at, format!("element without name: {}", j));
                String::new()
            }
        }
    }
    fn deprecation(&mut self, j: &J, at: &str) -> Option<Option<String>> {
        let reason = self.opt_str(j, "deprecationReason", at);
        match j.get("isDeprecated") {
            Some(J::Bool(true)) => Some(reason),
            Some(J::Bool(false)) => {
                if reason.is_some() {
                    self.shape(at, "deprecationReason on an element that is not deprecated");
                }
                None
            }
            _ => {
                self.shape(at, "isDeprecated is not a boolean");
                None
            }
        }
    }
    fn input_values(&mut self, j: Option<&J>, at: &str) -> Vec<ArgDef> {
        let mut out: Vec<ArgDef> = vec![];
        let arr = match j.and_then(J::as_array) {
            Some(a) => a.clone(),
            None => {
                self.shape(at, "list of input values expected");
                return out;
            }
        };
        for a in arr {
            let name = self.name(&a, at);
            let here = format!("{}.{}", at, name);
            if out.iter().any(|x| x.name == name) {
                self.issues.push(Issue::Duplicate { at: at.into(), name: name.clone() });
            }
            let ty = match a.get("type").and_then(|t| self.type_ref(t, &here)) {
                Some(t) => t,
                None => continue,
            };
            let default = match self.opt_str(&a, "defaultValue", &here) {
                None => None,
                Some(text) => match parse_value_literal(&text) {
                    Some(v) => Some(v),
                    None => {
                        self.shape(&here, format!("defaultValue is not a GraphQL value literal: {}", text));
                        None
                    }
                },
            };
            let desc = self.opt_str(&a, "description", &here);
            out.push(ArgDef { name, ty, default, desc, deprecated: None });
        }
        out
    }
}

/// a constant value in GraphQL syntax (what `defaultValue` carries)
pub fn parse_value_literal(text: &str) -> Option<Val> {
    let doc = parse_executable(&format!("{{f(a: {}\n)}}", text), &Opts::default()).ok()?;
    let op = doc.ops().next()?;
    match op.sel.items.first()? {
        Selection::Field(f) if f.args.len() == 1 => {
            let mut v = f.args[0].1.clone();
            strip_val(&mut v);
            Some(v.v)
        }
        _ => None,
    }
}

fn is_system(n: &str) -> bool {
    n.starts_with("__") || BUILTIN_SCALARS.contains(&n)
}

/// `resp` is the `data` of the response to `INTROSPECTION_QUERY`.
pub fn introspection_to_sch(data: &J) -> Introspected {
    let mut out = Introspected::default();
    let schema = match data.get("__schema") {
        Some(s) if s.is_object() => s,
        _ => {
            out.issues.push(Issue::Shape { at: "data".into(), why: "no __schema object".into() });
            return out;
        }
    };
    let empty = vec![];
    let types = schema.get("types").and_then(J::as_array).unwrap_or(&empty);
    let mut b = B { kinds: IndexMap::new(), issues: vec![] };
    if types.is_empty() {
        b.shape("__schema.types", "not a non-empty list");
    }
    for t in types {
        let n = b.name(t, "__schema.types");
        let k = t.get("kind").and_then(J::as_str).unwrap_or("");
        if kind_of(k).is_none() {
            b.shape(&n, format!("listed with kind {:?}", k));
        }
        if b.kinds.insert(n.clone(), k).is_some() {
            b.issues.push(Issue::Duplicate { at: "__schema.types".into(), name: n.clone() });
        }
        out.listed.push(n);
    }
    let mut interfaces_known: IndexMap<String, Vec<String>> = IndexMap::new();
    let mut all_kinds: IndexMap<String, Kind> = IndexMap::new();
    for t in types {
        let n = t.get("name").and_then(J::as_str).unwrap_or("").to_string();
        let kind = match t.get("kind").and_then(J::as_str).and_then(kind_of) {
            Some(k) => k,
            None => continue,
        };
        all_kinds.insert(n.clone(), kind);
        let mut td = TypeDef::new(&n, kind);
        td.desc = b.opt_str(t, "description", &n);
        if matches!(kind, Kind::Object | Kind::Interface) {
            match t.get("fields").and_then(J::as_array) {
                None => b.shape(&n, "fields is not a list"),
                Some(fs) => {
                    for f in fs {
                        let fname = b.name(f, &n);
                        let here = format!("{}.{}", n, fname);
                        if td.field(&fname).is_some() {
                            b.issues.push(Issue::Duplicate { at: n.clone(), name: fname.clone() });
                        }
                        let ty = match f.get("type").and_then(|x| b.type_ref(x, &here)) {
                            Some(t) => t,
                            None => continue,
                        };
                        let args = b.input_values(f.get("args"), &here);
                        let desc = b.opt_str(f, "description", &here);
                        let deprecated = b.deprecation(f, &here);
                        td.fields.push(FieldDef { name: fname, args, ty, desc, deprecated });
                    }
                }
            }
            match t.get("interfaces") {
                Some(l) if l.is_array() => {
                    td.interfaces = b.named_refs(l, &format!("{}.interfaces", n));
                    interfaces_known.insert(n.clone(), td.interfaces.clone());
                }
                _ => b.issues.push(Issue::InterfacesNotAList { ty: n.clone(), kind }),
            }
        }
        if matches!(kind, Kind::Interface | Kind::Union) {
            match t.get("possibleTypes") {
                Some(l) if l.is_array() => {
                    let p = b.named_refs(l, &format!("{}.possibleTypes", n));
                    if kind == Kind::Union {
                        td.members = p.clone();
                    }
                    out.possible.insert(n.clone(), p);
                }
                _ => b.shape(&n, "possibleTypes is not a list"),
            }
        }
        if kind == Kind::Enum {
            match t.get("enumValues").and_then(J::as_array) {
                None => b.shape(&n, "enumValues is not a list"),
                Some(vs) => {
                    for v in vs {
                        let vn = b.name(v, &n);
                        let here = format!("{}.{}", n, vn);
                        if td.values.iter().any(|x| x.name == vn) {
                            b.issues.push(Issue::Duplicate { at: n.clone(), name: vn.clone() });
                        }
                        let desc = b.opt_str(v, "description", &here);
                        let deprecated = b.deprecation(v, &here);
                        td.values.push(EnumValDef { name: vn, desc, deprecated });
                    }
                }
            }
        }
        if kind == Kind::Input {
            td.input_fields = b.input_values(t.get("inputFields"), &n);
            td.one_of = t.get("isOneOf").and_then(J::as_bool).unwrap_or(false);
        }
        if !is_system(&n) {
            out.sch.types.insert(n, td);
        }
    }
    // possible types: exactly the listed objects that declare the interface / the members, all of them objects
    for (abs, reported) in &out.possible {
        for m in reported {
            if let Some(k) = all_kinds.get(m) {
                if *k != Kind::Object {
                    b.issues.push(Issue::WrongKindMember { ty: abs.clone(), list: "possibleTypes", member: m.clone(), kind: format!("{:?}", k) });
                }
            }
        }
        if all_kinds.get(abs) == Some(&Kind::Interface) {
            let mut expected: Vec<String> = vec![];
            for (o, k) in &all_kinds {
                if *k == Kind::Object && declares(&interfaces_known, o, abs) {
                    expected.push(o.clone());
                }
            }
            let mut r = reported.clone();
            r.sort();
            r.dedup();
            expected.sort();
            if r != expected {
                b.issues.push(Issue::PossibleTypes { ty: abs.clone(), reported: reported.clone(), expected });
            }
        }
    }
    for (t, is) in &interfaces_known {
        for i in is {
            if let Some(k) = all_kinds.get(i) {
                if *k != Kind::Interface {
                    b.issues.push(Issue::WrongKindMember { ty: t.clone(), list: "interfaces", member: i.clone(), kind: format!("{:?}", k) });
                }
            }
        }
    }
    // roots
    for (key, required) in [("queryType", true), ("mutationType", false), ("subscriptionType", false)] {
        let name = match schema.get(key) {
            None | Some(J::Null) => None,
            Some(o) => o.get("name").and_then(J::as_str).map(str::to_string),
        };
        match &name {
            None if required => b.shape("__schema", "no queryType"),
            None => {}
            Some(n) => match all_kinds.get(n) {
                None => b.issues.push(Issue::Unlisted { at: format!("__schema.{}", key), name: n.clone() }),
                Some(Kind::Object) => {}
                Some(k) => b.issues.push(Issue::KindDisagrees { at: format!("__schema.{}", key), name: n.clone(), referenced_as: "OBJECT".into(), listed_as: format!("{:?}", k) }),
            },
        }
        match key {
            "queryType" => out.sch.query = name.unwrap_or_default(),
            "mutationType" => out.sch.mutation = name,
            _ => out.sch.subscription = name,
        }
    }
    // directives
    match schema.get("directives").and_then(J::as_array) {
        None => b.shape("__schema", "directives is not a list"),
        Some(ds) => {
            for d in ds {
                let name = b.name(d, "__schema.directives");
                let at = format!("@{}", name);
                let locations = d.get("locations").and_then(J::as_array).map(|l| l.iter().filter_map(|x| x.as_str().map(str::to_string)).collect()).unwrap_or_default();
                let args = b.input_values(d.get("args"), &at);
                out.directives.push(DirectiveInfo { name, locations, args });
            }
        }
    }
    out.issues = b.issues;
    out
}

/// does `sub` list `iface` among its interfaces, directly or through the interfaces of its interfaces
fn declares(known: &IndexMap<String, Vec<String>>, sub: &str, iface: &str) -> bool {
    let mut seen: Vec<&str> = vec![];
    let mut stack = vec![sub];
    while let Some(t) = stack.pop() {
        if seen.contains(&t) {
            continue;
        }
        seen.push(t);
        for i in known.get(t).map(|v| v.as_slice()).unwrap_or(&[]) {
            if i == iface {
                return true;
            }
            stack.push(i);
        }
    }
    false
}

// ------------------------------------------------------------------------------------------------------------
// structural comparison

#[derive(Clone, Debug, PartialEq)]
pub struct Diff {
    /// `Type`, `Type.field`, `Type.field(arg)`, `Type.interfaces`, `schema.query` …
    pub at: String,
    pub what: &'static str,
    pub expected: String,
    pub actual: String,
}
impl Diff {
    pub fn show(&self) -> String {
        format!("{} {}: expected {} got {}", self.at, self.what, self.expected, self.actual)
    }
}

/// what a literal denotes: numbers by value, object fields by name
pub fn canon_val(v: &Val) -> String {
    match v {
        Val::Int(t) | Val::Float(t) => match t.parse::<f64>() {
            Ok(f) => format!("n{:?}", f),
            Err(_) => format!("n?{}", t),
        },
        Val::Str(s) => format!("s{:?}", s),
        Val::Bool(b) => b.to_string(),
        Val::Null => "null".into(),
        Val::Enum(e) => format!("e{}", e),
        Val::Var(n) => format!("${}", n),
        Val::List(l) => format!("[{}]", l.iter().map(|x| canon_val(&x.v)).collect::<Vec<_>>().join(",")),
        Val::Obj(o) => {
            let mut f: Vec<String> = o.iter().map(|(k, x)| format!("{}:{}", k.s, canon_val(&x.v))).collect();
            f.sort();
            format!("{{{}}}", f.join(","))
        }
    }
}

fn set_diff(at: &str, what: &'static str, e: &[String], a: &[String], out: &mut Vec<Diff>) {
    let mut e2 = e.to_vec();
    let mut a2 = a.to_vec();
    e2.sort();
    a2.sort();
    if e2 != a2 {
        out.push(Diff { at: at.into(), what, expected: format!("{:?}", e2), actual: format!("{:?}", a2) });
    }
}

fn opt<T: std::fmt::Debug>(x: &Option<T>) -> String {
    format!("{:?}", x)
}

fn args_diff(at: &str, e: &[ArgDef], a: &[ArgDef], out: &mut Vec<Diff>) {
    set_diff(at, "input value names", &e.iter().map(|x| x.name.clone()).collect::<Vec<_>>(), &a.iter().map(|x| x.name.clone()).collect::<Vec<_>>(), out);
    for x in e {
        if let Some(y) = a.iter().find(|y| y.name == x.name) {
            let here = format!("{}({})", at, x.name);
            if x.ty != y.ty {
                out.push(Diff { at: here.clone(), what: "type", expected: x.ty.show(), actual: y.ty.show() });
            }
            let (dx, dy) = (x.default.as_ref().map(canon_val), y.default.as_ref().map(canon_val));
            if dx != dy {
                out.push(Diff { at: here.clone(), what: "default value", expected: opt(&dx), actual: opt(&dy) });
            }
            if x.desc != y.desc {
                out.push(Diff { at: here, what: "description", expected: opt(&x.desc), actual: opt(&y.desc) });
            }
        }
    }
}

/// Every difference between two schemas (types, fields, arguments, … compared by name, not by order).
pub fn sch_diff(expected: &Sch, actual: &Sch) -> Vec<Diff> {
    let mut out = vec![];
    for (what, e, a) in [("query root", Some(expected.query.clone()), Some(actual.query.clone())), ("mutation root", expected.mutation.clone(), actual.mutation.clone()), ("subscription root", expected.subscription.clone(), actual.subscription.clone())] {
        if e != a {
            out.push(Diff { at: "schema".into(), what, expected: opt(&e), actual: opt(&a) });
        }
    }
    set_diff("schema", "type names", &expected.types.keys().cloned().collect::<Vec<_>>(), &actual.types.keys().cloned().collect::<Vec<_>>(), &mut out);
    for (n, e) in &expected.types {
        let a = match actual.types.get(n) {
            Some(a) => a,
            None => continue,
        };
        if e.kind != a.kind {
            out.push(Diff { at: n.clone(), what: "kind", expected: format!("{:?}", e.kind), actual: format!("{:?}", a.kind) });
            continue;
        }
        if e.desc != a.desc {
            out.push(Diff { at: n.clone(), what: "description", expected: opt(&e.desc), actual: opt(&a.desc) });
        }
        if e.one_of != a.one_of {
            out.push(Diff { at: n.clone(), what: "oneOf", expected: e.one_of.to_string(), actual: a.one_of.to_string() });
        }
        set_diff(&format!("{}.interfaces", n), "interfaces", &e.interfaces, &a.interfaces, &mut out);
        set_diff(&format!("{}.members", n), "union members", &e.members, &a.members, &mut out);
        set_diff(n, "field names", &e.fields.iter().map(|f| f.name.clone()).collect::<Vec<_>>(), &a.fields.iter().map(|f| f.name.clone()).collect::<Vec<_>>(), &mut out);
        for f in &e.fields {
            if let Some(g) = a.field(&f.name) {
                let here = format!("{}.{}", n, f.name);
                if f.ty != g.ty {
                    out.push(Diff { at: here.clone(), what: "type", expected: f.ty.show(), actual: g.ty.show() });
                }
                if f.desc != g.desc {
                    out.push(Diff { at: here.clone(), what: "description", expected: opt(&f.desc), actual: opt(&g.desc) });
                }
                if f.deprecated != g.deprecated {
                    out.push(Diff { at: here.clone(), what: "deprecation", expected: opt(&f.deprecated), actual: opt(&g.deprecated) });
                }
                args_diff(&here, &f.args, &g.args, &mut out);
            }
        }
        set_diff(n, "enum value names", &e.values.iter().map(|v| v.name.clone()).collect::<Vec<_>>(), &a.values.iter().map(|v| v.name.clone()).collect::<Vec<_>>(), &mut out);
        for v in &e.values {
            if let Some(w) = a.values.iter().find(|w| w.name == v.name) {
                let here = format!("{}.{}", n, v.name);
                if v.desc != w.desc {
                    out.push(Diff { at: here.clone(), what: "description", expected: opt(&v.desc), actual: opt(&w.desc) });
                }
                if v.deprecated != w.deprecated {
                    out.push(Diff { at: here, what: "deprecation", expected: opt(&v.deprecated), actual: opt(&w.deprecated) });
                }
            }
        }
        args_diff(n, &e.input_fields, &a.input_fields, &mut out);
    }
    out
}
