//! Reference input coercion, written from the specification: §3 input coercion per type, §6.1.2
//! CoerceVariableValues, §6.4.1 CoerceArgumentValues, plus the @oneOf RFC.
use crate::ast::*;
use crate::sch::*;
use indexmap::IndexMap;

#[derive(Clone, Debug, PartialEq)]
pub enum CV {
    Null,
    Int(i64),
    Float(f64),
    Str(String),
    Bool(bool),
    Enum(String),
    List(Vec<CV>),
    Obj(IndexMap<String, CV>),
}

impl CV {
    pub fn from_json(j: &serde_json::Value) -> CV {
        match j {
            serde_json::Value::Null => CV::Null,
            serde_json::Value::Bool(b) => CV::Bool(*b),
            serde_json::Value::Number(n) => {
                if let Some(i) = n.as_i64() {
                    CV::Int(i)
                } else if let Some(u) = n.as_u64() {
                    CV::Float(u as f64)
                } else {
                    CV::Float(n.as_f64().unwrap())
                }
            }
            serde_json::Value::String(s) => CV::Str(s.clone()),
            serde_json::Value::Array(a) => CV::List(a.iter().map(CV::from_json).collect()),
            serde_json::Value::Object(o) => CV::Obj(o.iter().map(|(k, v)| (k.clone(), CV::from_json(v))).collect()),
        }
    }
    pub fn to_json(&self) -> serde_json::Value {
        use serde_json::Value as J;
        match self {
            CV::Null => J::Null,
            CV::Int(i) => J::from(*i),
            CV::Float(f) => serde_json::Number::from_f64(*f).map(J::Number).unwrap_or(J::Null),
            CV::Str(s) => J::String(s.clone()),
            CV::Bool(b) => J::Bool(*b),
            CV::Enum(e) => J::String(e.clone()),
            CV::List(l) => J::Array(l.iter().map(|x| x.to_json()).collect()),
            CV::Obj(o) => J::Object(o.iter().map(|(k, v)| (k.clone(), v.to_json())).collect()),
        }
    }
    /// compact rendering that distinguishes enums from strings and ints from floats
    pub fn show(&self) -> String {
        match self {
            CV::Null => "null".into(),
            CV::Int(i) => i.to_string(),
            CV::Float(f) => format!("{:?}", f),
            CV::Str(s) => format!("{:?}", s),
            CV::Bool(b) => b.to_string(),
            CV::Enum(e) => e.clone(),
            CV::List(l) => format!("[{}]", l.iter().map(|x| x.show()).collect::<Vec<_>>().join(",")),
            CV::Obj(o) => format!("{{{}}}", o.iter().map(|(k, v)| format!("{}:{}", k, v.show())).collect::<Vec<_>>().join(",")),
        }
    }
}

#[derive(Clone, Debug, PartialEq)]
pub struct CoErr {
    pub msg: String,
    /// the specification leaves the outcome to the implementation
    pub dont_care: bool,
}
fn err<T>(msg: impl Into<String>) -> Result<T, CoErr> {
    Err(CoErr { msg: msg.into(), dont_care: false })
}

pub type Vars = IndexMap<String, CV>;

/// Result of coercing a literal that may contain variables: `None` = "no value" (an omitted variable at the top).
pub fn coerce_literal(sch: &Sch, ty: &Ty, v: &Val, vars: Option<&Vars>) -> Result<Option<CV>, CoErr> {
    if let Val::Var(name) = v {
        return match vars {
            None => err("variable in constant context"),
            // variable values were coerced against the variable's own declared type; validation guarantees
            // that type is allowed in this position, so the runtime value is used as is
            Some(vs) => match vs.get(name) {
                Some(x) => {
                    if *x == CV::Null && ty.is_nn() {
                        err("null variable value for non-null position")
                    } else {
                        Ok(Some(x.clone()))
                    }
                }
                None => Ok(None),
            },
        };
    }
    match ty {
        Ty::NonNull(inner) => match v {
            Val::Null => err("null for non-null type"),
            _ => coerce_literal(sch, inner, v, vars),
        },
        _ if matches!(v, Val::Null) => Ok(Some(CV::Null)),
        Ty::List(inner) => match v {
            Val::List(items) => {
                let mut out = vec![];
                for it in items {
                    match coerce_literal(sch, inner, &it.v, vars)? {
                        Some(x) => out.push(x),
                        // an omitted variable inside a list becomes null
                        None => {
                            if inner.is_nn() {
                                return err("omitted variable at non-null list item");
                            }
                            out.push(CV::Null)
                        }
                    }
                }
                Ok(Some(CV::List(out)))
            }
            // single value -> list of one
            _ => match coerce_literal(sch, inner, v, vars)? {
                Some(x) => Ok(Some(CV::List(vec![x]))),
                None => Ok(None),
            },
        },
        Ty::Named(n) => coerce_named_literal(sch, n, v, vars).map(Some),
    }
}

fn coerce_named_literal(sch: &Sch, n: &str, v: &Val, vars: Option<&Vars>) -> Result<CV, CoErr> {
    match n {
        "Int" => match v {
            Val::Int(t) => match t.parse::<i64>() {
                Ok(i) if i >= i32::MIN as i64 && i <= i32::MAX as i64 => Ok(CV::Int(i)),
                _ => err("Int out of 32-bit range"),
            },
            _ => err("not an Int literal"),
        },
        "Float" => match v {
            Val::Int(t) | Val::Float(t) => match t.parse::<f64>() {
                Ok(f) if f.is_finite() => Ok(CV::Float(f)),
                _ => err("Float not representable"),
            },
            _ => err("not a Float literal"),
        },
        "String" => match v {
            Val::Str(s) => Ok(CV::Str(s.clone())),
            _ => err("not a String literal"),
        },
        "Boolean" => match v {
            Val::Bool(b) => Ok(CV::Bool(*b)),
            _ => err("not a Boolean literal"),
        },
        "ID" => match v {
            Val::Str(s) => Ok(CV::Str(s.clone())),
            Val::Int(t) => match t.parse::<i128>() {
                Ok(i) => Ok(CV::Str(i.to_string())),
                Err(_) => err("bad ID"),
            },
            _ => err("not an ID literal"),
        },
        _ => {
            let td = match sch.ty(n) {
                Some(t) => t,
                None => return err(format!("unknown type {}", n)),
            };
            match td.kind {
                Kind::Enum => match v {
                    Val::Enum(e) if td.values.iter().any(|x| &x.name == e) => Ok(CV::Enum(e.clone())),
                    _ => err("not a value of the enum"),
                },
                Kind::Scalar => literal_to_cv(v, vars),
                Kind::Input => match v {
                    Val::Obj(fields) => {
                        let mut provided: IndexMap<String, Option<CV>> = IndexMap::new();
                        for (k, fv) in fields {
                            let fd = match td.input_fields.iter().find(|f| f.name == k.s) {
                                Some(f) => f,
                                None => return err(format!("unknown input field {}", k.s)),
                            };
                            if provided.contains_key(&k.s) {
                                return err("duplicate input field");
                            }
                            provided.insert(k.s.clone(), coerce_literal(sch, &fd.ty, &fv.v, vars)?);
                        }
                        finish_input_object(sch, td, provided)
                    }
                    _ => err("not an input object literal"),
                },
                _ => err("not an input type"),
            }
        }
    }
}

/// apply defaults / required checks / oneOf to the provided fields (`None` = field mentioned with an omitted
/// variable, i.e. not provided)
fn finish_input_object(sch: &Sch, td: &TypeDef, provided: IndexMap<String, Option<CV>>) -> Result<CV, CoErr> {
    let mut out = IndexMap::new();
    if td.one_of {
        let present: Vec<_> = provided.iter().filter(|(_, v)| v.is_some()).collect();
        if provided.len() != 1 || present.len() != 1 {
            // fields bound to omitted variables: the oneOf RFC rejects them statically (a validation rule), run-time
            // coercion of what remains is not specified separately -> no verdict demanded
            let dont_care = provided.len() != present.len();
            return Err(CoErr { msg: "oneOf input object needs exactly one field".into(), dont_care });
        }
        let (k, v) = present[0];
        if *v == Some(CV::Null) {
            return err("oneOf field must not be null");
        }
        out.insert(k.clone(), v.clone().unwrap());
        return Ok(CV::Obj(out));
    }
    for fd in &td.input_fields {
        match provided.get(&fd.name) {
            Some(Some(v)) => {
                out.insert(fd.name.clone(), v.clone());
            }
            _ => {
                if let Some(d) = &fd.default {
                    if let Some(v) = coerce_literal(sch, &fd.ty, d, None)? {
                        out.insert(fd.name.clone(), v);
                    }
                } else if fd.ty.is_nn() {
                    return err(format!("required input field {} missing", fd.name));
                }
            }
        }
    }
    Ok(CV::Obj(out))
}

/// structural conversion for custom scalars (they accept any literal)
fn literal_to_cv(v: &Val, vars: Option<&Vars>) -> Result<CV, CoErr> {
    Ok(match v {
        Val::Var(n) => vars.and_then(|vs| vs.get(n).cloned()).unwrap_or(CV::Null),
        Val::Int(t) => t.parse::<i64>().map(CV::Int).or_else(|_| t.parse::<f64>().map(CV::Float)).map_err(|_| CoErr { msg: "number".into(), dont_care: false })?,
        Val::Float(t) => t.parse::<f64>().map(CV::Float).map_err(|_| CoErr { msg: "number".into(), dont_care: false })?,
        Val::Str(s) => CV::Str(s.clone()),
        Val::Bool(b) => CV::Bool(*b),
        Val::Null => CV::Null,
        Val::Enum(e) => CV::Enum(e.clone()),
        Val::List(l) => CV::List(l.iter().map(|x| literal_to_cv(&x.v, vars)).collect::<Result<_, _>>()?),
        Val::Obj(o) => CV::Obj(o.iter().map(|(k, x)| Ok((k.s.clone(), literal_to_cv(&x.v, vars)?))).collect::<Result<_, CoErr>>()?),
    })
}

/// coerce a runtime (JSON-shaped) value against a type: variable values
pub fn coerce_runtime(sch: &Sch, ty: &Ty, v: &CV) -> Result<CV, CoErr> {
    match ty {
        Ty::NonNull(inner) => {
            if *v == CV::Null {
                err("null for non-null type")
            } else {
                coerce_runtime(sch, inner, v)
            }
        }
        _ if *v == CV::Null => Ok(CV::Null),
        Ty::List(inner) => match v {
            CV::List(items) => Ok(CV::List(items.iter().map(|x| coerce_runtime(sch, inner, x)).collect::<Result<_, _>>()?)),
            _ => Ok(CV::List(vec![coerce_runtime(sch, inner, v)?])),
        },
        Ty::Named(n) => match n.as_str() {
            "Int" => match v {
                CV::Int(i) if *i >= i32::MIN as i64 && *i <= i32::MAX as i64 => Ok(CV::Int(*i)),
                CV::Int(_) => err("Int out of 32-bit range"),
                CV::Float(f) if f.fract() == 0.0 && f.abs() < 2147483649.0 => Err(CoErr { msg: "integral float for Int".into(), dont_care: true }),
                _ => err("not an Int"),
            },
            "Float" => match v {
                CV::Int(i) => Ok(CV::Float(*i as f64)),
                CV::Float(f) if f.is_finite() => Ok(CV::Float(*f)),
                _ => err("not a Float"),
            },
            "String" => match v {
                CV::Str(s) => Ok(CV::Str(s.clone())),
                _ => err("not a String"),
            },
            "Boolean" => match v {
                CV::Bool(b) => Ok(CV::Bool(*b)),
                _ => err("not a Boolean"),
            },
            "ID" => match v {
                CV::Str(s) => Ok(CV::Str(s.clone())),
                CV::Int(i) => Ok(CV::Str(i.to_string())),
                CV::Float(f) if f.fract() == 0.0 => Err(CoErr { msg: "integral float for ID".into(), dont_care: true }),
                _ => err("not an ID"),
            },
            _ => {
                let td = match sch.ty(n) {
                    Some(t) => t,
                    None => return err(format!("unknown type {}", n)),
                };
                match td.kind {
                    Kind::Enum => match v {
                        // JSON has no enum literal: the name arrives as a string
                        CV::Str(e) | CV::Enum(e) if td.values.iter().any(|x| &x.name == e) => Ok(CV::Enum(e.clone())),
                        _ => err("not a value of the enum"),
                    },
                    Kind::Scalar => Ok(v.clone()),
                    Kind::Input => match v {
                        CV::Obj(o) => {
                            let mut provided = IndexMap::new();
                            for (k, fv) in o {
                                let fd = match td.input_fields.iter().find(|f| &f.name == k) {
                                    Some(f) => f,
                                    None => return err(format!("unknown input field {}", k)),
                                };
                                provided.insert(k.clone(), Some(coerce_runtime(sch, &fd.ty, fv)?));
                            }
                            finish_input_object(sch, td, provided)
                        }
                        _ => err("not an object"),
                    },
                    _ => err("not an input type"),
                }
            }
        },
    }
}

/// §6.1.2 CoerceVariableValues. `provided` holds the raw (JSON-shaped) request variables.
pub fn coerce_variables(sch: &Sch, op: &OpDef, provided: &IndexMap<String, CV>) -> Result<Vars, CoErr> {
    let mut out = Vars::new();
    for vd in &op.vars {
        let ty = &vd.ty.ty;
        if !sch.is_input(ty.base()) {
            return err(format!("variable ${} is not of an input type", vd.name.s));
        }
        match provided.get(&vd.name.s) {
            None => {
                if let Some(d) = &vd.default {
                    if let Some(v) = coerce_literal(sch, ty, &d.v, None)? {
                        out.insert(vd.name.s.clone(), v);
                    }
                } else if ty.is_nn() {
                    return err(format!("required variable ${} not provided", vd.name.s));
                }
            }
            Some(v) => {
                out.insert(vd.name.s.clone(), coerce_runtime(sch, ty, v)?);
            }
        }
    }
    Ok(out)
}

/// §6.4.1 CoerceArgumentValues: present arguments only.
pub fn coerce_arguments(sch: &Sch, fd: &FieldDef, node_args: &[(Name, PVal)], vars: &Vars) -> Result<IndexMap<String, CV>, CoErr> {
    let mut out = IndexMap::new();
    for ad in &fd.args {
        let given = node_args.iter().find(|(n, _)| n.s == ad.name).map(|(_, v)| &v.v);
        let value: Option<CV> = match given {
            None => None,
            Some(v) => coerce_literal(sch, &ad.ty, v, Some(vars))?,
        };
        match value {
            Some(v) => {
                out.insert(ad.name.clone(), v);
            }
            None => {
                if let Some(d) = &ad.default {
                    if let Some(v) = coerce_literal(sch, &ad.ty, d, None)? {
                        out.insert(ad.name.clone(), v);
                    }
                } else if ad.ty.is_nn() {
                    return err(format!("required argument {} missing", ad.name));
                }
            }
        }
    }
    Ok(out)
}
