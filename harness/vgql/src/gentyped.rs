//! Type-directed generator of VALID executable documents for a schema (`Sch`), with variables.
//! Validity by construction: selections exist on their parent type, fragment conditions can apply, response keys
//! merge (fields with arguments always get a fresh alias; un-aliased / repeated keys are used only for
//! argument-less fields whose response shape is the same everywhere in the document), variables are defined, used,
//! typed exactly like the position they are used in, and provided or defaulted.
use crate::ast::*;
use crate::coerce::CV;
use crate::sch::*;
use indexmap::IndexMap;
use vcore::Src;

#[derive(Clone, Debug)]
pub struct TypedCfg {
    pub max_depth: usize,
    pub max_width: usize,
    pub fragments: bool,
    pub directives: bool,
    pub variables: bool,
    pub typename: bool,
    /// allow fragments whose condition is a union inside a selection on a non-union type (construct of C01-F1)
    pub union_cond_in_object: bool,
    /// allow @skip/@include driven by an OMITTED variable with a default (construct of C01-F2)
    pub defaulted_directive_vars: bool,
    /// allow arguments bound to an OMITTED variable while the argument has a default (construct of C06-F1)
    pub omitted_var_with_arg_default: bool,
    pub ops: Vec<OpKind>,
    /// response keys may repeat within a grouped field set (un-aliased duplicates, cloned fields, a fragment
    /// spread twice): the construct of C04-F1
    pub repeats: bool,
}
impl Default for TypedCfg {
    fn default() -> Self {
        TypedCfg {
            max_depth: 4,
            max_width: 4,
            fragments: true,
            directives: true,
            variables: true,
            typename: true,
            union_cond_in_object: true,
            defaulted_directive_vars: true,
            omitted_var_with_arg_default: true,
            ops: vec![OpKind::Query],
            repeats: true,
        }
    }
}

#[derive(Clone, Debug, Default)]
pub struct DocStats {
    pub union_cond_in_object: u32,
    pub interface_cond: u32,
    pub object_cond: u32,
    pub nested_fragments: u32,
    pub named_fragments: u32,
    /// spreads of a fragment away from the place it was first spread
    pub reused_fragments: u32,
    pub repeated_keys: u32,
    pub directive_literal: u32,
    pub directive_var: u32,
    pub directive_var_defaulted: u32,
    pub vars: u32,
    pub vars_omitted: u32,
    pub fields: u32,
    pub omitted_var_arg_default: u32,
}

pub struct TypedDoc {
    pub doc: Doc,
    pub vars: IndexMap<String, CV>,
    pub stats: DocStats,
    pub op_name: Option<String>,
}

struct G<'a> {
    sch: &'a Sch,
    cfg: &'a TypedCfg,
    next_alias: u32,
    /// response key -> response shape (type text) used for un-aliased fields
    shapes: IndexMap<String, String>,
    vardefs: Vec<VarDef>,
    provided: IndexMap<String, CV>,
    frags: Vec<FragDef>,
    stats: DocStats,
    frag_budget: usize,
}

pub fn gen_input_literal(sch: &Sch, ty: &Ty, s: &mut dyn Src, depth: usize) -> Val {
    match ty {
        Ty::NonNull(inner) => {
            let v = gen_input_literal(sch, inner, s, depth);
            if v == Val::Null {
                // regenerate deterministically non-null: force by recursion on a non-null draw
                return gen_input_literal_nonnull(sch, inner, s, depth);
            }
            v
        }
        _ if s.chance(1, 6) => Val::Null,
        _ => gen_input_literal_nonnull(sch, ty, s, depth),
    }
}
fn gen_input_literal_nonnull(sch: &Sch, ty: &Ty, s: &mut dyn Src, depth: usize) -> Val {
    match ty {
        Ty::NonNull(inner) => gen_input_literal_nonnull(sch, inner, s, depth),
        Ty::List(inner) => {
            let n = s.choose(3);
            Val::List((0..n).map(|_| PVal::new(gen_input_literal(sch, inner, s, depth))).collect())
        }
        Ty::Named(n) => match n.as_str() {
            "Int" => Val::Int(match s.choose(3) {
                0 => s.range(-3, 3),
                1 => *vcore::gens::pick(s, &[i32::MAX as i64, i32::MIN as i64, 0]),
                _ => s.range(i32::MIN as i64, i32::MAX as i64),
            }
            .to_string()),
            "Float" => {
                if s.bool() {
                    Val::Float(format!("{:?}", s.range(-1000, 1000) as f64 / 4.0))
                } else {
                    Val::Int(s.range(-9, 9).to_string())
                }
            }
            "String" => Val::Str(vcore::gens::gen_string(s, 4)),
            "Boolean" => Val::Bool(s.bool()),
            "ID" => {
                if s.bool() {
                    Val::Str(format!("id{}", s.choose(50)))
                } else {
                    Val::Int(s.choose(100).to_string())
                }
            }
            _ => match sch.ty(n) {
                Some(td) if td.kind == Kind::Enum => Val::Enum(td.values[s.choose(td.values.len())].name.clone()),
                Some(td) if td.kind == Kind::Input => {
                    if td.one_of {
                        let f = &td.input_fields[s.choose(td.input_fields.len())];
                        return Val::Obj(vec![(Name::new(f.name.clone()), PVal::new(gen_input_literal_nonnull(sch, &f.ty, s, depth + 1)))]);
                    }
                    let mut fields = vec![];
                    for f in &td.input_fields {
                        let required = f.ty.is_nn() && f.default.is_none();
                        if required || (depth < 3 && s.chance(2, 3)) {
                            if depth >= 3 && !required {
                                continue;
                            }
                            fields.push((Name::new(f.name.clone()), PVal::new(gen_input_literal(sch, &f.ty, s, depth + 1))));
                        }
                    }
                    Val::Obj(fields)
                }
                // custom scalar
                _ => Val::Int(s.range(0, 9).to_string()),
            },
        },
    }
}

/// JSON-shaped runtime value for a literal (what a client would put into `variables`)
pub fn literal_to_runtime(v: &Val) -> CV {
    match v {
        Val::Var(_) => CV::Null,
        Val::Int(t) => t.parse::<i64>().map(CV::Int).unwrap_or_else(|_| CV::Float(t.parse().unwrap_or(0.0))),
        Val::Float(t) => CV::Float(t.parse().unwrap_or(0.0)),
        Val::Str(s) => CV::Str(s.clone()),
        Val::Bool(b) => CV::Bool(*b),
        Val::Null => CV::Null,
        // JSON has no enum literal
        Val::Enum(e) => CV::Str(e.clone()),
        Val::List(l) => CV::List(l.iter().map(|x| literal_to_runtime(&x.v)).collect()),
        Val::Obj(o) => CV::Obj(o.iter().map(|(k, x)| (k.s.clone(), literal_to_runtime(&x.v))).collect()),
    }
}

impl<'a> G<'a> {
    fn alias(&mut self) -> String {
        self.next_alias += 1;
        format!("k{}", self.next_alias)
    }

    /// a value for an argument position of type `ty`: literal or variable
    fn arg_value(&mut self, s: &mut dyn Src, ty: &Ty, has_default: bool) -> Option<Val> {
        if self.cfg.variables && s.chance(1, 3) {
            let name = format!("v{}", self.vardefs.len());
            // declared type: the position's type, or its non-null form
            let decl = if !ty.is_nn() && s.chance(1, 4) { Ty::nn(ty.clone()) } else { ty.clone() };
            let default = if s.chance(1, 3) { Some(PVal::new(gen_input_literal(self.sch, &decl, s, 0))) } else { None };
            let can_omit = default.is_some() || !decl.is_nn();
            // omitting a variable without a default means "no value": only legal when the position tolerates it
            let tolerates_absent = !ty.is_nn() || has_default;
            let mut omit = can_omit && s.chance(1, 3);
            if omit && default.is_none() {
                if !tolerates_absent {
                    omit = false;
                } else if has_default && !self.cfg.omitted_var_with_arg_default {
                    omit = false;
                }
            }
            if omit {
                self.stats.vars_omitted += 1;
                if default.is_none() && has_default {
                    self.stats.omitted_var_arg_default += 1;
                }
            } else {
                let lit = gen_input_literal(self.sch, &decl, s, 0);
                self.provided.insert(name.clone(), literal_to_runtime(&lit));
            }
            self.stats.vars += 1;
            self.vardefs.push(VarDef { pos: Pos::default(), name: Name::new(name.clone()), ty: PTy { pos: Pos::default(), ty: decl }, default, directives: vec![] });
            return Some(Val::Var(name));
        }
        Some(gen_input_literal(self.sch, ty, s, 0))
    }

    fn directives(&mut self, s: &mut dyn Src) -> Vec<Directive> {
        if !self.cfg.directives || !s.chance(1, 6) {
            return vec![];
        }
        let mut out = vec![];
        let which = s.choose(3); // skip, include, both
        for name in ["skip", "include"] {
            if (name == "skip" && which == 1) || (name == "include" && which == 0) {
                continue;
            }
            let v = if self.cfg.variables && s.chance(1, 2) {
                let vn = format!("v{}", self.vardefs.len());
                let nn = s.bool();
                let decl = if nn { Ty::nn(Ty::named("Boolean")) } else { Ty::named("Boolean") };
                // nullable Boolean variable in a Boolean! position is only allowed with a default
                let mut default = if !nn || s.bool() { Some(PVal::new(Val::Bool(s.bool()))) } else { None };
                let mut omit = default.is_some() && s.chance(1, 2);
                if omit && !self.cfg.defaulted_directive_vars {
                    omit = false;
                }
                if !nn && default.is_none() {
                    default = Some(PVal::new(Val::Bool(false)));
                }
                if omit {
                    self.stats.directive_var_defaulted += 1;
                    self.stats.vars_omitted += 1;
                } else {
                    self.provided.insert(vn.clone(), CV::Bool(s.bool()));
                }
                self.stats.directive_var += 1;
                self.stats.vars += 1;
                self.vardefs.push(VarDef { pos: Pos::default(), name: Name::new(vn.clone()), ty: PTy { pos: Pos::default(), ty: decl }, default, directives: vec![] });
                Val::Var(vn)
            } else {
                self.stats.directive_literal += 1;
                Val::Bool(s.bool())
            };
            out.push(Directive::new(name, vec![("if", v)]));
        }
        out
    }

    fn field(&mut self, s: &mut dyn Src, parent: &str, fd: &FieldDef, depth: usize, in_frag: usize) -> Option<Field> {
        let base = fd.ty.base().to_string();
        let composite = self.sch.is_composite(&base);
        if composite && depth == 0 {
            return None;
        }
        let mut f = Field::new(&fd.name);
        let shape = fd.ty.show();
        let has_args = !fd.args.is_empty();
        let unaliased_ok = !has_args && self.shapes.get(&fd.name).map_or(true, |sh| sh == &shape);
        if unaliased_ok && self.cfg.repeats && s.chance(2, 3) {
            self.shapes.insert(fd.name.clone(), shape);
        } else {
            f.alias = Some(Name::new(self.alias()));
        }
        for a in &fd.args {
            let required = a.ty.is_nn() && a.default.is_none();
            if required || s.chance(1, 2) {
                if let Some(v) = self.arg_value(s, &a.ty, a.default.is_some()) {
                    f.args.push((Name::new(a.name.clone()), PVal::new(v)));
                }
            }
        }
        f.directives = self.directives(s);
        if composite {
            f.sel = self.selset(s, &base, depth.saturating_sub(1), in_frag);
        }
        self.stats.fields += 1;
        let _ = parent;
        Some(f)
    }

    fn conds_for(&self, parent: &str) -> Vec<String> {
        let pp = self.sch.possible_types(parent);
        let parent_is_union = self.sch.kind(parent) == Some(Kind::Union);
        self.sch
            .types
            .values()
            .filter(|t| matches!(t.kind, Kind::Object | Kind::Interface | Kind::Union))
            .filter(|t| self.sch.possible_types(&t.name).iter().any(|x| pp.contains(x)))
            .filter(|t| self.cfg.union_cond_in_object || t.kind != Kind::Union || parent_is_union || t.name == parent)
            .map(|t| t.name.clone())
            .collect()
    }

    fn note_cond(&mut self, parent: &str, cond: &str) {
        match self.sch.kind(cond) {
            Some(Kind::Union) if self.sch.kind(parent) != Some(Kind::Union) => self.stats.union_cond_in_object += 1,
            Some(Kind::Union) => {}
            Some(Kind::Interface) => self.stats.interface_cond += 1,
            _ => self.stats.object_cond += 1,
        }
    }

    /// a selection set valid on `parent` (object, interface or union)
    fn selset(&mut self, s: &mut dyn Src, parent: &str, depth: usize, in_frag: usize) -> SelSet {
        let td = self.sch.ty(parent).cloned();
        let mut fields: Vec<FieldDef> = td.as_ref().map(|t| t.fields.clone()).unwrap_or_default();
        if depth == 0 {
            // bottom of the depth budget: leaves only
            fields.retain(|f| self.sch.is_leaf(f.ty.base()));
        }
        let n = 1 + s.choose(self.cfg.max_width);
        let mut items: Vec<Selection> = vec![];
        for _ in 0..n {
            let k = s.weighted(&[8, 2, 2, 1, 1]);
            match k {
                1 | 2 if self.cfg.fragments && depth > 0 => {
                    let conds = self.conds_for(parent);
                    if conds.is_empty() {
                        continue;
                    }
                    let cond = conds[s.choose(conds.len())].clone();
                    if k == 1 {
                        let untyped = s.chance(1, 4);
                        let sel_on = if untyped { parent.to_string() } else { cond.clone() };
                        if !untyped {
                            self.note_cond(parent, &cond);
                        }
                        if in_frag > 0 {
                            self.stats.nested_fragments += 1;
                        }
                        let directives = self.directives(s);
                        let sel = self.selset(s, &sel_on, depth - 1, in_frag + 1);
                        items.push(Selection::Inline(Inline { pos: Pos::default(), cond: if untyped { None } else { Some(Name::new(cond)) }, cond_pos: Pos::default(), directives, sel }));
                    } else if self.cfg.repeats && self.frags.iter().any(|f| conds.contains(&f.cond.s)) && s.chance(1, 3) {
                        // spread an already finished fragment again, somewhere else in the document (other parent,
                        // other depth; finished fragments only, so no cycles)
                        let usable: Vec<usize> = self.frags.iter().enumerate().filter(|(_, f)| conds.contains(&f.cond.s)).map(|(i, _)| i).collect();
                        let fr = &self.frags[usable[s.choose(usable.len())]];
                        let (name, fcond) = (fr.name.s.clone(), fr.cond.s.clone());
                        self.note_cond(parent, &fcond);
                        self.stats.reused_fragments += 1;
                        if in_frag > 0 {
                            self.stats.nested_fragments += 1;
                        }
                        items.push(Selection::Spread(Spread { pos: Pos::default(), name: Name::new(name), directives: vec![] }));
                    } else if self.frag_budget > 0 {
                        self.frag_budget -= 1;
                        self.note_cond(parent, &cond);
                        self.stats.named_fragments += 1;
                        if in_frag > 0 {
                            self.stats.nested_fragments += 1;
                        }
                        let name = format!("F{}", self.frags.len() + self.frag_budget * 100 + 1);
                        let directives = self.directives(s);
                        let sel = self.selset(s, &cond, depth - 1, in_frag + 1);
                        self.frags.push(FragDef { pos: Pos::default(), name: Name::new(name.clone()), cond: Name::new(cond), cond_pos: Pos::default(), directives: vec![], sel });
                        items.push(Selection::Spread(Spread { pos: Pos::default(), name: Name::new(name.clone()), directives }));
                        // sometimes spread the same fragment twice (visited-set semantics)
                        if self.cfg.repeats && s.chance(1, 6) {
                            items.push(Selection::Spread(Spread { pos: Pos::default(), name: Name::new(name), directives: vec![] }));
                        }
                    }
                }
                3 if self.cfg.typename => {
                    let mut f = Field::new("__typename");
                    if s.chance(1, 3) {
                        f.alias = Some(Name::new(self.alias()));
                    }
                    items.push(Selection::Field(f));
                }
                4 if self.cfg.repeats => {
                    // repeat an earlier sibling field under the same response key: same name, alias and arguments,
                    // freshly generated sub-selection (merged by the executor)
                    let prev: Vec<Field> = items
                        .iter()
                        .filter_map(|i| match i {
                            Selection::Field(f) if f.name.s != "__typename" => Some(f.clone()),
                            _ => None,
                        })
                        .collect();
                    if prev.is_empty() {
                        continue;
                    }
                    let mut f = prev[s.choose(prev.len())].clone();
                    if let Some(fd) = fields.iter().find(|x| x.name == f.name.s) {
                        let base = fd.ty.base().to_string();
                        if self.sch.is_composite(&base) {
                            f.sel = self.selset(s, &base, depth.saturating_sub(1), in_frag);
                        }
                    }
                    f.directives = vec![];
                    self.stats.repeated_keys += 1;
                    if s.bool() {
                        items.push(Selection::Field(f));
                    } else {
                        items.push(Selection::Inline(Inline { pos: Pos::default(), cond: None, cond_pos: Pos::default(), directives: vec![], sel: SelSet::new(vec![Selection::Field(f)]) }));
                    }
                }
                _ => {
                    if fields.is_empty() {
                        continue;
                    }
                    let fd = fields[s.choose(fields.len())].clone();
                    if let Some(f) = self.field(s, parent, &fd, depth, in_frag) {
                        items.push(Selection::Field(f));
                    }
                }
            }
        }
        if items.is_empty() {
            // every selection set needs at least one selection
            if depth > 0 || fields.iter().any(|f| self.sch.is_leaf(f.ty.base())) {
                let leafs: Vec<FieldDef> = fields.iter().filter(|f| self.sch.is_leaf(f.ty.base()) && f.args.iter().all(|a| !a.ty.is_nn() || a.default.is_some())).cloned().collect();
                if !leafs.is_empty() {
                    let fd = leafs[s.choose(leafs.len())].clone();
                    let mut f = Field::new(&fd.name);
                    f.alias = Some(Name::new(self.alias()));
                    items.push(Selection::Field(f));
                }
            }
            if items.is_empty() {
                items.push(Selection::Field(Field::new("__typename")));
            }
        }
        SelSet::new(items)
    }
}

pub fn gen_typed_doc(sch: &Sch, s: &mut dyn Src, cfg: &TypedCfg) -> TypedDoc {
    let kind = cfg.ops[s.choose(cfg.ops.len())];
    let kind = if sch.root(kind).is_some() { kind } else { OpKind::Query };
    let root = sch.root(kind).unwrap().to_string();
    let mut g = G { sch, cfg, next_alias: 0, shapes: IndexMap::new(), vardefs: vec![], provided: IndexMap::new(), frags: vec![], stats: DocStats::default(), frag_budget: 3 };
    let mut sel = g.selset(s, &root, cfg.max_depth, 0);
    if kind == OpKind::Subscription {
        // exactly one root field
        let first = sel.items.iter().find(|i| matches!(i, Selection::Field(f) if f.name.s != "__typename")).cloned();
        match first {
            Some(f) => sel.items = vec![f],
            None => {
                let fd = sch.ty(&root).unwrap().fields[0].clone();
                let f = g.field(s, &root, &fd, cfg.max_depth, 0).unwrap();
                sel.items = vec![Selection::Field(f)];
            }
        }
    }
    let named = s.bool();
    // operation names and fragment names are separate namespaces: a named operation regularly shares its name with
    // the first fragment generated so far (decided from the structure, no extra draw)
    let op_name = if named {
        match g.frags.first() {
            Some(f) if (g.frags.len() + g.vardefs.len()) % 2 == 0 => Some(f.name.s.clone()),
            _ => Some("Op".to_string()),
        }
    } else {
        None
    };
    let op = OpDef { pos: Pos::default(), explicit: true, kind, name: op_name.clone().map(Name::new), vars: vec![], directives: vec![], sel };
    let mut doc = Doc { defs: vec![Def::Op(op)] };
    // keep only fragments that are still spread somewhere (subscription trimming may orphan some) and only
    // variables that are still used
    loop {
        let before = g.frags.len();
        let used: Vec<FragDef> = g.frags.iter().filter(|f| doc_frags_spread(&g.frags, &f.name.s, &doc)).cloned().collect();
        g.frags = used;
        if g.frags.len() == before {
            break;
        }
    }
    for f in &g.frags {
        doc.defs.push(Def::Frag(f.clone()));
    }
    let text = format!("{:?}", doc);
    let vars: Vec<VarDef> = g.vardefs.iter().filter(|v| text.contains(&format!("Var(\"{}\")", v.name.s))).cloned().collect();
    let used_names: Vec<String> = vars.iter().map(|v| v.name.s.clone()).collect();
    g.provided.retain(|k, _| used_names.contains(k));
    if let Def::Op(o) = &mut doc.defs[0] {
        o.vars = vars;
        if o.vars.is_empty() && o.kind == OpKind::Query && !named && s.chance(1, 3) {
            o.explicit = false;
        }
    }
    TypedDoc { doc, vars: g.provided, stats: g.stats, op_name }
}

fn doc_frags_spread(frags: &[FragDef], name: &str, doc: &Doc) -> bool {
    fn sel_spreads(s: &SelSet, name: &str) -> bool {
        s.items.iter().any(|i| match i {
            Selection::Spread(sp) => sp.name.s == name,
            Selection::Field(f) => sel_spreads(&f.sel, name),
            Selection::Inline(i) => sel_spreads(&i.sel, name),
        })
    }
    // reachable from the operation, directly or through other (kept) fragments
    let mut reach: Vec<String> = vec![];
    let mut changed = true;
    let op_sel = match &doc.defs[0] {
        Def::Op(o) => &o.sel,
        _ => return false,
    };
    while changed {
        changed = false;
        for f in frags {
            if reach.contains(&f.name.s) {
                continue;
            }
            let from_op = sel_spreads(op_sel, &f.name.s);
            let from_frag = frags.iter().any(|g| reach.contains(&g.name.s) && sel_spreads(&g.sel, &f.name.s));
            if from_op || from_frag {
                reach.push(f.name.s.clone());
                changed = true;
            }
        }
    }
    reach.iter().any(|r| r == name)
}
