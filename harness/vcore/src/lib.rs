pub mod src;
pub mod drive;
pub mod det;
pub mod child;
pub mod gens;

pub use drive::{Case, Ctx, Tier, Verdict};
pub use src::{fnv1a, ByteSrc, Src, VecSrc};
pub use serde_json::{json, Value as Json};
