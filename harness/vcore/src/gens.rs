//! Small shared generators over a choice source.
use crate::src::Src;

/// A Unicode scalar value drawn from classes that matter for escaping / position counting.
pub fn gen_char(s: &mut dyn Src) -> char {
    match s.weighted(&[30, 6, 6, 6, 5, 5, 5, 4, 3, 3]) {
        0 => (b'a' + s.choose(26) as u8) as char,
        1 => *pick(s, &['"', '\\', '\'', '/', '&', '<', '>', '#', '$', '{', '}', '[', ']', ',', ':', ' ']),
        2 => char::from_u32(s.choose(0x20) as u32).unwrap(), // C0 controls incl. \n \r \t \0
        3 => *pick(s, &['\u{7f}', '\u{80}', '\u{85}', '\u{9f}', '\u{a0}', '\u{ad}']),
        4 => *pick(s, &['é', 'ß', 'Ж', '中', '\u{2028}', '\u{2029}', '\u{feff}', '\u{d7ff}', '\u{e000}', '\u{ffff}', '\u{fffd}']),
        5 => *pick(s, &['😀', '𝄞', '\u{10000}', '\u{10ffff}', '\u{1f4a9}']),
        6 => (b'0' + s.choose(10) as u8) as char,
        7 => (b'A' + s.choose(26) as u8) as char,
        8 => char::from_u32(0x20 + s.choose(0x5f) as u32).unwrap(), // printable ASCII
        _ => loop {
            let c = s.range(0, 0x10ffff) as u32;
            if let Some(c) = char::from_u32(c) {
                break c;
            }
        },
    }
}

pub fn gen_string(s: &mut dyn Src, max: usize) -> String {
    let n = s.choose(max + 1);
    (0..n).map(|_| gen_char(s)).collect()
}

/// valid GraphQL name
pub fn gen_name(s: &mut dyn Src, max: usize) -> String {
    let n = 1 + s.choose(max.max(1));
    let mut out = String::new();
    for i in 0..n {
        let c = if i == 0 {
            match s.choose(3) {
                0 => (b'a' + s.choose(26) as u8) as char,
                1 => (b'A' + s.choose(26) as u8) as char,
                _ => '_',
            }
        } else {
            match s.choose(4) {
                0 => (b'a' + s.choose(26) as u8) as char,
                1 => (b'A' + s.choose(26) as u8) as char,
                2 => (b'0' + s.choose(10) as u8) as char,
                _ => '_',
            }
        };
        out.push(c);
    }
    out
}

pub fn pick<'a, T>(s: &mut dyn Src, xs: &'a [T]) -> &'a T {
    &xs[s.choose(xs.len())]
}

/// boundary-dense i64
pub fn gen_i64(s: &mut dyn Src) -> i64 {
    const B: [i64; 24] = [
        0, 1, -1, 2, 127, 128, -128, -129, 255, 256, 32767, 32768, -32768, -32769, 65535, 65536,
        2147483647, 2147483648, -2147483648, -2147483649, 4294967295, 4294967296, i64::MAX, i64::MIN,
    ];
    match s.choose(4) {
        0 => s.range(-20, 20),
        1 => B[s.choose(B.len())],
        2 => B[s.choose(B.len())].wrapping_add(s.range(-3, 3)),
        _ => s.u64() as i64 >> s.choose(64),
    }
}

/// finite f64 from many classes
pub fn gen_f64_finite(s: &mut dyn Src) -> f64 {
    match s.choose(8) {
        0 => 0.0,
        1 => -0.0,
        2 => s.range(-1000, 1000) as f64 / 8.0,
        3 => *pick(s, &[f64::MAX, f64::MIN, f64::MIN_POSITIVE, f64::EPSILON, 5e-324, 1e300, -1e-300, 1e21, 1e-7, 0.1, 1.0, -1.0, 9007199254740993.0, 1.7976931348623157e308]),
        4 => s.range(-1_000_000_000, 1_000_000_000) as f64,
        5 => (s.u64() as i64) as f64,
        _ => loop {
            let f = f64::from_bits(s.u64());
            if f.is_finite() {
                break f;
            }
        },
    }
}
