//! Deterministic single-threaded executor: tasks with wake flags, gates (futures that complete when the
//! schedule opens them; timers are gates too) and a controllable stream. The same action sequence always
//! produces the same run, so schedules shrink and replay.

use futures_util::task::{waker, ArcWake};
use std::collections::VecDeque;
use std::future::Future;
use std::pin::Pin;
use std::sync::atomic::{AtomicBool, Ordering};
use std::sync::{Arc, Mutex};
use std::task::{Context, Poll, Waker};

struct Flag(AtomicBool);
impl ArcWake for Flag {
    fn wake_by_ref(a: &Arc<Self>) {
        a.0.store(true, Ordering::SeqCst);
    }
}

pub type BoxFut = Pin<Box<dyn Future<Output = ()> + Send + 'static>>;

struct Task {
    fut: Option<BoxFut>,
    flag: Arc<Flag>,
    name: String,
}

/// queue shared with `Spawn`-like closures handed to the code under test
#[derive(Clone, Default)]
pub struct SpawnQueue(Arc<Mutex<Vec<(String, BoxFut)>>>);
impl SpawnQueue {
    pub fn push(&self, name: &str, f: BoxFut) {
        self.0.lock().unwrap().push((name.to_string(), f));
    }
}

#[derive(Default)]
pub struct Sim {
    tasks: Vec<Task>,
    pub spawned: SpawnQueue,
    pub polls: u64,
}

impl Sim {
    pub fn new() -> Sim {
        Sim::default()
    }
    pub fn spawn(&mut self, name: &str, f: BoxFut) -> usize {
        self.tasks.push(Task { fut: Some(f), flag: Arc::new(Flag(AtomicBool::new(true))), name: name.to_string() });
        self.tasks.len() - 1
    }
    fn adopt(&mut self) {
        let new: Vec<_> = std::mem::take(&mut *self.spawned.0.lock().unwrap());
        for (n, f) in new {
            self.spawn(&n, f);
        }
    }
    pub fn is_done(&self, t: usize) -> bool {
        self.tasks[t].fut.is_none()
    }
    pub fn task_name(&self, t: usize) -> &str {
        &self.tasks[t].name
    }
    pub fn task_count(&self) -> usize {
        self.tasks.len()
    }
    pub fn live_tasks(&self) -> Vec<usize> {
        (0..self.tasks.len()).filter(|i| self.tasks[*i].fut.is_some()).collect()
    }
    /// drop a task's future (cancellation)
    pub fn cancel(&mut self, t: usize) {
        self.tasks[t].fut = None;
    }
    /// poll one task once if it is live; returns true if it completed
    pub fn poll_task(&mut self, t: usize) -> bool {
        let flag = self.tasks[t].flag.clone();
        flag.0.store(false, Ordering::SeqCst);
        let w = waker(flag);
        let mut cx = Context::from_waker(&w);
        let done = match self.tasks[t].fut.as_mut() {
            None => return true,
            Some(f) => {
                self.polls += 1;
                f.as_mut().poll(&mut cx).is_ready()
            }
        };
        if done {
            self.tasks[t].fut = None;
        }
        self.adopt();
        done
    }
    /// tasks whose wake flag is set
    pub fn woken(&self) -> Vec<usize> {
        (0..self.tasks.len())
            .filter(|i| self.tasks[*i].fut.is_some() && self.tasks[*i].flag.0.load(Ordering::SeqCst))
            .collect()
    }
    /// poll woken tasks (ascending id) until nothing is woken; bounded to detect livelock
    pub fn settle(&mut self) -> bool {
        self.adopt();
        let mut rounds = 0u32;
        loop {
            let w = self.woken();
            if w.is_empty() {
                return true;
            }
            for t in w {
                self.poll_task(t);
            }
            rounds += 1;
            if rounds > 100_000 {
                return false;
            }
        }
    }
}

#[derive(Default)]
struct GateState {
    label: String,
    open: bool,
    waker: Option<Waker>,
    dropped: bool,
}

/// A growing set of gates. Code under test (resolvers, loaders, timers) calls `wait(label)`; the schedule
/// lists pending gates and opens them one at a time.
#[derive(Clone, Default)]
pub struct Gates(Arc<Mutex<Vec<GateState>>>);

pub struct Wait {
    gates: Gates,
    idx: Option<usize>,
    label: String,
    auto: bool,
}

impl Gates {
    pub fn new() -> Gates {
        Gates::default()
    }
    /// future that completes once the schedule opens the gate it registers on first poll
    pub fn wait(&self, label: impl Into<String>) -> Wait {
        Wait { gates: self.clone(), idx: None, label: label.into(), auto: false }
    }
    /// when `pass_through` is true the wait completes immediately (ungated runs use the same resolvers)
    pub fn wait_or_pass(&self, label: impl Into<String>, pass_through: bool) -> Wait {
        Wait { gates: self.clone(), idx: None, label: label.into(), auto: pass_through }
    }
    /// indices and labels of registered, still closed, not dropped gates, in registration order
    pub fn pending(&self) -> Vec<(usize, String)> {
        self.0
            .lock()
            .unwrap()
            .iter()
            .enumerate()
            .filter(|(_, g)| !g.open && !g.dropped)
            .map(|(i, g)| (i, g.label.clone()))
            .collect()
    }
    pub fn open(&self, idx: usize) {
        let w = {
            let mut v = self.0.lock().unwrap();
            v[idx].open = true;
            v[idx].waker.take()
        };
        if let Some(w) = w {
            w.wake();
        }
    }
    pub fn count(&self) -> usize {
        self.0.lock().unwrap().len()
    }
    pub fn labels(&self) -> Vec<String> {
        self.0.lock().unwrap().iter().map(|g| g.label.clone()).collect()
    }
}

impl Future for Wait {
    type Output = ();
    fn poll(mut self: Pin<&mut Self>, cx: &mut Context<'_>) -> Poll<()> {
        if self.auto {
            return Poll::Ready(());
        }
        let gates = self.gates.clone();
        let mut v = gates.0.lock().unwrap();
        match self.idx {
            None => {
                v.push(GateState { label: self.label.clone(), open: false, waker: Some(cx.waker().clone()), dropped: false });
                self.idx = Some(v.len() - 1);
                Poll::Pending
            }
            Some(i) => {
                if v[i].open {
                    Poll::Ready(())
                } else {
                    v[i].waker = Some(cx.waker().clone());
                    Poll::Pending
                }
            }
        }
    }
}
impl Drop for Wait {
    fn drop(&mut self) {
        if let Some(i) = self.idx {
            if let Ok(mut v) = self.gates.0.lock() {
                if !v[i].open {
                    v[i].dropped = true;
                }
            }
        }
    }
}

/// A stream whose items are pushed by the schedule.
pub struct Chan<T> {
    inner: Arc<Mutex<ChanState<T>>>,
}
struct ChanState<T> {
    q: VecDeque<T>,
    closed: bool,
    waker: Option<Waker>,
    rx_dropped: bool,
}
impl<T> Clone for Chan<T> {
    fn clone(&self) -> Self {
        Chan { inner: self.inner.clone() }
    }
}
impl<T> Chan<T> {
    pub fn new() -> Chan<T> {
        Chan { inner: Arc::new(Mutex::new(ChanState { q: VecDeque::new(), closed: false, waker: None, rx_dropped: false })) }
    }
    pub fn push(&self, t: T) {
        let w = {
            let mut s = self.inner.lock().unwrap();
            s.q.push_back(t);
            s.waker.take()
        };
        if let Some(w) = w {
            w.wake();
        }
    }
    pub fn close(&self) {
        let w = {
            let mut s = self.inner.lock().unwrap();
            s.closed = true;
            s.waker.take()
        };
        if let Some(w) = w {
            w.wake();
        }
    }
    pub fn rx(&self) -> ChanRx<T> {
        ChanRx { inner: self.inner.clone() }
    }
    pub fn rx_dropped(&self) -> bool {
        self.inner.lock().unwrap().rx_dropped
    }
    pub fn is_closed(&self) -> bool {
        self.inner.lock().unwrap().closed
    }
}
pub struct ChanRx<T> {
    inner: Arc<Mutex<ChanState<T>>>,
}
impl<T> futures_util::Stream for ChanRx<T> {
    type Item = T;
    fn poll_next(self: Pin<&mut Self>, cx: &mut Context<'_>) -> Poll<Option<T>> {
        let mut s = self.inner.lock().unwrap();
        if let Some(x) = s.q.pop_front() {
            return Poll::Ready(Some(x));
        }
        if s.closed {
            return Poll::Ready(None);
        }
        s.waker = Some(cx.waker().clone());
        Poll::Pending
    }
}
impl<T> Drop for ChanRx<T> {
    fn drop(&mut self) {
        if let Ok(mut s) = self.inner.lock() {
            s.rx_dropped = true;
        }
    }
}

/// Drive one future to completion, opening pending gates in the order chosen by `pick(pending) -> index into
/// pending`. Returns None if the future stalls with no pending gate (deadlock) or exceeds `max_steps`.
pub fn run_with_gates<T: Send + 'static>(
    fut: Pin<Box<dyn Future<Output = T> + Send + 'static>>,
    gates: &Gates,
    mut pick: impl FnMut(&[(usize, String)]) -> usize,
    max_steps: usize,
) -> Option<(T, Vec<String>)> {
    let out: Arc<Mutex<Option<T>>> = Arc::new(Mutex::new(None));
    let o2 = out.clone();
    let mut sim = Sim::new();
    let t = sim.spawn(
        "main",
        Box::pin(async move {
            let v = fut.await;
            *o2.lock().unwrap() = Some(v);
        }),
    );
    let mut order = vec![];
    for _ in 0..max_steps {
        if !sim.settle() {
            return None;
        }
        if sim.is_done(t) {
            let v = out.lock().unwrap().take();
            return v.map(|v| (v, order));
        }
        let p = gates.pending();
        if p.is_empty() {
            return None;
        }
        let k = pick(&p).min(p.len() - 1);
        order.push(p[k].1.clone());
        gates.open(p[k].0);
    }
    None
}

/// Plain block_on for futures that never pend on anything external (used with pass-through gates).
pub fn block_on<T>(fut: impl Future<Output = T>) -> T {
    futures_util::pin_mut!(fut);
    let flag = Arc::new(Flag(AtomicBool::new(false)));
    let w = waker(flag.clone());
    let mut cx = Context::from_waker(&w);
    let mut spins = 0u64;
    loop {
        if let Poll::Ready(v) = fut.as_mut().poll(&mut cx) {
            return v;
        }
        spins += 1;
        if !flag.0.swap(false, Ordering::SeqCst) {
            // nothing woke us: external wake-up (e.g. a blocking thread pool); yield
            std::thread::sleep(std::time::Duration::from_micros(50));
        }
        if spins > 200_000_000 {
            panic!("block_on: future never completed");
        }
    }
}
