//! Choice source: every generator in the harness is an interpreter of a stream of `u32` draws.
//! Draws are mapped monotonically (`draw * n >> 32`), so shrinking a draw shrinks the choice; an
//! exhausted source yields 0 (the simplest alternative).

pub trait Src {
    /// next raw draw (0 when exhausted)
    fn raw(&mut self) -> u32;

    /// uniform-ish choice in 0..n (n >= 1), monotone in the raw draw
    fn choose(&mut self, n: usize) -> usize {
        if n <= 1 {
            // still consume nothing: a forced choice costs no draw, keeps vectors short
            return 0;
        }
        ((self.raw() as u64 * n as u64) >> 32) as usize
    }
    fn bool(&mut self) -> bool {
        self.choose(2) == 1
    }
    /// true with probability num/den; false is the "simple" outcome
    fn chance(&mut self, num: u32, den: u32) -> bool {
        let r = self.raw() as u64;
        // top `num/den` fraction of the range is true so that small draws are false
        r >= ((den - num) as u64 * (1u64 << 32)) / den as u64
    }
    /// inclusive integer range, monotone
    fn range(&mut self, lo: i64, hi: i64) -> i64 {
        debug_assert!(lo <= hi);
        let span = (hi - lo) as u128 + 1;
        if span == 1 {
            return lo;
        }
        if span <= u32::MAX as u128 {
            lo + ((self.raw() as u128 * span) >> 32) as i64
        } else {
            let r = ((self.raw() as u128) << 32) | self.raw() as u128;
            lo.wrapping_add(((r * span) >> 64) as i64)
        }
    }
    /// weighted choice; index 0 should be the simplest alternative
    fn weighted(&mut self, weights: &[u32]) -> usize {
        let total: u64 = weights.iter().map(|w| *w as u64).sum();
        if total == 0 {
            return 0;
        }
        let mut x = (self.raw() as u64 * total) >> 32;
        for (i, w) in weights.iter().enumerate() {
            if x < *w as u64 {
                return i;
            }
            x -= *w as u64;
        }
        weights.len() - 1
    }
    fn pick<'a, T>(&mut self, xs: &'a [T]) -> &'a T
    where
        Self: Sized,
    {
        &xs[self.choose(xs.len())]
    }
    fn u64(&mut self) -> u64 {
        ((self.raw() as u64) << 32) | self.raw() as u64
    }
    /// number of draws consumed so far
    fn used(&self) -> usize;
    /// true if the source has run past its end at least once
    fn exhausted(&self) -> bool;
}

pub struct VecSrc<'a> {
    data: &'a [u32],
    pos: usize,
    over: bool,
}
impl<'a> VecSrc<'a> {
    pub fn new(data: &'a [u32]) -> Self {
        VecSrc { data, pos: 0, over: false }
    }
}
impl<'a> Src for VecSrc<'a> {
    fn raw(&mut self) -> u32 {
        if self.pos < self.data.len() {
            let v = self.data[self.pos];
            self.pos += 1;
            v
        } else {
            self.over = true;
            0
        }
    }
    fn used(&self) -> usize {
        self.pos
    }
    fn exhausted(&self) -> bool {
        self.over
    }
}

/// Source over fuzzer bytes: 4 bytes per draw (little endian); short tail padded with zeros.
pub struct ByteSrc<'a> {
    data: &'a [u8],
    pos: usize,
    over: bool,
}
impl<'a> ByteSrc<'a> {
    pub fn new(data: &'a [u8]) -> Self {
        ByteSrc { data, pos: 0, over: false }
    }
}
impl<'a> Src for ByteSrc<'a> {
    fn raw(&mut self) -> u32 {
        if self.pos >= self.data.len() {
            self.over = true;
            return 0;
        }
        let mut b = [0u8; 4];
        let n = (self.data.len() - self.pos).min(4);
        b[..n].copy_from_slice(&self.data[self.pos..self.pos + n]);
        self.pos += n;
        // big-endian-ish so the first byte is the most significant: mutating it moves the choice most
        u32::from_be_bytes(b)
    }
    fn used(&self) -> usize {
        self.pos / 4
    }
    fn exhausted(&self) -> bool {
        self.over
    }
}

pub fn fnv1a(s: &[u8]) -> u64 {
    let mut h: u64 = 0xcbf29ce484222325;
    for b in s {
        h ^= *b as u64;
        h = h.wrapping_mul(0x100000001b3);
    }
    h
}
