//! Child-process runner: cases that may abort the process (stack overflow) run in a child of the same binary.

use std::io::{Read, Write};
use std::process::{Command, Stdio};
use std::time::{Duration, Instant};

#[derive(Debug)]
pub struct ChildOut {
    pub code: Option<i32>,
    pub signal: Option<i32>,
    pub stdout: Vec<u8>,
    pub stderr: Vec<u8>,
    pub timed_out: bool,
}

/// Run `current_exe() --child <mode> [args…]` with `input` on stdin.
pub fn run_child(mode: &str, args: &[String], input: &[u8], timeout: Duration) -> std::io::Result<ChildOut> {
    let exe = std::env::current_exe()?;
    let mut ch = Command::new(exe)
        .arg("--child")
        .arg(mode)
        .args(args)
        .stdin(Stdio::piped())
        .stdout(Stdio::piped())
        .stderr(Stdio::piped())
        .spawn()?;
    let mut stdin = ch.stdin.take().unwrap();
    let data = input.to_vec();
    let wt = std::thread::spawn(move || {
        let _ = stdin.write_all(&data);
    });
    let mut so = ch.stdout.take().unwrap();
    let mut se = ch.stderr.take().unwrap();
    let t1 = std::thread::spawn(move || {
        let mut b = vec![];
        let _ = so.read_to_end(&mut b);
        b
    });
    let t2 = std::thread::spawn(move || {
        let mut b = vec![];
        let _ = se.read_to_end(&mut b);
        b
    });
    let t0 = Instant::now();
    let mut timed_out = false;
    let status = loop {
        if let Some(st) = ch.try_wait()? {
            break st;
        }
        if t0.elapsed() > timeout {
            timed_out = true;
            let _ = ch.kill();
            break ch.wait()?;
        }
        std::thread::sleep(Duration::from_millis(2));
    };
    let _ = wt.join();
    let stdout = t1.join().unwrap_or_default();
    let stderr = t2.join().unwrap_or_default();
    #[cfg(unix)]
    let signal = {
        use std::os::unix::process::ExitStatusExt;
        status.signal()
    };
    #[cfg(not(unix))]
    let signal = None;
    Ok(ChildOut { code: status.code(), signal, stdout, stderr, timed_out })
}
