//! Run context: tiers, seeds, evidence accounting, known-finding attribution, replay files and the
//! proptest driver that feeds choice vectors to the interpreters.

use crate::src::{fnv1a, Src, VecSrc};
use proptest::strategy::{Strategy, ValueTree};
use proptest::test_runner::{Config, RngSeed, TestCaseError, TestError, TestRunner};
use serde_json::{json, Map, Value};
use std::cell::RefCell;
use std::collections::{BTreeMap, BTreeSet, HashSet};
use std::path::{Path, PathBuf};
use std::time::Instant;

#[derive(Clone, Copy, PartialEq, Eq, Debug)]
pub enum Tier {
    Quick,
    Thorough,
}
impl Tier {
    pub fn name(self) -> &'static str {
        match self {
            Tier::Quick => "quick",
            Tier::Thorough => "thorough",
        }
    }
    /// pick a bound by tier
    pub fn pick<T>(self, quick: T, thorough: T) -> T {
        match self {
            Tier::Quick => quick,
            Tier::Thorough => thorough,
        }
    }
}

#[derive(Clone, Debug)]
pub enum Verdict {
    Pass,
    /// outside the property's domain (counted, never a pass or a failure)
    Discard(String),
    /// deviates from the specification answer exactly as the listed OPEN known findings predict
    Known(Vec<String>),
    Fail(String),
}

#[derive(Clone, Debug)]
pub struct Case {
    pub verdict: Verdict,
    pub nontrivial: bool,
    pub classes: Vec<String>,
    /// human-readable rendering of the case (also the distinctness key)
    pub text: String,
}
impl Case {
    pub fn pass(text: impl Into<String>) -> Self {
        Case { verdict: Verdict::Pass, nontrivial: false, classes: vec![], text: text.into() }
    }
    pub fn discard(reason: impl Into<String>) -> Self {
        Case { verdict: Verdict::Discard(reason.into()), nontrivial: false, classes: vec![], text: String::new() }
    }
    pub fn fail(text: impl Into<String>, why: impl Into<String>) -> Self {
        Case { verdict: Verdict::Fail(why.into()), nontrivial: true, classes: vec![], text: text.into() }
    }
    pub fn known(text: impl Into<String>, ids: Vec<String>) -> Self {
        Case { verdict: Verdict::Known(ids), nontrivial: true, classes: vec![], text: text.into() }
    }
    pub fn nontrivial(mut self, b: bool) -> Self {
        self.nontrivial = b;
        self
    }
    pub fn class(mut self, c: impl Into<String>) -> Self {
        self.classes.push(c.into());
        self
    }
    pub fn class_if(mut self, b: bool, c: &str) -> Self {
        if b {
            self.classes.push(c.to_string());
        }
        self
    }
    pub fn is_fail(&self) -> bool {
        matches!(self.verdict, Verdict::Fail(_))
    }
}

#[derive(Clone, Debug)]
pub struct Finding {
    pub id: String,
    pub property: String,
    pub status: String,
    pub what: String,
}

pub struct Ctx {
    pub id: String,
    pub tier: Tier,
    pub seed: u64,
    pub level: String,
    pub rule: String,
    pub assumptions: Vec<String>,
    pub exhaustive: Option<bool>,
    pub notes: Map<String, Value>,
    root: PathBuf,
    start: Instant,
    evaluations: u64,
    discards: BTreeMap<String, u64>,
    nontrivial_keys: HashSet<u64>,
    classes: BTreeMap<String, u64>,
    samples: Vec<Value>,
    sample_classes: BTreeSet<String>,
    excluded: BTreeMap<String, u64>,
    violations: Vec<(String, String)>, // (replay path, why)
    findings: Vec<Finding>,
    known_seen: BTreeMap<String, u64>,
    floors: Vec<(String, u64)>,
    pub replay: Option<PathBuf>,
    inconclusive: Vec<String>,
    streams: Vec<Value>,
}

pub fn verif_root() -> PathBuf {
    std::env::var("VERIF_ROOT").map(PathBuf::from).unwrap_or_else(|_| PathBuf::from("/verif"))
}

impl Ctx {
    pub fn new(id: &str, tier: Tier, level: &str) -> Ctx {
        let seed = std::env::var("VERIF_SEED").ok().and_then(|s| s.trim().parse::<i64>().ok()).unwrap_or(0) as u64;
        let root = verif_root();
        let mut findings = vec![];
        if let Ok(txt) = std::fs::read_to_string(root.join("known_findings.json")) {
            if let Ok(v) = serde_json::from_str::<Value>(&txt) {
                for f in v["findings"].as_array().cloned().unwrap_or_default() {
                    findings.push(Finding {
                        id: f["id"].as_str().unwrap_or("").to_string(),
                        property: f["property"].as_str().unwrap_or("").to_string(),
                        status: f["status"].as_str().unwrap_or("").to_string(),
                        what: f["what"].as_str().unwrap_or("").to_string(),
                    });
                }
            } else {
                eprintln!("known_findings.json does not parse");
                std::process::exit(2);
            }
        }
        Ctx {
            id: id.to_string(),
            tier,
            seed,
            level: level.to_string(),
            rule: String::new(),
            assumptions: vec![],
            exhaustive: None,
            notes: Map::new(),
            root,
            start: Instant::now(),
            evaluations: 0,
            discards: BTreeMap::new(),
            nontrivial_keys: HashSet::new(),
            classes: BTreeMap::new(),
            samples: vec![],
            sample_classes: BTreeSet::new(),
            excluded: BTreeMap::new(),
            violations: vec![],
            findings,
            known_seen: BTreeMap::new(),
            floors: vec![],
            replay: None,
            inconclusive: vec![],
            streams: vec![],
        }
    }

    /// Is this finding listed as OPEN (then its quirk is part of the accepted behaviour and its construct is
    /// excluded from the main search)? `fixed` or unlisted findings contribute nothing.
    pub fn open(&self, fid: &str) -> bool {
        self.findings.iter().any(|f| f.id == fid && f.status == "open")
    }
    pub fn excluded(&mut self, fid: &str) {
        *self.excluded.entry(fid.to_string()).or_insert(0) += 1;
    }
    pub fn floor(&mut self, class: &str, min: u64) {
        self.floors.push((class.to_string(), min));
    }
    pub fn assume(&mut self, s: &str) {
        self.assumptions.push(s.to_string());
    }
    pub fn note(&mut self, k: &str, v: Value) {
        self.notes.insert(k.to_string(), v);
    }
    pub fn inconclusive(&mut self, why: impl Into<String>) {
        self.inconclusive.push(why.into());
    }
    pub fn violations(&self) -> usize {
        self.violations.len()
    }
    pub fn evaluations(&self) -> u64 {
        self.evaluations
    }
    pub fn stream_seed(&self, stream: &str) -> u64 {
        self.seed ^ fnv1a(format!("{}/{}", self.id, stream).as_bytes())
    }

    /// account one executed case; returns true if it is a failure
    pub fn record(&mut self, c: &Case) -> bool {
        match &c.verdict {
            Verdict::Discard(r) => {
                *self.discards.entry(r.clone()).or_insert(0) += 1;
                return false;
            }
            Verdict::Known(ids) => {
                for i in ids {
                    *self.known_seen.entry(i.clone()).or_insert(0) += 1;
                }
            }
            _ => {}
        }
        self.evaluations += 1;
        if c.nontrivial {
            self.nontrivial_keys.insert(fnv1a(c.text.as_bytes()));
        }
        let mut fresh_class = false;
        for cl in &c.classes {
            *self.classes.entry(cl.clone()).or_insert(0) += 1;
            if self.sample_classes.insert(cl.clone()) {
                fresh_class = true;
            }
        }
        let want = self.samples.len() < 3 && c.nontrivial || (fresh_class && self.samples.len() < 12);
        if want {
            let mut t = c.text.clone();
            if t.len() > 1500 {
                let mut cut = 1500;
                while !t.is_char_boundary(cut) {
                    cut -= 1;
                }
                t.truncate(cut);
                t.push_str(" …[truncated]");
            }
            self.samples.push(json!({"case": t, "classes": c.classes, "verdict": match &c.verdict {
                Verdict::Pass => "pass".to_string(), Verdict::Known(i) => format!("known:{}", i.join(",")),
                Verdict::Fail(w) => format!("FAIL: {}", w), Verdict::Discard(_) => "discard".into() }}));
        }
        c.is_fail()
    }

    /// Write a replay file and print the VIOLATION line.
    pub fn violation(&mut self, stream: &str, choices: Option<&[u32]>, c: &Case, extra: Value) {
        let why = match &c.verdict {
            Verdict::Fail(w) => w.clone(),
            _ => String::from("?"),
        };
        let h = fnv1a(format!("{}{}{:?}", stream, c.text, choices).as_bytes());
        let dir = self.root.join("replays");
        let _ = std::fs::create_dir_all(&dir);
        let path = dir.join(format!("{}-{}-{:016x}.json", self.id, stream, h));
        let v = json!({
            "property": self.id, "stream": stream, "tier": self.tier.name(), "seed": self.seed,
            "choices": choices, "rendered": c.text, "why": why, "extra": extra,
        });
        let _ = std::fs::write(&path, serde_json::to_string_pretty(&v).unwrap());
        println!("VIOLATION property={} replay={}", self.id, path.display());
        println!("  stream={} why={}", stream, truncate(&why, 2000));
        println!("  case={}", truncate(&c.text, 2000));
        self.violations.push((path.display().to_string(), why));
    }

    /// Run an explicit (hand-written or enumerated) case through the accounting; failing cases are saved with
    /// `extra` as the replay payload.
    pub fn check_case(&mut self, stream: &str, c: Case, extra: Value) -> bool {
        let failed = self.record(&c);
        if failed {
            self.violation(stream, None, &c, extra);
        }
        failed
    }

    /// proptest-driven stream: `cases` choice vectors of up to `max_len` draws, interpreted by `f`.
    /// Corpus vectors under corpus/<ID>/<stream>/*.json are replayed first.
    pub fn stream<F>(&mut self, stream: &str, cases: u32, max_len: usize, f: F)
    where
        F: Fn(&mut dyn Src) -> Case,
    {
        // replay mode: only the requested stream, only the saved vector
        if let Some(rp) = self.replay.clone() {
            let v: Value = match std::fs::read_to_string(&rp).ok().and_then(|t| serde_json::from_str(&t).ok()) {
                Some(v) => v,
                None => {
                    eprintln!("cannot read replay file {}", rp.display());
                    std::process::exit(2);
                }
            };
            if v["stream"].as_str() != Some(stream) {
                return;
            }
            if let Some(ch) = v["choices"].as_array() {
                let choices: Vec<u32> = ch.iter().map(|x| x.as_u64().unwrap_or(0) as u32).collect();
                let c = run_guarded(&f, &choices);
                println!("replay stream={} verdict={:?}\n case={}", stream, c.verdict, truncate(&c.text, 4000));
                if self.record(&c) {
                    self.violation(stream, Some(&choices), &c, Value::Null);
                }
            }
            return;
        }
        let t0 = Instant::now();
        let before = self.evaluations;
        // committed corpus / regression vectors
        let cdir = self.root.join("corpus").join(&self.id).join(stream);
        if let Ok(rd) = std::fs::read_dir(&cdir) {
            let mut files: Vec<_> = rd.filter_map(|e| e.ok()).map(|e| e.path()).collect();
            files.sort();
            for p in files {
                if let Some(v) = std::fs::read_to_string(&p).ok().and_then(|t| serde_json::from_str::<Value>(&t).ok()) {
                    if let Some(ch) = v["choices"].as_array() {
                        let choices: Vec<u32> = ch.iter().map(|x| x.as_u64().unwrap_or(0) as u32).collect();
                        let c = run_guarded(&f, &choices);
                        if self.record(&c) {
                            self.violation(stream, Some(&choices), &c, json!({"corpus": p.display().to_string()}));
                            return;
                        }
                    }
                }
            }
        }
        let mut cfg = Config::default();
        cfg.cases = cases;
        cfg.failure_persistence = None;
        cfg.rng_seed = RngSeed::Fixed(self.stream_seed(stream));
        cfg.max_shrink_iters = 4000;
        cfg.max_shrink_time = 0;
        cfg.verbose = 0;
        cfg.max_global_rejects = cases.saturating_mul(20).max(1000);
        let mut runner = TestRunner::new(cfg);
        // vector length varies (proptest sizes it); the interpreter pads with zeros when it runs out
        let strat = proptest::collection::vec(proptest::num::u32::ANY, 0..=max_len);
        let state = RefCell::new((&mut *self, false));
        let res = runner.run(&strat, |choices| {
            let c = run_guarded(&f, &choices);
            let mut st = state.borrow_mut();
            if st.1 {
                // shrinking: no accounting
                return if c.is_fail() { Err(TestCaseError::fail("fail")) } else { Ok(()) };
            }
            if let Verdict::Discard(r) = &c.verdict {
                let r = r.clone();
                st.0.record(&c);
                return Err(TestCaseError::reject(r));
            }
            if st.0.record(&c) {
                st.1 = true;
                return Err(TestCaseError::fail("fail"));
            }
            Ok(())
        });
        drop(state);
        match res {
            Ok(()) => {}
            Err(TestError::Fail(_, choices)) => {
                let c = run_guarded(&f, &choices);
                // trim trailing zeros / unused draws for readability
                let mut used = {
                    let mut s = VecSrc::new(&choices);
                    let _ = catch(|| f(&mut s));
                    s.used()
                };
                used = used.min(choices.len());
                let c2 = run_guarded(&f, &choices[..used]);
                if c2.is_fail() {
                    self.violation(stream, Some(&choices[..used]), &c2, Value::Null);
                } else if c.is_fail() {
                    self.violation(stream, Some(&choices), &c, Value::Null);
                } else {
                    // flaky under re-execution: report as inconclusive, never as a violation
                    self.inconclusive(format!("stream {}: failure did not reproduce on re-execution", stream));
                }
            }
            Err(TestError::Abort(r)) => {
                self.inconclusive(format!("stream {}: proptest aborted: {}", stream, r));
            }
        }
        self.streams.push(json!({"stream": stream, "driver": "proptest", "requested_cases": cases,
            "evaluated": self.evaluations - before, "max_choice_len": max_len,
            "wall_s": t0.elapsed().as_secs_f64()}));
    }

    /// Generate `n` random choice vectors with proptest's RNG (no shrinking) — used by enumerators that go
    /// "random beyond the exhaustive bound".
    pub fn random_vectors(&self, stream: &str, n: usize, len: usize) -> Vec<Vec<u32>> {
        let mut cfg = Config::default();
        cfg.failure_persistence = None;
        cfg.rng_seed = RngSeed::Fixed(self.stream_seed(stream));
        let mut runner = TestRunner::new(cfg);
        let strat = proptest::collection::vec(proptest::num::u32::ANY, len..=len);
        (0..n).map(|_| strat.new_tree(&mut runner).unwrap().current()).collect()
    }

    pub fn enumerated(&mut self, stream: &str, evaluated: u64, complete: bool, t0: Instant) {
        self.streams.push(json!({"stream": stream, "driver": "enumerator", "evaluated": evaluated,
            "complete": complete, "wall_s": t0.elapsed().as_secs_f64()}));
    }

    /// Attribute to known findings observed outside `record` (e.g. by probes).
    pub fn saw_known(&mut self, fid: &str) {
        *self.known_seen.entry(fid.to_string()).or_insert(0) += 1;
    }

    pub fn finish(mut self) -> ! {
        // known-finding lines: one per OPEN finding of this property that this run reproduced
        let mine: Vec<Finding> = self.findings.iter().filter(|f| f.property == self.id).cloned().collect();
        let mut not_reproduced = vec![];
        for f in &mine {
            if f.status == "open" {
                if self.known_seen.contains_key(&f.id) {
                    println!("KNOWN-FINDING: property={} {}: {}", self.id, f.id, f.what);
                } else if self.replay.is_none() {
                    not_reproduced.push(f.id.clone());
                }
            }
        }
        // a finding id that was attributed but is not open is a violation by definition (should not happen:
        // the oracles consult `open()`); make it loud
        let stray: Vec<String> = self
            .known_seen
            .keys()
            .filter(|k| !mine.iter().any(|f| &f.id == *k && f.status == "open"))
            .cloned()
            .collect();
        for s in &stray {
            let c = Case::fail(format!("finding {} attributed but not listed as open", s), "stray known finding");
            self.violation("known-findings", None, &c, Value::Null);
        }
        let mut degenerate = vec![];
        if self.replay.is_none() {
            for (cl, min) in &self.floors {
                let n = self.classes.get(cl).copied().unwrap_or(0);
                if n < *min {
                    degenerate.push(format!("class {} has {} cases, floor {}", cl, n, min));
                }
            }
        }
        let wall = self.start.elapsed().as_secs_f64();
        let mut cov = Map::new();
        cov.insert("evaluations".into(), json!(self.evaluations));
        cov.insert("distinct_nontrivial".into(), json!(self.nontrivial_keys.len()));
        cov.insert("rule".into(), json!(self.rule));
        cov.insert("samples".into(), Value::Array(self.samples.clone()));
        if let Some(e) = self.exhaustive {
            cov.insert("exhaustive".into(), json!(e));
        }
        cov.insert("classes".into(), json!(self.classes));
        cov.insert("discarded".into(), json!(self.discards));
        cov.insert("excluded_by_construction".into(), json!(self.excluded));
        cov.insert("streams".into(), Value::Array(self.streams.clone()));
        for (k, v) in &self.notes {
            cov.insert(k.clone(), v.clone());
        }
        let ev = json!({
            "property_id": self.id, "tier": self.tier.name(), "seed": self.seed as i64, "level": self.level,
            "coverage": Value::Object(cov), "assumptions": self.assumptions, "wall_s": wall,
            "violations": self.violations.len(),
            "violation_replays": self.violations.iter().map(|v| v.0.clone()).collect::<Vec<_>>(),
            "known_findings_seen": self.known_seen,
            "known_findings_not_reproduced": not_reproduced,
            "inconclusive": self.inconclusive, "generator_degenerate": degenerate,
        });
        if self.replay.is_none() {
            let dir = self.root.join("evidence");
            let _ = std::fs::create_dir_all(&dir);
            let p = dir.join(format!("{}.json", self.id));
            if let Err(e) = std::fs::write(&p, serde_json::to_string_pretty(&ev).unwrap() + "\n") {
                eprintln!("cannot write evidence {}: {}", p.display(), e);
            }
        }
        println!(
            "{} {} seed={} evaluations={} distinct_nontrivial={} violations={} known={:?} wall={:.1}s",
            self.id,
            self.tier.name(),
            self.seed,
            self.evaluations,
            self.nontrivial_keys.len(),
            self.violations.len(),
            self.known_seen.keys().collect::<Vec<_>>(),
            wall
        );
        if !self.violations.is_empty() {
            std::process::exit(1);
        }
        if !self.inconclusive.is_empty() || !degenerate.is_empty() {
            for i in self.inconclusive.iter().chain(degenerate.iter()) {
                println!("INCONCLUSIVE: {}", i);
            }
            std::process::exit(2);
        }
        std::process::exit(0);
    }
}

pub fn truncate(s: &str, n: usize) -> String {
    if s.len() <= n {
        return s.to_string();
    }
    let mut cut = n;
    while !s.is_char_boundary(cut) {
        cut -= 1;
    }
    format!("{}…", &s[..cut])
}

thread_local! {
    static LAST_PANIC: RefCell<Option<String>> = RefCell::new(None);
}

/// Install a panic hook that records message + location (quietly) for `catch`.
pub fn install_panic_hook() {
    std::panic::set_hook(Box::new(|info| {
        let msg = if let Some(s) = info.payload().downcast_ref::<&str>() {
            s.to_string()
        } else if let Some(s) = info.payload().downcast_ref::<String>() {
            s.clone()
        } else {
            "<non-string panic>".to_string()
        };
        let loc = info.location().map(|l| format!("{}:{}", l.file(), l.line())).unwrap_or_default();
        LAST_PANIC.with(|p| *p.borrow_mut() = Some(format!("{} @ {}", msg, loc)));
    }));
}

/// catch_unwind returning the recorded panic text
pub fn catch<T>(f: impl FnOnce() -> T) -> Result<T, String> {
    match std::panic::catch_unwind(std::panic::AssertUnwindSafe(f)) {
        Ok(v) => Ok(v),
        Err(_) => Err(LAST_PANIC.with(|p| p.borrow_mut().take()).unwrap_or_else(|| "panic".into())),
    }
}

fn run_guarded<F: Fn(&mut dyn Src) -> Case>(f: &F, choices: &[u32]) -> Case {
    let mut s = VecSrc::new(choices);
    match catch(|| f(&mut s)) {
        Ok(c) => c,
        Err(p) => Case::fail(format!("choices={:?}", choices), format!("panic in case: {}", p)),
    }
}

pub fn parse_cli() -> (String, Tier, Option<PathBuf>) {
    let args: Vec<String> = std::env::args().collect();
    if args.len() < 3 {
        eprintln!("usage: vcheck <ID> <quick|thorough> [--replay file]");
        std::process::exit(2);
    }
    let tier = match args[2].as_str() {
        "quick" => Tier::Quick,
        "thorough" => Tier::Thorough,
        _ => {
            eprintln!("tier must be quick|thorough");
            std::process::exit(2)
        }
    };
    let mut replay = None;
    let mut i = 3;
    while i < args.len() {
        if args[i] == "--replay" && i + 1 < args.len() {
            replay = Some(PathBuf::from(&args[i + 1]));
            i += 1;
        }
        i += 1;
    }
    (args[1].clone(), tier, replay)
}

pub fn read_json(p: &Path) -> Option<Value> {
    std::fs::read_to_string(p).ok().and_then(|t| serde_json::from_str(&t).ok())
}
