//! C11 — request checking work is polynomial in the document size.
//!
//! Observation: the `verif-hooks` work counter (`async_graphql::verif_hooks::WORK`: one unit per selection visited
//! by the validation visitors, by the recursion-depth / directive-limit walkers and by the field-conflict search)
//! read after `Schema::execute` of a request that is rejected by a limit or trivially executed.
//! Oracle: (a) WORK <= 64 * size^2 (size = document bytes); (b) doubling a family parameter multiplies WORK by at
//! most 8. Parsing has no counter: its wall time is recorded as a note, never judged.
use crate::execcmp::*;
use async_graphql::verif_hooks::WORK;
use indexmap::IndexMap;
use std::sync::atomic::Ordering;
use std::time::Instant;
use vcore::{Case, Ctx};
use vgql::ast::*;
use vgql::coerce::CV;
use vgql::gensch::*;
use vgql::gentyped::*;
use vgql::measures::{inlined_selections, written_selections};
use vgql::print::print_plain;
use vgql::sch::Sch;
use vgql::world::*;
use vschemas::dynbuild::build_dynamic;
use vschemas::rt::Rt;
use vschemas::z::{build_z, z_sch};

mod d {
    use async_graphql::*;
    pub struct NoOp;
    impl CustomDirective for NoOp {}
    /// repeatable no-op field directive (long directive lists need a repeatable directive to be valid)
    #[Directive(location = "Field", repeatable)]
    pub fn noop() -> impl CustomDirective {
        NoOp
    }
}

#[derive(Clone, Copy, Debug)]
struct Limits {
    depth: usize,
    complexity: usize,
    nesting: usize,
    directives: usize,
}

/// what one execution cost
struct Obs {
    work: u64,
    errors: Vec<String>,
    wall_ns: u128,
}

const LIMIT_MESSAGES: [&str; 4] = ["Query is too complex.", "Query is nested too deep.", "The recursion depth of the query cannot be greater than", "The number of directives on the field"];

impl Obs {
    /// rejected by a limit, or executed (field errors of the execution carry a path; request errors do not)
    fn limit_or_executed(&self) -> bool {
        self.errors.is_empty() || self.errors.iter().all(|e| LIMIT_MESSAGES.iter().any(|m| e.starts_with(m)))
    }
}

/// schema P of the adversarial families (dynamic): self-referential object, a field with 256 arguments, a list argument
fn p_sch() -> Sch {
    let args: Vec<String> = (0..256).map(|i| format!("a{}: Int", i)).collect();
    let sdl = format!("type Query {{ n: Int m: Int s: String q: Query qs: [Query] f({}): Int l(xs: [Int]): Int }}", args.join(", "));
    vgql::sch::from_sdl_text(&sdl).expect("schema P")
}

fn p_world() -> World {
    let mut fields = IndexMap::new();
    fields.insert("n".to_string(), WVal::Int(1));
    fields.insert("m".to_string(), WVal::Int(2));
    fields.insert("s".to_string(), WVal::Str("s".into()));
    fields.insert("q".to_string(), WVal::Ref(0));
    fields.insert("qs".to_string(), WVal::List(vec![WVal::Ref(0)]));
    fields.insert("f".to_string(), WVal::Int(3));
    fields.insert("l".to_string(), WVal::Int(4));
    World { nodes: vec![Node { ty: "Query".into(), fields }], query_root: 0, ..World::default() }
}

fn measure_work<F: std::future::Future<Output = async_graphql::Response>>(f: F) -> Obs {
    WORK.store(0, Ordering::SeqCst);
    let t0 = Instant::now();
    let resp = vcore::det::block_on(f);
    let wall_ns = t0.elapsed().as_nanos();
    let work = WORK.load(Ordering::SeqCst);
    // request-level errors have no path
    Obs { work, errors: resp.errors.iter().filter(|e| e.path.is_empty()).map(|e| e.message.clone()).collect(), wall_ns }
}

fn exec_dynamic(sch: &Sch, world: &World, text: &str, vars: &IndexMap<String, CV>, op: Option<&str>, l: Limits) -> Result<Obs, String> {
    let rt = Rt::new(world.clone());
    rt.logging.store(false, Ordering::Relaxed);
    let schema = build_dynamic(sch, &rt, |b| b.limit_depth(l.depth).limit_complexity(l.complexity).limit_recursive_depth(l.nesting).limit_directives(l.directives)).map_err(|e| format!("HARNESS: schema does not build: {}", e))?;
    Ok(measure_work(schema.execute(request(text, vars, op))))
}

fn exec_z(world: &World, text: &str, vars: &IndexMap<String, CV>, op: Option<&str>, l: Limits) -> Obs {
    let schema = build_z(|b| b.directive(d::noop).limit_depth(l.depth).limit_complexity(l.complexity).limit_recursive_depth(l.nesting).limit_directives(l.directives));
    let rt = Rt::new(world.clone());
    rt.logging.store(false, Ordering::Relaxed);
    measure_work(schema.execute(request(text, vars, op).data(rt)))
}

/// One measured document.
struct Sample {
    p: usize,
    size: u64,
    work: u64,
    /// selections met when every operation is written out inline (what a walker without memory visits)
    inlined: u64,
    spreads: u64,
}

fn bound(size: u64) -> u64 {
    64u64.saturating_mul(size).saturating_mul(size)
}

/// (a) and (b) over the values `w` of a ladder p, 2p, 4p, ...
fn within_spec(samples: &[Sample], w: &dyn Fn(&Sample) -> u64) -> Result<(), String> {
    for s in samples {
        if w(s) > bound(s.size) {
            return Err(format!("p={}: {} units of checking work for {} bytes exceed 64*size^2 = {}", s.p, w(s), s.size, bound(s.size)));
        }
    }
    for pair in samples.windows(2) {
        let (a, b) = (&pair[0], &pair[1]);
        if b.p == 2 * a.p && w(b) > 8 * w(a).max(1) {
            return Err(format!("doubling the parameter {} -> {} multiplies the checking work {} -> {} (x{:.1} > 8)", a.p, b.p, w(a), w(b), w(b) as f64 / w(a).max(1) as f64));
        }
    }
    Ok(())
}

/// Known-findings protocol. The quirks: C11-F1 = `check_recursive_depth` and `check_max_directives` follow every
/// spread (each costs exactly the inlined selection count); C11-F2 = the inline-mode validation visitors do the
/// same (once for the three of them). What remains after subtracting the work predicted by the open quirks must meet
/// the specification.
fn judge(ctx_open: (bool, bool), rendered: String, samples: &[Sample]) -> Case {
    match within_spec(samples, &|s| s.work) {
        Ok(()) => Case::pass(rendered),
        Err(why) => {
            let factor = if ctx_open.0 { 2 } else { 0 } + if ctx_open.1 { 1 } else { 0 };
            if factor == 0 {
                return Case::fail(rendered, why);
            }
            if let Some(s) = samples.iter().find(|s| s.work < factor * s.inlined) {
                return Case::fail(rendered, format!("{}; and the open findings predict at least {} units at p={}, observed {}", why, factor * s.inlined, s.p, s.work));
            }
            match within_spec(samples, &|s| s.work - factor * s.inlined) {
                Ok(()) => {
                    let mut ids = vec![];
                    if ctx_open.0 {
                        ids.push("C11-F1".to_string());
                    }
                    if ctx_open.1 {
                        ids.push("C11-F2".to_string());
                    }
                    Case::known(rendered, ids)
                }
                Err(rest) => Case::fail(rendered, format!("{}; not explained by the open findings: after subtracting {} x inlined selections: {}", why, factor, rest)),
            }
        }
    }
}

#[derive(Clone, Copy, Debug, PartialEq)]
enum Family {
    WideAliases,
    DeepInline,
    DeepFields,
    ManyOperations,
    ManyFragments,
    FragmentTriangle,
    LongDirectives,
    LargeArguments,
    FanOutTwoLevels,
    /// k spreads per level, p levels: the construct of C11-F1 / C11-F2
    FanOutChain,
}
const POLY_FAMILIES: [Family; 9] = [
    Family::WideAliases,
    Family::DeepInline,
    Family::DeepFields,
    Family::ManyOperations,
    Family::ManyFragments,
    Family::FragmentTriangle,
    Family::LongDirectives,
    Family::LargeArguments,
    Family::FanOutTwoLevels,
];

impl Family {
    /// largest parameter used (deep families stay within 64 levels)
    fn cap(self) -> usize {
        match self {
            Family::DeepInline | Family::DeepFields => 64,
            Family::LargeArguments | Family::FanOutTwoLevels => 256,
            Family::FanOutChain => 20,
            _ => 1024,
        }
    }
    fn on_z(self) -> bool {
        self == Family::LongDirectives
    }
}

#[derive(Clone, Copy, Debug)]
struct Knobs {
    /// width: fields per level / repetitions / spreads per level
    w: usize,
    variant: usize,
}

/// (document, operation name)
fn family_doc(f: Family, p: usize, k: Knobs) -> (String, Option<String>) {
    let mut t = String::new();
    let w = k.w.max(1);
    match f {
        Family::WideAliases => {
            t.push('{');
            for i in 0..p {
                match k.variant % 3 {
                    // many aliases of the same field, with sub-selections
                    0 => t.push_str(&format!(" a{}: q {{ n m }}", i)),
                    // the same response key over and over (merged by the executor)
                    1 => t.push_str(" q { n q { m } }"),
                    _ => t.push_str(&format!(" a{}: q {{ n }} q {{ b{}: n }}", i % w, i)),
                }
            }
            t.push_str(" }");
        }
        Family::DeepInline => {
            t.push('{');
            for i in 0..p {
                t.push_str(if k.variant % 2 == 0 { " ... on Query {" } else { " ... {" });
                for j in 0..w {
                    t.push_str(&format!(" x{}_{}: n", i, j));
                }
            }
            t.push_str(" m");
            for _ in 0..p {
                t.push_str(" }");
            }
            t.push_str(" }");
        }
        Family::DeepFields => {
            t.push('{');
            for i in 0..p {
                if k.variant % 2 == 0 {
                    t.push_str(" q {");
                } else {
                    t.push_str(&format!(" a{}: q {{", i));
                }
                for j in 0..w {
                    t.push_str(&format!(" x{}: n", j));
                }
            }
            t.push_str(" m");
            for _ in 0..p {
                t.push_str(" }");
            }
            t.push_str(" }");
        }
        Family::ManyOperations => {
            for i in 0..p {
                t.push_str(&format!("query Q{} {{ n q {{ m }} }}\n", i));
            }
            return (t, Some(format!("Q{}", k.variant % p)));
        }
        Family::ManyFragments => {
            t.push('{');
            for i in 0..p {
                for _ in 0..w {
                    t.push_str(&format!(" ...F{}", i));
                }
            }
            t.push_str(" }\n");
            for i in 0..p {
                t.push_str(&format!("fragment F{} on Query {{ n q {{ m }} }}\n", i));
            }
        }
        Family::FragmentTriangle => {
            // the operation spreads every fragment, every fragment spreads the next one: p^2/2 selections inline
            t.push('{');
            for i in 0..p {
                t.push_str(&format!(" ...F{}", i));
            }
            t.push_str(" }\n");
            for i in 0..p {
                if i + 1 < p {
                    t.push_str(&format!("fragment F{} on Query {{ n ...F{} }}\n", i, i + 1));
                } else {
                    t.push_str(&format!("fragment F{} on Query {{ n }}\n", i));
                }
            }
        }
        Family::LongDirectives => {
            // schema Z
            t.push('{');
            for j in 0..w {
                t.push_str(&format!(" d{}: n", j));
                for _ in 0..p {
                    t.push_str(" @noop");
                }
            }
            t.push_str(" }");
        }
        Family::LargeArguments => {
            t.push_str("{ f(");
            for i in 0..p.min(256) {
                t.push_str(&format!("a{}: {} ", i, i));
            }
            t.push_str(") l(xs: [");
            for i in 0..p * w {
                t.push_str(&format!("{} ", i));
            }
            t.push_str("]) }");
        }
        Family::FanOutTwoLevels => {
            t.push('{');
            for _ in 0..p {
                t.push_str(" ...A");
            }
            t.push_str(" }\nfragment A on Query {");
            for _ in 0..p {
                t.push_str(" ...B");
            }
            t.push_str(" }\nfragment B on Query { n }\n");
        }
        Family::FanOutChain => {
            let spreads = w.max(2);
            t.push_str("{ ...F0 }\n");
            for i in 0..p {
                t.push_str(&format!("fragment F{} on Query {{", i));
                if i + 1 < p {
                    for j in 0..spreads {
                        // where the j-th spread sits: variant 0 all at the fragment's top level; 1 / 2 every other one
                        // inside an inline fragment / a field (shallow, deeper, shallow, deeper); 3 each one level
                        // deeper than the one before; 4 each one level shallower
                        let (wraps, open, close) = match k.variant % 5 {
                            0 => (0, "", ""),
                            1 => (j % 2, " ... on Query {", " }"),
                            2 => (j % 2, " q {", " }"),
                            3 => (j, " ... {", " }"),
                            _ => (spreads - 1 - j, " ... {", " }"),
                        };
                        for _ in 0..wraps {
                            t.push_str(open);
                        }
                        t.push_str(&format!(" ...F{}", i + 1));
                        for _ in 0..wraps {
                            t.push_str(close);
                        }
                    }
                } else {
                    t.push_str(" n");
                }
                t.push_str(" }\n");
            }
        }
    }
    (t, None)
}

struct Env {
    psch: Sch,
    pworld: World,
    zworld: World,
}

fn count_spreads(doc: &Doc) -> u64 {
    fn go(s: &SelSet) -> u64 {
        s.items
            .iter()
            .map(|i| match i {
                Selection::Field(f) => go(&f.sel),
                Selection::Inline(i) => go(&i.sel),
                Selection::Spread(_) => 1,
            })
            .sum()
    }
    doc.defs
        .iter()
        .map(|d| match d {
            Def::Op(o) => go(&o.sel),
            Def::Frag(f) => go(&f.sel),
        })
        .sum()
}

/// secondary evidence, never judged: per family the parse time per byte and the execute time per unit of work
#[derive(Default)]
struct Timing {
    /// family -> (bytes, parse ns, work of rejected requests, their execute ns)
    sums: IndexMap<String, (u64, u128, u64, u128)>,
    /// while set: one row per measured document (the fixed ladders)
    keep_rows: bool,
    rows: Vec<serde_json::Value>,
}

fn sample(env: &Env, f: Family, p: usize, k: Knobs, l: Limits, timing: &std::cell::RefCell<Timing>) -> Result<Sample, String> {
    let (text, op) = family_doc(f, p, k);
    let doc = vgql::refparse::parse_executable(&text, &vgql::refparse::Opts::default()).map_err(|e| format!("HARNESS: family document does not parse: {}", e.msg))?;
    let t0 = Instant::now();
    let parsed = async_graphql_parser::parse_query(&text);
    let parse_ns = t0.elapsed().as_nanos();
    if parsed.is_err() {
        return Err("HARNESS: family document rejected by the parser".into());
    }
    let none = IndexMap::new();
    let obs = if f.on_z() { exec_z(&env.zworld, &text, &none, op.as_deref(), l) } else { exec_dynamic(&env.psch, &env.pworld, &text, &none, op.as_deref(), l)? };
    if !obs.limit_or_executed() {
        return Err(format!("HARNESS: family document is not valid: {:?}", obs.errors.iter().take(2).collect::<Vec<_>>()));
    }
    {
        let mut t = timing.borrow_mut();
        let e = t.sums.entry(format!("{:?}", f)).or_default();
        // execute time only of rejected requests: it then is the time of the checks alone
        let (w, ns) = if obs.errors.is_empty() { (0, 0) } else { (obs.work, obs.wall_ns) };
        *e = (e.0 + text.len() as u64, e.1 + parse_ns, e.2 + w, e.3 + ns);
        if t.keep_rows && k.variant == 0 {
            t.rows.push(serde_json::json!({"family": format!("{:?}", f), "p": p, "spreads_per_level": k.w, "bytes": text.len(), "parse_us": parse_ns as f64 / 1000.0, "work": obs.work,
                "execute_us": obs.wall_ns as f64 / 1000.0, "rejected": !obs.errors.is_empty()}));
        }
    }
    let inlined: u64 = doc.ops().map(|o| inlined_selections(&doc, &o.sel)).fold(0u64, |a, b| a.saturating_add(b));
    Ok(Sample { p, size: text.len() as u64, work: obs.work, inlined, spreads: count_spreads(&doc) })
}

fn ladder_case(env: &Env, open: (bool, bool), f: Family, ps: &[usize], k: Knobs, l: Limits, timing: &std::cell::RefCell<Timing>) -> Case {
    let mut samples = vec![];
    for p in ps {
        match sample(env, f, *p, k, l, timing) {
            Ok(s) => samples.push(s),
            Err(e) => return Case::fail(format!("family={:?} p={} {:?} {:?}", f, p, k, l), e),
        }
    }
    let head = family_doc(f, ps[0], k).0;
    let rendered = format!(
        "family={:?} {:?} {:?}\n(p, bytes, work, inlined selections) = {:?}\nfirst document: {}",
        f,
        k,
        l,
        samples.iter().map(|s| (s.p, s.size, s.work, s.inlined)).collect::<Vec<_>>(),
        vcore::drive::truncate(&head, 400)
    );
    let last = samples.last().unwrap();
    let nontrivial = last.size >= 512 && last.spreads >= 2;
    judge(open, rendered, &samples).nontrivial(nontrivial).class(format!("family-{:?}", f)).class_if(last.size >= 4096, "document>=4KiB")
}

pub fn run(ctx: &mut Ctx) {
    ctx.rule = "requests that are rejected by a limit or trivially executed, on schemas with depth, complexity, recursion and directive limits configured: (1) random valid typed \
                documents on static schema Z and on random dynamic schemas; (2) parameterised adversarial families (wide aliases / repeated response keys, deep inline fragments <= 64, \
                deep fields <= 64, many operations, many fragments, fragment triangle, long directive lists, large argument lists, two-level fragment fan-out) at p, 2p, 4p with \
                random width / variant / limits; the verif-hooks work counter is read after Schema::execute; WORK <= 64*bytes^2 and doubling p multiplies WORK by <= 8. \
                Non-trivial = document >= 512 bytes with >= 2 fragment spreads; distinct by rendered case"
        .into();
    ctx.assume("work = the verif-hooks counter (selections visited by validation visitors, by check_recursive_depth / check_max_directives and by the field-conflict search); parsing and the rules' own bookkeeping have no counter: parse time per byte and execute time per unit of work are recorded as notes and never judged");
    ctx.assume("family parameters are capped (fan-out chains at 2^20 inlined selections) so that an exponential member costs well below a second");
    ctx.assume("the bound 64*size^2 and the factor 8 per doubling are DESIGN's reading of 'polynomial'; a family with a fixed number (>= 3) of fan-out levels and growing width is polynomial of that degree and is treated as the fan-out construct");

    let zschema = build_z(|b| b);
    let zsch = z_sch(&zschema);
    let env = Env { psch: p_sch(), pworld: p_world(), zworld: gen_world(&zsch, &mut vcore::src::VecSrc::new(&[]), &WorldCfg::default()) };
    let open = (ctx.open("C11-F1"), ctx.open("C11-F2"));
    let timing = std::cell::RefCell::new(Timing::default());
    let generous = Limits { depth: 100, complexity: 50, nesting: 300, directives: 5000 };

    // the fixed ladders (5 sizes per family): evidence that does not depend on the seed
    timing.borrow_mut().keep_rows = true;
    let t0 = Instant::now();
    let mut count = 0;
    for f in POLY_FAMILIES {
        let top = f.cap();
        let ps: Vec<usize> = (0..5).rev().map(|i| top >> i).collect();
        for variant in 0..3 {
            let c = ladder_case(&env, open, f, &ps, Knobs { w: 1 + variant, variant }, generous, &timing);
            count += 1;
            ctx.check_case("ladders", c, serde_json::json!({"family": format!("{:?}", f), "variant": variant}));
        }
    }
    ctx.enumerated("ladders", count, true, t0);

    // the fan-out chains: k spreads per level, n levels. With C11-F1 / C11-F2 open they are excluded from the
    // other streams by construction and probed here (the work beyond the specification must be exactly what the
    // open quirks predict); with both closed the same ladders are judged by the specification alone.
    if open.0 {
        ctx.excluded("C11-F1");
    }
    if open.1 {
        ctx.excluded("C11-F2");
    }
    let t0 = Instant::now();
    let mut count = 0;
    for (k, ns) in [(2usize, vec![3usize, 4, 5, 6, 7, 8, 9, 10]), (3, vec![2, 3, 4, 5, 6]), (4, vec![2, 3, 4, 5])] {
        for n in ns {
            // n -> 2n levels; the witness of the property record is k=2, n=22 (not run: 2^22 selections per walker)
            for variant in 0..5 {
                let c = ladder_case(&env, open, Family::FanOutChain, &[n, 2 * n], Knobs { w: k, variant }, generous, &timing).class("fan-out-chain").class(format!("fan-out-chain-variant-{}", variant));
                count += 1;
                ctx.check_case("fan-out-chains", c, serde_json::json!({"spreads_per_level": k, "levels": n, "variant": variant}));
            }
        }
    }
    ctx.enumerated("fan-out-chains", count, true, t0);
    timing.borrow_mut().keep_rows = false;

    // random members of the polynomial families
    let n_fam = ctx.tier.pick(500, 15_000);
    // upper end of the base parameter of the random family members (quick: documents below ~100 KiB)
    let base_cap = ctx.tier.pick(64, 256);
    ctx.stream("families", n_fam, 16, |s| {
        let f = POLY_FAMILIES[s.choose(POLY_FAMILIES.len())];
        let p0 = 1 + s.choose((f.cap() / 4).min(base_cap));
        let k = Knobs { w: 1 + s.choose(3), variant: s.choose(6) };
        let l = Limits {
            depth: *vcore::gens::pick(s, &[100, 3, 70]),
            complexity: *vcore::gens::pick(s, &[50, 100_000, 1_000]),
            nesting: *vcore::gens::pick(s, &[300, 8, 40]),
            directives: *vcore::gens::pick(s, &[5000, 1, 100]),
        };
        ladder_case(&env, open, f, &[p0, 2 * p0, 4 * p0], k, l, &timing)
    });

    // random valid documents
    let n_rand = ctx.tier.pick(20_000, 600_000);
    let tcfg = TypedCfg { max_depth: 5, max_width: 5, ops: vec![OpKind::Query, OpKind::Mutation], ..TypedCfg::default() };
    ctx.stream("random-documents", n_rand, 900, |s| {
        let on_z = s.bool();
        let sch = if on_z { zsch.clone() } else { gen_sch(s, &SchCfg::default()) };
        let world = if on_z { env.zworld.clone() } else { gen_world(&sch, s, &WorldCfg { null_composite_items: false, ..WorldCfg::default() }) };
        let mut td = gen_typed_doc(&sch, s, &tcfg);
        let text = print_plain(&mut td.doc);
        let l = Limits { depth: 1 + s.choose(8), complexity: 1 + s.choose(60), nesting: 1 + s.choose(16), directives: s.choose(3) };
        let obs = if on_z {
            exec_z(&world, &text, &td.vars, td.op_name.as_deref(), l)
        } else {
            match exec_dynamic(&sch, &world, &text, &td.vars, td.op_name.as_deref(), l) {
                Ok(o) => o,
                Err(e) => return Case::fail(text, e),
            }
        };
        let inlined: u64 = td.doc.ops().map(|o| inlined_selections(&td.doc, &o.sel)).sum();
        let smp = Sample { p: 1, size: text.len() as u64, work: obs.work, inlined, spreads: count_spreads(&td.doc) };
        let rejected = !obs.errors.is_empty();
        let rendered = format!("schema {}\nquery: {}\nvariables: {}\n{:?}\nbytes={} work={} written selections={} inlined selections={}", if on_z { "Z".to_string() } else { show_sch(&sch) }, text, vars_json(&td.vars), l, smp.size, smp.work, written_selections(&td.doc), inlined);
        judge(open, rendered, &[smp])
            .nontrivial(text.len() >= 512 && count_spreads(&td.doc) >= 2)
            .class(if rejected { "rejected" } else { "executed" })
            .class_if(td.stats.named_fragments > 0, "named-fragment")
            .class_if(count_spreads(&td.doc) > td.stats.named_fragments as u64, "fragment-spread-twice")
    });

    let per_family: serde_json::Map<String, serde_json::Value> = timing
        .borrow()
        .sums
        .iter()
        .map(|(k, v)| (k.clone(), serde_json::json!({"bytes": v.0, "parse_ns_per_byte": v.1 as f64 / v.0.max(1) as f64, "work_of_rejected_requests": v.2, "rejected_request_ns_per_work_unit": v.3 as f64 / v.2.max(1) as f64})))
        .collect();
    ctx.note("secondary_timing_wall_clock_not_a_verdict", serde_json::Value::Object(per_family));
    ctx.note("secondary_ladder_rows_wall_clock_not_a_verdict", serde_json::Value::Array(timing.borrow().rows.clone()));
    for f in POLY_FAMILIES {
        ctx.floor(&format!("family-{:?}", f), 15);
    }
    ctx.floor("fan-out-chain", 10);
    ctx.floor("rejected", 500);
    ctx.floor("executed", 200);
    ctx.floor("document>=4KiB", 30);
}
