//! C01 — execution results of derive-built schemas equal the specification's execution algorithm.
use crate::execcmp::*;
use vcore::{Case, Ctx, Src};
use vgql::gentyped::*;
use vgql::print::print_plain;
use vgql::refexec::{execute, Quirks};
use vgql::sch::Sch;
use vgql::world::*;
use vschemas::rt::Rt;
use vschemas::z::{build_z, z_sch, ZSchema};

pub fn classify(mut c: Case, st: &DocStats) -> Case {
    let nontrivial = st.union_cond_in_object + st.interface_cond + st.object_cond > 0 || st.repeated_keys > 0 || st.directive_var > 0;
    c.nontrivial = c.nontrivial || nontrivial;
    c.class_if(st.union_cond_in_object > 0, "union-condition-in-object")
        .class_if(st.interface_cond > 0, "interface-condition")
        .class_if(st.nested_fragments >= 2, "nested-fragments>=2")
        .class_if(st.named_fragments > 0, "named-fragment")
        .class_if(st.directive_var_defaulted > 0, "defaulted-directive-variable")
        .class_if(st.directive_var > 0, "directive-variable")
        .class_if(st.repeated_keys > 0, "repeated-key")
        .class_if(st.vars > 0, "variables")
        .class_if(st.omitted_var_arg_default > 0, "omitted-variable-with-argument-default")
}

pub fn run_one(schema: &ZSchema, sch: &Sch, s: &mut dyn Src, tcfg: &TypedCfg, wcfg: &WorldCfg, quirks: Quirks, known: &[&str]) -> Case {
    let world = gen_world(sch, s, wcfg);
    let mut td = gen_typed_doc(sch, s, tcfg);
    let text = print_plain(&mut td.doc);
    let rendered = format!("world: {}\nquery: {}\nvariables: {}", world.show(), text, vars_json(&td.vars));
    let want = match execute(sch, &td.doc, td.op_name.as_deref(), &td.vars, &world, Quirks::default()) {
        Ok(w) => w,
        Err(e) => return Case::fail(rendered, format!("HARNESS: reference executor rejects a generated request: {:?}", e)),
    };
    let rt = Rt::new(world.clone());
    let resp = vcore::det::block_on(schema.execute(request(&text, &td.vars, td.op_name.as_deref()).data(rt)));
    let non_finite = world.nodes.iter().any(|n| n.fields.values().any(|v| matches!(v, WVal::Float(f) if !f.is_finite())));
    let c = match compare(&want, &resp) {
        Ok(()) => Case::pass(rendered),
        Err(e) => {
            let mut attributed = None;
            if quirks != Quirks::default() {
                if let Ok(w2) = execute(sch, &td.doc, td.op_name.as_deref(), &td.vars, &world, quirks) {
                    if compare(&w2, &resp).is_ok() {
                        attributed = Some(known.iter().map(|k| k.to_string()).collect::<Vec<_>>());
                    }
                }
            }
            match attributed {
                Some(ids) => Case::known(rendered, ids),
                None => Case::fail(rendered, format!("{}; errors reported: {:?}", e, resp.errors.iter().map(|e| format!("{} @{:?}", e.message, e.path)).collect::<Vec<_>>())),
            }
        }
    };
    classify(c, &td.stats).class_if(non_finite, "non-finite-float-in-world")
}

pub fn run(ctx: &mut Ctx) {
    ctx.rule = "static derive-built schema Z (objects, two interfaces, two unions, enum with renamed item, every nullability/list wrapper), data worlds valid for it, \
                type-directed valid documents with variables; response compared with the reference executor (data exactly, errors by path+location). Non-trivial = a fragment \
                with a type condition, a repeated response key, or a variable-driven @skip/@include; distinct by rendered (world, query, variables)".into();
    ctx.assume("the Sch mirror of Z is read back from Z's own SDL by the reference parser (SDL fidelity is C17's subject); documents are valid by construction");
    let schema = build_z(|b| b);
    let sch = z_sch(&schema);
    let n = ctx.tier.pick(40_000, 1_500_000);
    let mut cfg = crate::c02::typed_cfg(ctx, "C01");
    cfg.ops = vec![vgql::ast::OpKind::Query, vgql::ast::OpKind::Query, vgql::ast::OpKind::Mutation];
    let f3 = ctx.open("C01-F3");
    let wcfg = WorldCfg { non_finite_floats: !f3, ..WorldCfg::default() };
    if f3 {
        ctx.excluded("C01-F3");
    }
    ctx.stream("static", n, 700, |s| run_one(&schema, &sch, s, &cfg, &wcfg, Quirks::default(), &[]));
    if f3 {
        let wp = WorldCfg { non_finite_floats: true, ..WorldCfg::default() };
        let q = Quirks { non_finite_float_is_null: true, ..Quirks::default() };
        ctx.stream("probe-non-finite-float", n / 10, 700, |s| run_one(&schema, &sch, s, &cfg, &wp, q, &["C01-F3"]));
    }
    ctx.floor("interface-condition", 50);
    ctx.floor("union-condition-in-object", 20);
    ctx.floor("repeated-key", 50);
}
