//! C03 — a field error nulls only the nearest nullable position and is reported once (fault enumeration).
use crate::execcmp::*;
use std::collections::BTreeSet;
use vcore::{Case, Ctx, Src};
use vgql::ast::OpKind;
use vgql::gensch::*;
use vgql::gentyped::*;
use vgql::print::print_plain;
use vgql::refexec::{execute, show_path, Quirks, RefOut};
use vgql::sch::{Kind, Sch};
use vgql::world::*;
use vschemas::dynbuild::build_dynamic;
use vschemas::rt::Rt;
use vschemas::z::{build_z, z_sch, ZSchema};

enum Flavour<'a> {
    Static(&'a ZSchema),
    Dynamic,
}

fn applicable(sch: &Sch, dynamic: bool, ty: &vgql::ast::Ty, kind: Fault) -> bool {
    match kind {
        Fault::ResolverError => true,
        Fault::Guard => false,
        Fault::InvalidValue => {
            // only where the dynamic API checks values: enums and custom scalars (validators), not inside lists of lists
            dynamic && matches!(sch.kind(ty.base()), Some(Kind::Enum)) || (dynamic && sch.kind(ty.base()) == Some(Kind::Scalar) && !vgql::sch::BUILTIN_SCALARS.contains(&ty.base()))
        }
        Fault::NothingForNonNull => dynamic && ty.is_nn(),
    }
}

fn exec(fl: &Flavour, sch: &Sch, world: &World, text: &str, td: &TypedDoc) -> Result<async_graphql::Response, String> {
    let rt = Rt::new(world.clone());
    match fl {
        Flavour::Static(z) => Ok(vcore::det::block_on(z.execute(request(text, &td.vars, td.op_name.as_deref()).data(rt)))),
        Flavour::Dynamic => {
            let schema = build_dynamic(sch, &rt, |b| b).map_err(|e| format!("HARNESS: schema does not build: {}", e))?;
            Ok(vcore::det::block_on(schema.execute(request(text, &td.vars, td.op_name.as_deref()))))
        }
    }
}

fn fault_class(base: &RefOut, with: &RefOut) -> &'static str {
    // how far did the (first) error propagate?
    match with.errors.first() {
        None => "fault-not-reached",
        Some(e) => {
            if e.nulled.is_empty() && (with.data == Some(serde_json::Value::Null)) {
                "to-root"
            } else if e.nulled == e.path {
                "at-field"
            } else if matches!(e.nulled.last(), Some(vgql::refexec::Seg::Idx(_))) {
                "to-list-item"
            } else {
                let _ = base;
                "to-ancestor"
            }
        }
    }
}

/// One tree (schema, world, document): every single fault position x kind, then fault pairs.
fn tree_case(s: &mut dyn Src, fl: &Flavour, fixed_sch: Option<&Sch>, tcfg: &TypedCfg, counters: &std::cell::RefCell<(u64, u64, BTreeSet<String>)>, pair_budget: usize) -> Case {
    let gen;
    let sch: &Sch = match fixed_sch {
        Some(s) => s,
        None => {
            gen = gen_sch(s, &SchCfg::default());
            &gen
        }
    };
    let dynamic = matches!(fl, Flavour::Dynamic);
    let world = gen_world(sch, s, &WorldCfg { null_composite_items: !dynamic, ..WorldCfg::default() });
    let mut td = gen_typed_doc(sch, s, tcfg);
    let text = print_plain(&mut td.doc);
    let head = format!("{}world: {}\nquery: {}\nvariables: {}", if fixed_sch.is_none() { format!("schema: {}\n", show_sch(sch)) } else { String::new() }, world.show(), text, vars_json(&td.vars));
    let base = match execute(sch, &td.doc, td.op_name.as_deref(), &td.vars, &world, Quirks::default()) {
        Ok(b) => b,
        Err(e) => return Case::fail(head, format!("HARNESS: reference executor rejects a generated request: {:?}", e)),
    };
    // distinct (node, field) positions touched by the fault-free execution
    let mut positions: Vec<(usize, String, vgql::ast::Ty)> = vec![];
    for t in &base.touches {
        // SimpleObject members of Z are data, not resolvers: nothing can fail there
        if fixed_sch.is_some() && !dynamic && vschemas::z::is_plain_data_field(&t.parent_type, &t.field) {
            continue;
        }
        if !positions.iter().any(|(n, f, _)| *n == t.node && *f == t.field) {
            positions.push((t.node, t.field.clone(), t.ty.clone()));
        }
    }
    let kinds = [Fault::ResolverError, Fault::InvalidValue, Fault::NothingForNonNull];
    let mut singles: Vec<(usize, String, Fault)> = vec![];
    for (n, f, ty) in &positions {
        for k in kinds {
            if applicable(sch, dynamic, ty, k) {
                singles.push((*n, f.clone(), k));
            }
        }
    }
    let mut classes: BTreeSet<String> = BTreeSet::new();
    let mut nontrivial = false;
    let mut run_faults = |faults: &[(usize, String, Fault)]| -> Result<(), String> {
        let mut w = world.clone();
        for (n, f, k) in faults {
            w.faults.insert((*n, f.clone()), *k);
        }
        let want = execute(sch, &td.doc, td.op_name.as_deref(), &td.vars, &w, Quirks::default()).map_err(|e| format!("HARNESS: reference executor: {:?}", e))?;
        let resp = exec(fl, sch, &w, &text, &td)?;
        let cls = fault_class(&base, &want);
        classes.insert(format!("{}{}", if faults.len() == 2 { "pair-" } else { "" }, cls));
        if cls != "at-field" && cls != "fault-not-reached" {
            nontrivial = true;
        }
        counters.borrow_mut().0 += 1;
        compare(&want, &resp).map_err(|e| {
            format!(
                "faults {:?}: {}; reported errors: {:?}; expected errors: {:?}",
                faults.iter().map(|(n, f, k)| format!("#{}.{}:{:?}", n, f, k)).collect::<Vec<_>>(),
                e,
                resp.errors.iter().map(|e| format!("{:?}@{:?}", e.path, e.locations)).collect::<Vec<_>>(),
                want.errors.iter().map(|e| format!("{}@{}:{} nulled={}", show_path(&e.path), e.loc.line, e.loc.col, show_path(&e.nulled))).collect::<Vec<_>>()
            )
        })
    };
    for f in &singles {
        if let Err(e) = run_faults(std::slice::from_ref(f)) {
            return Case::fail(head, e);
        }
    }
    // pairs: all for small trees, a generated sample otherwise
    let mut pairs: Vec<(usize, usize)> = vec![];
    if singles.len() <= 12 {
        for i in 0..singles.len() {
            for j in i + 1..singles.len() {
                if (singles[i].0, &singles[i].1) != (singles[j].0, &singles[j].1) {
                    pairs.push((i, j));
                }
            }
        }
    } else {
        for _ in 0..pair_budget {
            let i = s.choose(singles.len());
            let j = s.choose(singles.len());
            if i != j && (singles[i].0, &singles[i].1) != (singles[j].0, &singles[j].1) {
                pairs.push((i.min(j), i.max(j)));
            }
        }
    }
    for (i, j) in pairs {
        counters.borrow_mut().1 += 1;
        if let Err(e) = run_faults(&[singles[i].clone(), singles[j].clone()]) {
            return Case::fail(head, e);
        }
    }
    let mut c = Case::pass(head).nontrivial(nontrivial);
    for cl in classes {
        counters.borrow_mut().2.insert(cl.clone());
        c = c.class(cl);
    }
    c.class(if dynamic { "dynamic" } else { "static" })
}

pub fn run(ctx: &mut Ctx) {
    ctx.rule = "fault enumeration: for each generated (schema, world, valid document) EVERY (node, field) position touched by the fault-free reference execution is failed once per \
                applicable fault kind (resolver error; dynamic: value invalid for enum/custom scalar, nothing for a non-null type), plus all fault pairs for trees with <=12 positions \
                (sampled pairs above); each faulted execution is compared with the reference executor (data exactly; errors by path+location, once). A case = one tree with all its \
                fault runs; non-trivial = some fault propagates beyond its own field (to a list item, an ancestor or the root); distinct by rendered tree".into();
    ctx.assume("guard rejections are not injected (no guarded field in Z); subscription events are C27's subject; where several errors race in a region nulled by propagation the C03 rule of DESIGN section 4 applies (at least one reported, none twice)");
    let trees = ctx.tier.pick(2_000, 40_000);
    let z = build_z(|b| b);
    let zsch = z_sch(&z);
    let mut cfg = crate::c02::typed_cfg(ctx, "C03");
    cfg.ops = vec![OpKind::Query, OpKind::Query, OpKind::Mutation];
    cfg.max_depth = 3;
    // C04-F1 (open): every occurrence of a repeated response key is executed separately, so its errors are
    // reported once per occurrence; repeated keys are C04's subject and excluded here by construction
    if ctx.open("C04-F1") {
        cfg.repeats = false;
        ctx.excluded("C04-F1");
    }
    let counters = std::cell::RefCell::new((0u64, 0u64, BTreeSet::new()));
    ctx.stream("static-Z", trees, 600, |s| tree_case(s, &Flavour::Static(&z), Some(&zsch), &cfg, &counters, 24));
    ctx.stream("dynamic-Z-mirror", trees / 2, 600, |s| tree_case(s, &Flavour::Dynamic, Some(&zsch), &cfg, &counters, 24));
    ctx.stream("dynamic-random", trees, 600, |s| tree_case(s, &Flavour::Dynamic, None, &cfg, &counters, 24));
    let (runs, pairs, _) = counters.borrow().clone();
    ctx.note("fault_executions", serde_json::json!(runs));
    ctx.note("fault_pair_executions", serde_json::json!(pairs));
}
