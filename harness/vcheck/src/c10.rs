//! C10 — depth, complexity, recursion and directive limits are enforced exactly.
//!
//! For every generated valid document the four reference measures (vgql::measures, written from the statement) are
//! computed; the schema is then rebuilt with one limit at measure-1, measure and measure+1, and the request must
//! be rejected before any resolver runs exactly when measure > limit.
use crate::execcmp::*;
use async_graphql::{Response, Variables};
use indexmap::IndexMap;
use std::sync::atomic::{AtomicUsize, Ordering};
use std::sync::Arc;
use vcore::{Case, Ctx, Src};
use vgql::ast::*;
use vgql::coerce::{coerce_variables, CV};
use vgql::gensch::*;
use vgql::gentyped::*;
use vgql::measures::*;
use vgql::print::print_plain;
use vgql::sch::Sch;
use vgql::world::*;
use vschemas::dynbuild::build_dynamic;
use vschemas::rt::Rt;
use vschemas::z::{build_z, z_sch};

/// Derive-built schema K: fields with `#[graphql(complexity = ...)]` rules over arguments and `child_complexity`.
/// Fields of the interface `Node` (id, label) carry no rule on any implementing type, so which rule applies to a
/// field selected on the interface is never in question.
pub mod k {
    use super::*;
    use async_graphql::*;

    pub struct Calls(pub Arc<AtomicUsize>);
    fn hit(ctx: &Context<'_>) {
        if let Ok(c) = ctx.data::<Calls>() {
            c.0.fetch_add(1, Ordering::Relaxed);
        }
    }

    #[derive(Enum, Copy, Clone, Eq, PartialEq)]
    pub enum Size {
        Small,
        Medium,
        Large,
    }

    pub struct Shop(pub i32);
    pub struct Item(pub i32);

    #[derive(Interface)]
    #[graphql(field(name = "id", ty = "i32"), field(name = "label", ty = "Option<String>"))]
    pub enum Node {
        Shop(Shop),
        Item(Item),
    }

    #[derive(Union)]
    pub enum Thing {
        Shop(Shop),
        Item(Item),
    }

    #[Object]
    impl Shop {
        async fn id(&self, ctx: &Context<'_>) -> i32 {
            hit(ctx);
            self.0
        }
        async fn label(&self, ctx: &Context<'_>) -> Option<String> {
            hit(ctx);
            Some(format!("shop{}", self.0))
        }
        #[graphql(complexity = "first.clamp(0, 9) as usize * child_complexity + 1")]
        async fn items(&self, ctx: &Context<'_>, #[graphql(default = 2)] first: i32) -> Vec<Item> {
            hit(ctx);
            let _ = first;
            vec![Item(1)]
        }
        async fn owner(&self, ctx: &Context<'_>) -> Option<Shop> {
            hit(ctx);
            Some(Shop(self.0 + 1))
        }
        #[graphql(complexity = 3)]
        async fn cost(&self, ctx: &Context<'_>) -> i32 {
            hit(ctx);
            3
        }
        #[graphql(complexity = "if on { 5 } else { 1 }")]
        async fn flag(&self, ctx: &Context<'_>, #[graphql(default = false)] on: bool) -> i32 {
            hit(ctx);
            on as i32
        }
        async fn thing(&self, ctx: &Context<'_>) -> Thing {
            hit(ctx);
            Thing::Item(Item(2))
        }
        async fn node(&self, ctx: &Context<'_>) -> Option<Node> {
            hit(ctx);
            Some(Node::Item(Item(3)))
        }
    }

    #[Object]
    impl Item {
        async fn id(&self, ctx: &Context<'_>) -> i32 {
            hit(ctx);
            self.0
        }
        async fn label(&self, ctx: &Context<'_>) -> Option<String> {
            hit(ctx);
            None
        }
        #[graphql(complexity = "match size { Size::Small => 1, Size::Medium => 2, Size::Large => 4 }")]
        async fn price(&self, ctx: &Context<'_>, #[graphql(default_with = "Size::Small")] size: Size) -> f64 {
            hit(ctx);
            let _ = size;
            1.5
        }
        #[graphql(complexity = "(first.clamp(0, 9) as usize + 1) * child_complexity")]
        async fn parts(&self, ctx: &Context<'_>, #[graphql(default = 1)] first: i32) -> Vec<Item> {
            hit(ctx);
            let _ = first;
            vec![Item(self.0 + 1)]
        }
        async fn shop(&self, ctx: &Context<'_>) -> Option<Shop> {
            hit(ctx);
            Some(Shop(7))
        }
        #[graphql(complexity = 2)]
        async fn weight(&self, ctx: &Context<'_>) -> i32 {
            hit(ctx);
            2
        }
        /// the field itself is free, its selection is not
        #[graphql(complexity = "child_complexity")]
        async fn twin(&self, ctx: &Context<'_>) -> Item {
            hit(ctx);
            Item(self.0)
        }
    }

    pub struct Query;
    #[Object]
    impl Query {
        async fn shop(&self, ctx: &Context<'_>, #[graphql(default = 1)] id: i32) -> Option<Shop> {
            hit(ctx);
            Some(Shop(id))
        }
        #[graphql(complexity = "first.clamp(0, 9) as usize * child_complexity + 1")]
        async fn shops(&self, ctx: &Context<'_>, #[graphql(default = 2)] first: i32) -> Vec<Shop> {
            hit(ctx);
            let _ = first;
            vec![Shop(1)]
        }
        #[graphql(complexity = "first.unwrap_or(1).clamp(0, 9) as usize * child_complexity + 2")]
        async fn items(&self, ctx: &Context<'_>, #[graphql(default = 3)] first: Option<i32>) -> Vec<Item> {
            hit(ctx);
            let _ = first;
            vec![Item(1)]
        }
        #[graphql(complexity = "rows.clamp(0, 4) as usize * (cols.clamp(0, 4) as usize * child_complexity + 1) + 1")]
        async fn grid(&self, ctx: &Context<'_>, #[graphql(default = 2)] rows: i32, #[graphql(default = 2)] cols: i32) -> Vec<Vec<Item>> {
            hit(ctx);
            let _ = (rows, cols);
            vec![vec![Item(1)]]
        }
        #[graphql(complexity = "ids.len().min(9) * child_complexity + 1")]
        async fn by_ids(&self, ctx: &Context<'_>, #[graphql(default)] ids: Vec<i32>) -> Vec<Item> {
            hit(ctx);
            ids.iter().take(2).map(|i| Item(*i)).collect()
        }
        /// constant rule on a field with a selection set: the selection does not count
        #[graphql(complexity = 4)]
        async fn flat(&self, ctx: &Context<'_>) -> Shop {
            hit(ctx);
            Shop(4)
        }
        async fn node(&self, ctx: &Context<'_>) -> Option<Node> {
            hit(ctx);
            Some(Node::Shop(Shop(5)))
        }
        async fn nodes(&self, ctx: &Context<'_>) -> Vec<Node> {
            hit(ctx);
            vec![Node::Shop(Shop(5)), Node::Item(Item(6))]
        }
        async fn thing(&self, ctx: &Context<'_>) -> Option<Thing> {
            hit(ctx);
            Some(Thing::Shop(Shop(8)))
        }
        #[graphql(complexity = 0)]
        async fn version(&self, ctx: &Context<'_>) -> String {
            hit(ctx);
            "1".into()
        }
        #[graphql(complexity = 7)]
        async fn heavy(&self, ctx: &Context<'_>) -> i32 {
            hit(ctx);
            7
        }
        async fn n(&self, ctx: &Context<'_>) -> i32 {
            hit(ctx);
            1
        }
    }

    pub type KSchema = Schema<Query, EmptyMutation, EmptySubscription>;
    pub type KBuilder = SchemaBuilder<Query, EmptyMutation, EmptySubscription>;

    pub fn build_k(configure: impl FnOnce(KBuilder) -> KBuilder) -> KSchema {
        configure(Schema::build(Query, EmptyMutation, EmptySubscription).directive(noop).directive(mark)).finish()
    }

    pub struct NoOp;
    impl CustomDirective for NoOp {}

    /// repeatable no-op field directive
    #[Directive(location = "Field", repeatable)]
    pub fn noop() -> impl CustomDirective {
        NoOp
    }
    /// non-repeatable no-op field directive with an argument
    #[Directive(location = "Field")]
    pub fn mark(n: Option<i32>) -> impl CustomDirective {
        let _ = n;
        NoOp
    }
}

fn int(args: &IndexMap<String, CV>, name: &str) -> Option<i64> {
    match args.get(name) {
        Some(CV::Int(i)) => Some(*i),
        _ => None,
    }
}

/// The complexity rules of K, transcribed by hand from the attributes above (the hand-written half of the mirror).
pub fn k_rules(ty: &str, field: &str, args: &IndexMap<String, CV>, child: u64) -> Option<u64> {
    let clamp = |v: i64, hi: i64| v.clamp(0, hi) as u64;
    Some(match (ty, field) {
        ("Shop", "items") | ("Query", "shops") => clamp(int(args, "first")?, 9) * child + 1,
        ("Shop", "cost") => 3,
        ("Shop", "flag") => match args.get("on") {
            Some(CV::Bool(true)) => 5,
            _ => 1,
        },
        ("Item", "price") => match args.get("size") {
            Some(CV::Enum(e)) if e == "MEDIUM" => 2,
            Some(CV::Enum(e)) if e == "LARGE" => 4,
            _ => 1,
        },
        ("Item", "parts") => (clamp(int(args, "first")?, 9) + 1) * child,
        ("Item", "weight") => 2,
        ("Item", "twin") => child,
        // `first: Int = 3`: explicit null reaches the rule as None -> 1
        ("Query", "items") => clamp(int(args, "first").unwrap_or(1), 9) * child + 2,
        ("Query", "grid") => clamp(int(args, "rows")?, 4) * (clamp(int(args, "cols")?, 4) * child + 1) + 1,
        ("Query", "byIds") => match args.get("ids") {
            Some(CV::List(l)) => (l.len() as u64).min(9) * child + 1,
            _ => return None,
        },
        ("Query", "flat") => 4,
        ("Query", "version") => 0,
        ("Query", "heavy") => 7,
        _ => return None,
    })
}

/// the fields of K whose rule reads (all of) the field's arguments
const RULES_READING_ARGUMENTS: [(&str, &str); 8] = [("Query", "byIds"), ("Shop", "items"), ("Shop", "flag"), ("Item", "price"), ("Item", "parts"), ("Query", "shops"), ("Query", "items"), ("Query", "grid")];

#[derive(Clone, Copy, Debug, PartialEq)]
pub enum Lim {
    Depth(usize),
    Complexity(usize),
    Nesting(usize),
    Directives(usize),
}

pub struct Outcome {
    pub errors: Vec<String>,
    /// resolvers that started
    pub started: usize,
}
impl Outcome {
    /// "rejected before any resolver runs"
    fn rejected(&self) -> bool {
        !self.errors.is_empty() && self.started == 0
    }
}

fn outcome(resp: &Response, started: usize) -> Outcome {
    Outcome { errors: resp.errors.iter().map(|e| e.message.clone()).collect(), started }
}

#[derive(Clone, Copy, PartialEq)]
enum Which {
    Depth,
    Complexity,
    Nesting,
    Directives,
}

/// The limits to try for one measure and what the statement demands for each: (limit, must be rejected).
/// Between `lo` and `hi` (only different when `__typename` occurs) the answer is not specified.
fn plan(which: Which, m: &Measures) -> Vec<(Lim, bool)> {
    let (lo, hi) = match which {
        Which::Depth => (m.depth.lo, m.depth.hi),
        Which::Complexity => (m.complexity.lo, m.complexity.hi),
        Which::Nesting => (m.nesting, m.nesting),
        Which::Directives => (m.field_directives, m.field_directives),
    };
    let mk = |v: u64| match which {
        Which::Depth => Lim::Depth(v as usize),
        Which::Complexity => Lim::Complexity(v as usize),
        Which::Nesting => Lim::Nesting(v as usize),
        Which::Directives => Lim::Directives(v as usize),
    };
    let mut out = vec![];
    if lo >= 1 {
        out.push((mk(lo - 1), true));
    }
    out.push((mk(hi), false));
    out.push((mk(hi + 1), false));
    out
}

/// Run the plan; Err = first deviation from the statement.
fn enforce(which: &[Which], m: &Measures, safety_only: bool, run: &dyn Fn(Lim) -> Outcome) -> Result<(), String> {
    for w in which {
        for (lim, must_reject) in plan(*w, m) {
            if safety_only && !must_reject {
                continue;
            }
            let o = run(lim);
            if must_reject && !o.rejected() {
                return Err(format!("limit {:?} is below the measure but the request was not rejected before execution: {} resolver(s) started, errors {:?}", lim, o.started, o.errors));
            }
            if !must_reject && o.rejected() {
                return Err(format!("limit {:?} is not exceeded but the request was rejected: {:?}", lim, o.errors));
            }
        }
    }
    Ok(())
}

fn show_m(m: &Measures) -> String {
    let iv = |i: &Interval| if i.lo == i.hi { i.lo.to_string() } else { format!("{}..={}", i.lo, i.hi) };
    format!("depth={} complexity={} nesting={} field-directives={}", iv(&m.depth), iv(&m.complexity), m.nesting, m.field_directives)
}

fn classify(c: Case, m: &Measures, st: &DocStats) -> Case {
    c.nontrivial(m.depth_via_fragment || m.custom_rules > 0)
        .class_if(m.depth_via_named, "deepest-field-in-named-fragment")
        .class_if(m.depth_via_fragment && !m.depth_via_named, "deepest-field-in-inline-fragment")
        .class_if(m.custom_rules > 0, "custom-rule")
        .class_if(m.custom_rules_in_named > 0, "custom-rule-in-named-fragment")
        .class_if(m.custom_rules_var_arg > 0, "custom-rule-variable-argument")
        .class_if(m.custom_rules_default_arg > 0, "custom-rule-default-argument")
        .class_if(m.nesting_via_named, "nesting-through-named-fragment")
        .class_if(m.field_directives > 0 && m.field_directives_in_named, "most-directives-in-named-fragment")
        .class_if(m.field_directives >= 3, "field-directives>=3")
        .class_if(st.vars_omitted > 0, "omitted-variable")
        .class_if(st.repeated_keys > 0, "repeated-key")
        .class_if(st.reused_fragments > 0, "fragment-spread-in-several-places")
}

fn to_variables(vars: &IndexMap<String, CV>) -> Variables {
    Variables::from_json(vars_json(vars))
}

/// documents for the depth / complexity / nesting streams
fn doc_cfg(ctx: &Ctx, ops: Vec<OpKind>) -> TypedCfg {
    TypedCfg {
        typename: false,
        // the statement is silent on whether selections removed by @skip/@include count: none are generated
        directives: false,
        omitted_var_with_arg_default: !ctx.open("C10-F1"),
        ops,
        ..TypedCfg::default()
    }
}

/// Add directives to fields (and to fragments, where they must not count): `vocab` = (name, repeatable, has arg).
fn decorate(doc: &mut Doc, s: &mut dyn Src, custom: bool) {
    fn dirs(s: &mut dyn Src, custom: bool, on_field: bool) -> Vec<Directive> {
        let mut out: Vec<Directive> = vec![];
        let k = s.weighted(&[6, 3, 2, 1, 1, 1]);
        for _ in 0..k {
            let pick = if custom && on_field { s.choose(4) } else { s.choose(2) };
            let d = match pick {
                0 => Directive::new("skip", vec![("if", Val::Bool(false))]),
                1 => Directive::new("include", vec![("if", Val::Bool(true))]),
                2 => Directive::new("noop", vec![]),
                _ => {
                    if s.bool() {
                        Directive::new("mark", vec![("n", Val::Int(s.choose(5).to_string()))])
                    } else {
                        Directive::new("mark", vec![])
                    }
                }
            };
            // only @noop is repeatable
            if d.name.s != "noop" && out.iter().any(|x| x.name.s == d.name.s) {
                if custom && on_field {
                    out.push(Directive::new("noop", vec![]));
                }
                continue;
            }
            out.push(d);
        }
        out
    }
    fn sel(set: &mut SelSet, s: &mut dyn Src, custom: bool) {
        for it in &mut set.items {
            match it {
                Selection::Field(f) => {
                    f.directives = dirs(s, custom, true);
                    sel(&mut f.sel, s, custom);
                }
                Selection::Inline(i) => {
                    i.directives = dirs(s, custom, false);
                    sel(&mut i.sel, s, custom);
                }
                Selection::Spread(sp) => sp.directives = dirs(s, custom, false),
            }
        }
    }
    for d in &mut doc.defs {
        match d {
            Def::Op(o) => sel(&mut o.sel, s, custom),
            Def::Frag(f) => sel(&mut f.sel, s, custom),
        }
    }
}

/// Two single-operation documents as one document with operations A and B (fragments of the second renamed).
fn merge(a: &TypedDoc, b: &TypedDoc) -> Doc {
    fn rename(set: &mut SelSet) {
        for it in &mut set.items {
            match it {
                Selection::Field(f) => rename(&mut f.sel),
                Selection::Inline(i) => rename(&mut i.sel),
                Selection::Spread(sp) => sp.name.s.push('b'),
            }
        }
    }
    let mut out = Doc::default();
    for (i, src) in [a, b].into_iter().enumerate() {
        for d in &src.doc.defs {
            let mut d = d.clone();
            match &mut d {
                Def::Op(o) => {
                    o.explicit = true;
                    o.name = Some(Name::new(if i == 0 { "A" } else { "B" }));
                    if i == 1 {
                        rename(&mut o.sel);
                    }
                }
                Def::Frag(f) => {
                    if i == 1 {
                        f.name.s.push('b');
                        rename(&mut f.sel);
                    }
                }
            }
            out.defs.push(d);
        }
    }
    out
}

/// Remove the generator's `__typename` fallbacks (and whatever becomes empty or unused by that), so that the
/// measures are exact. false = nothing is left of the operation.
fn strip_typename(td: &mut TypedDoc) -> bool {
    fn prune(set: &mut SelSet, dead: &[String]) {
        set.items.retain_mut(|it| match it {
            Selection::Field(f) => {
                if f.name.s == "__typename" {
                    return false;
                }
                let composite = !f.sel.items.is_empty();
                prune(&mut f.sel, dead);
                !composite || !f.sel.items.is_empty()
            }
            Selection::Inline(i) => {
                prune(&mut i.sel, dead);
                !i.sel.items.is_empty()
            }
            Selection::Spread(sp) => !dead.contains(&sp.name.s),
        });
    }
    fn spreads(set: &SelSet, out: &mut Vec<String>) {
        for it in &set.items {
            match it {
                Selection::Field(f) => spreads(&f.sel, out),
                Selection::Inline(i) => spreads(&i.sel, out),
                Selection::Spread(sp) => out.push(sp.name.s.clone()),
            }
        }
    }
    let mut dead: Vec<String> = vec![];
    loop {
        let before = dead.len();
        for d in &mut td.doc.defs {
            match d {
                Def::Op(o) => prune(&mut o.sel, &dead),
                Def::Frag(f) => {
                    prune(&mut f.sel, &dead);
                    if f.sel.items.is_empty() && !dead.contains(&f.name.s) {
                        dead.push(f.name.s.clone());
                    }
                }
            }
        }
        if dead.len() == before {
            break;
        }
    }
    // keep the fragments that are still reachable from the operation
    let mut reach: Vec<String> = vec![];
    let mut todo: Vec<String> = vec![];
    if let Some(o) = td.doc.ops().next() {
        if o.sel.items.is_empty() {
            return false;
        }
        spreads(&o.sel, &mut todo);
    }
    while let Some(n) = todo.pop() {
        if !reach.contains(&n) {
            if let Some(f) = td.doc.frag(&n) {
                spreads(&f.sel, &mut todo);
            }
            reach.push(n);
        }
    }
    td.doc.defs.retain(|d| match d {
        Def::Op(_) => true,
        Def::Frag(f) => reach.contains(&f.name.s),
    });
    // and the variables that are still used
    let text = format!("{:?}", td.doc.defs.iter().map(|d| match d { Def::Op(o) => &o.sel, Def::Frag(f) => &f.sel }).collect::<Vec<_>>());
    let vars = &mut td.vars;
    for d in &mut td.doc.defs {
        if let Def::Op(o) = d {
            o.vars.retain(|v| {
                let used = text.contains(&format!("Var(\"{}\")", v.name.s));
                if !used {
                    vars.shift_remove(&v.name.s);
                }
                used
            });
        }
    }
    true
}

struct Prepared {
    text: String,
    vars: IndexMap<String, CV>,
    op_name: Option<String>,
    m: Measures,
}

/// print, coerce the variables of the executed operation, measure it
fn prepare(sch: &Sch, doc: &mut Doc, vars: &IndexMap<String, CV>, op_name: Option<&str>, rules: Rules<'_>) -> Result<Prepared, String> {
    let text = print_plain(doc);
    let op = vgql::refexec::select_operation(doc, op_name).map_err(|e| format!("{:?}", e))?;
    let coerced = coerce_variables(sch, op, vars).map_err(|e| format!("variables: {}", e.msg))?;
    let m = measure(sch, doc, op, &coerced, rules).map_err(|e| format!("arguments: {}", e.msg))?;
    Ok(Prepared { text, vars: vars.clone(), op_name: op_name.map(|s| s.to_string()), m })
}

fn run_k(p: &Prepared, lim: Lim) -> Outcome {
    let schema = k::build_k(|b| match lim {
        Lim::Depth(n) => b.limit_depth(n),
        Lim::Complexity(n) => b.limit_complexity(n),
        Lim::Nesting(n) => b.limit_recursive_depth(n),
        Lim::Directives(n) => b.limit_directives(n),
    });
    let calls = Arc::new(AtomicUsize::new(0));
    let mut req = async_graphql::Request::new(&p.text).variables(to_variables(&p.vars)).data(k::Calls(calls.clone()));
    if let Some(n) = &p.op_name {
        req = req.operation_name(n);
    }
    let resp = vcore::det::block_on(schema.execute(req));
    outcome(&resp, calls.load(Ordering::Relaxed))
}

fn run_z(p: &Prepared, world: &World, lim: Lim) -> Outcome {
    let schema = build_z(|b| {
        let b = b.directive(k::noop).directive(k::mark);
        match lim {
            Lim::Depth(n) => b.limit_depth(n),
            Lim::Complexity(n) => b.limit_complexity(n),
            Lim::Nesting(n) => b.limit_recursive_depth(n),
            Lim::Directives(n) => b.limit_directives(n),
        }
    });
    let rt = Rt::new(world.clone());
    let resp = vcore::det::block_on(schema.execute(request(&p.text, &p.vars, p.op_name.as_deref()).data(rt.clone())));
    let started = rt.take_log().iter().filter(|e| matches!(e, vschemas::rt::Ev::Start { .. })).count();
    outcome(&resp, started)
}

fn run_dyn(p: &Prepared, sch: &Sch, world: &World, lim: Lim) -> Result<Outcome, String> {
    let rt = Rt::new(world.clone());
    let schema = build_dynamic(sch, &rt, |b| match lim {
        Lim::Depth(n) => b.limit_depth(n),
        Lim::Complexity(n) => b.limit_complexity(n),
        Lim::Nesting(n) => b.limit_recursive_depth(n),
        Lim::Directives(n) => b.limit_directives(n),
    })
    .map_err(|e| format!("HARNESS: generated schema does not build: {}", e))?;
    let resp = vcore::det::block_on(schema.execute(request(&p.text, &p.vars, p.op_name.as_deref())));
    let started = rt.take_log().iter().filter(|e| matches!(e, vschemas::rt::Ev::Start { .. })).count();
    Ok(outcome(&resp, started))
}

const ALL3: [Which; 3] = [Which::Depth, Which::Complexity, Which::Nesting];

fn verdict(rendered: String, r: Result<(), String>) -> Case {
    match r {
        Ok(()) => Case::pass(rendered),
        Err(why) => Case::fail(rendered, why),
    }
}

/// C10-F1: a complexity rule reads an argument bound to a variable that the request omits and that has no default
/// of its own: instead of the argument's default value the rule gets an error, and the request is rejected under
/// every complexity limit (and without one). True when the operation contains such a field.
fn f1_applies(doc: &Doc, op: &OpDef, sch: &Sch, vars: &IndexMap<String, CV>) -> bool {
    fn go(doc: &Doc, sch: &Sch, set: &SelSet, parent: &str, omitted: &[String], depth: usize) -> bool {
        set.items.iter().any(|it| match it {
            Selection::Field(f) => {
                let fd = match sch.field(parent, &f.name.s) {
                    Some(fd) => fd,
                    None => return false,
                };
                (RULES_READING_ARGUMENTS.contains(&(parent, f.name.s.as_str())) && f.args.iter().any(|(_, v)| matches!(&v.v, Val::Var(n) if omitted.contains(n)))) || go(doc, sch, &f.sel, fd.ty.base(), omitted, depth)
            }
            Selection::Inline(i) => go(doc, sch, &i.sel, i.cond.as_ref().map(|c| c.s.as_str()).unwrap_or(parent), omitted, depth),
            Selection::Spread(sp) => depth < 16 && doc.frag(&sp.name.s).map_or(false, |fr| go(doc, sch, &fr.sel, &fr.cond.s, omitted, depth + 1)),
        })
    }
    let omitted: Vec<String> = op.vars.iter().filter(|v| v.default.is_none() && !vars.contains_key(&v.name.s)).map(|v| v.name.s.clone()).collect();
    !omitted.is_empty() && go(doc, sch, &op.sel, sch.root(op.kind).unwrap_or(""), &omitted, 0)
}


/// Documents over K built around fragments that are spread in several places at different depths and spread
/// each other (F_i may spread F_j only for j > i, so no cycles): text, parsed by the reference parser.
fn gen_reuse_text(s: &mut dyn Src) -> String {
    fn body(s: &mut dyn Src, ty: &str, depth: usize, from: usize, conds: &[&str], out: &mut String) {
        let n = 1 + s.choose(3);
        for _ in 0..n {
            let k = s.weighted(&[3, 3, 4, 1]);
            let spreadable: Vec<usize> = (from..conds.len()).filter(|j| conds[*j] == ty).collect();
            match k {
                1 if depth > 0 => {
                    let (name, sub) = if ty == "Item" { [("twin", "Item"), ("parts", "Item"), ("shop", "Shop")][s.choose(3)] } else { [("items", "Item"), ("owner", "Shop")][s.choose(2)] };
                    out.push_str(name);
                    out.push_str(" { ");
                    body(s, sub, depth - 1, from, conds, out);
                    out.push_str("} ");
                }
                2 if !spreadable.is_empty() => out.push_str(&format!("...F{} ", spreadable[s.choose(spreadable.len())])),
                3 if depth > 0 => {
                    out.push_str(if s.bool() { "... { " } else if ty == "Item" { "... on Item { " } else { "... on Shop { " });
                    body(s, ty, depth - 1, from, conds, out);
                    out.push_str("} ");
                }
                _ => out.push_str(if ty == "Item" { ["id ", "weight ", "label "][s.choose(3)] } else { ["id ", "cost ", "label "][s.choose(3)] }),
            }
        }
    }
    let k = 1 + s.choose(4);
    let conds: Vec<&str> = (0..k).map(|_| if s.chance(1, 4) { "Shop" } else { "Item" }).collect();
    let mut text = String::from("{ ");
    let roots = s.choose(3);
    if roots != 1 {
        text.push_str("items { ");
        body(s, "Item", 3, 0, &conds, &mut text);
        text.push_str("} ");
    }
    if roots != 0 {
        text.push_str("shops { ");
        body(s, "Shop", 3, 0, &conds, &mut text);
        text.push_str("} ");
    }
    text.push_str("}");
    for (i, c) in conds.iter().enumerate() {
        text.push_str(&format!(" fragment F{} on {} {{ ", i, c));
        body(s, c, 2, i + 1, &conds, &mut text);
        text.push('}');
    }
    text
}

/// (spreads of fragments in the operation and in reachable fragments, fragments spread from more than one place)
fn spread_stats(doc: &Doc) -> (usize, usize) {
    fn go(set: &SelSet, out: &mut Vec<String>) {
        for i in &set.items {
            match i {
                Selection::Field(f) => go(&f.sel, out),
                Selection::Inline(f) => go(&f.sel, out),
                Selection::Spread(sp) => out.push(sp.name.s.clone()),
            }
        }
    }
    let mut all = vec![];
    for d in &doc.defs {
        match d {
            Def::Op(o) => go(&o.sel, &mut all),
            Def::Frag(f) => go(&f.sel, &mut all),
        }
    }
    let mut names = all.clone();
    names.sort();
    names.dedup();
    let multi = names.iter().filter(|n| all.iter().filter(|m| m == n).count() > 1).count();
    (all.len(), multi)
}

pub fn run(ctx: &mut Ctx) {
    ctx.rule = "valid typed documents (aliases, repeated keys, inline and named fragments on every applicable condition, arguments as literals / variables / defaults) on \
                (a) derive-built schema K whose fields declare complexity rules over arguments and child_complexity, (b) static schema Z, (c) random dynamic schemas; per \
                document the reference depth / complexity / selection nesting / directives-per-field are computed and the schema is rebuilt with ONE limit at measure-1, measure, \
                measure+1; the request must be rejected before any resolver starts exactly when measure > limit. Non-trivial = a deepest field lies inside a fragment, or a \
                declared complexity rule contributes; distinct by rendered (schema, document, variables)"
        .into();
    ctx.assume("`__typename` is not generated (whether it counts as a field is not specified): the generator's `__typename` fallbacks (a union position at the bottom of the depth budget) are removed from the documents together with whatever they leave empty or unused; should one remain, depth and complexity are an interval (it counts / it does not) and only limits outside the interval are asserted");
    ctx.assume("selections removed by @skip/@include: the statement does not say whether they count, so none are generated (the directive streams only use @skip(if:false) / @include(if:true) and no-op custom directives, which remove nothing)");
    ctx.assume("selection nesting: the operation's own selection set is level 0; the selection set of a field, an inline fragment and a fragment spread each open one more level ('fragments as if written inline': a spread counts like the inline fragment it stands for). The statement fixes 'exactly when it exceeds' but not the origin of counting; the origin is taken from the documented default (`limit_recursive_depth`, 32)");
    ctx.assume("directives per field: directives on inline fragments and fragment spreads are not directives on a field and do not count");
    ctx.assume("a field selected on an interface type declares no rule of its own (interfaces cannot declare rules); schema K gives no rule to any implementation of an interface field, so the default rule applies under every reading");
    ctx.assume("multi-operation documents: only the safety direction is asserted (rejected when the executed operation alone exceeds the limit)");
    ctx.assume("'rejected before any resolver runs' is observed as: the response carries errors and no resolver of the harness started; every limit is configured alone, the others keep their defaults (recursive depth 32)");

    let kschema = k::build_k(|b| b);
    let mut ksch = vgql::sch::from_sdl_text(&kschema.sdl()).expect("K's SDL must be readable by the reference parser");
    for b in vgql::sch::BUILTIN_SCALARS {
        ksch.types.shift_remove(b);
    }
    let zschema = build_z(|b| b);
    let zsch = z_sch(&zschema);

    // regression witnesses: complexity rule reached through a named fragment spread at an interface / union position
    // (the parent type inside the fragment is the fragment's type condition: /repo 300d531)
    for (text, want) in [
        ("{ node { ...F } } fragment F on Shop { items(first: 3) { id } }", 5u64),
        ("{ thing { ...F } } fragment F on Item { parts(first: 2) { weight twin { id } } }", 10),
        ("query($n: Int! = 4) { shops(first: $n) { ...F } } fragment F on Node { ... on Shop { cost flag(on: true) } }", 33),
    ] {
        let mut doc = vgql::refparse::parse_executable(text, &vgql::refparse::Opts::default()).expect("witness parses");
        let c = match prepare(&ksch, &mut doc, &IndexMap::new(), None, &k_rules) {
            Err(e) => Case::fail(text, format!("HARNESS: {}", e)),
            Ok(p) if p.m.complexity.lo != want => Case::fail(text, format!("HARNESS: reference complexity {} differs from the hand-computed {}", p.m.complexity.lo, want)),
            Ok(p) => verdict(format!("witness: {} [{}]", text, show_m(&p.m)), enforce(&[Which::Complexity, Which::Depth], &p.m, false, &|l| run_k(&p, l))).nontrivial(true).class("custom-rule-in-named-fragment"),
        };
        ctx.check_case("witness-fragment-rule", c, serde_json::json!({"query": text}));
    }

    let n = ctx.tier.pick(2_500, 75_000);
    let f1 = ctx.open("C10-F1");
    if f1 {
        ctx.excluded("C10-F1");
    }

    // (a) K: custom rules
    let cfg_k = doc_cfg(ctx, vec![OpKind::Query]);
    ctx.stream("static-rules", n, 600, |s| {
        let mut td = gen_typed_doc(&ksch, s, &cfg_k);
        if !strip_typename(&mut td) {
            return Case::discard("nothing but __typename");
        }
        let p = match prepare(&ksch, &mut td.doc, &td.vars, td.op_name.as_deref(), &k_rules) {
            Ok(p) => p,
            Err(e) => return Case::discard(format!("not measurable: {}", e.split(':').next().unwrap_or(""))),
        };
        let rendered = format!("schema K\nquery: {}\nvariables: {}\nreference: {}", p.text, vars_json(&p.vars), show_m(&p.m));
        classify(verdict(rendered, enforce(&ALL3, &p.m, false, &|l| run_k(&p, l))), &p.m, &td.stats)
    });

    // (a') K: fragments spread in several places, at different depths, spreading each other
    ctx.stream("fragment-reuse", n * 2, 400, |s| {
        let text = gen_reuse_text(s);
        let doc = match vgql::refparse::parse_executable(&text, &vgql::refparse::Opts::default()) {
            Ok(d) => d,
            Err(e) => return Case::fail(text, format!("HARNESS: generated text does not parse: {:?}", e)),
        };
        let mut td = TypedDoc { doc, vars: IndexMap::new(), stats: DocStats::default(), op_name: None };
        if !strip_typename(&mut td) {
            return Case::discard("empty");
        }
        let p = match prepare(&ksch, &mut td.doc, &td.vars, None, &k_rules) {
            Ok(p) => p,
            Err(e) => return Case::fail(text, format!("HARNESS: not measurable: {}", e)),
        };
        if p.m.nesting > 30 || p.m.complexity.hi > 1_000_000_000 {
            return Case::discard("beyond the default recursion limit");
        }
        let (spreads, multi) = spread_stats(&td.doc);
        let rendered = format!("schema K\nquery: {}\nreference: {}", p.text, show_m(&p.m));
        classify(verdict(rendered, enforce(&ALL3, &p.m, false, &|l| run_k(&p, l))), &p.m, &td.stats)
            .nontrivial(multi > 0 && p.m.depth_via_named)
            .class_if(multi > 0, "fragment-spread-in-several-places")
            .class_if(spreads >= 4, "spreads>=4")
    });
    if f1 {
        let mut pcfg = cfg_k.clone();
        pcfg.omitted_var_with_arg_default = true;
        let probe = |mut td: TypedDoc| -> Case {
            if !strip_typename(&mut td) {
                return Case::discard("nothing but __typename");
            }
            let p = match prepare(&ksch, &mut td.doc, &td.vars, td.op_name.as_deref(), &k_rules) {
                Ok(p) => p,
                Err(e) => return Case::discard(format!("not measurable: {}", e.split(':').next().unwrap_or(""))),
            };
            let rendered = format!("schema K\nquery: {}\nvariables: {}\nreference: {}", p.text, vars_json(&p.vars), show_m(&p.m));
            let op = td.doc.ops().next().unwrap();
            let applies = f1_applies(&td.doc, op, &ksch, &td.vars);
            let c = match enforce(&ALL3, &p.m, false, &|l| run_k(&p, l)) {
                Ok(()) => Case::pass(rendered),
                Err(why) => {
                    // the quirk: rejected under every limit, with the rule's error about the variable
                    let always = [Lim::Complexity(usize::MAX), Lim::Depth(usize::MAX)].iter().all(|l| {
                        let o = run_k(&p, *l);
                        o.rejected() && o.errors.iter().any(|e| e.starts_with("Variable ") && e.ends_with(" is not defined."))
                    });
                    if applies && always {
                        Case::known(rendered, vec!["C10-F1".into()])
                    } else {
                        Case::fail(rendered, why)
                    }
                }
            };
            classify(c, &p.m, &td.stats).class_if(applies, "rule-argument-bound-to-omitted-variable")
        };
        // the minimised witness
        let text = "query($v0: Int) { items(first: $v0) { id } }";
        let doc = vgql::refparse::parse_executable(text, &vgql::refparse::Opts::default()).expect("witness parses");
        let c = probe(TypedDoc { doc, vars: IndexMap::new(), stats: DocStats::default(), op_name: None });
        ctx.check_case("witness-omitted-variable-in-rule", c, serde_json::json!({"query": text, "variables": {}}));
        ctx.stream("probe-omitted-variable-in-rule", n / 4, 600, |s| probe(gen_typed_doc(&ksch, s, &pcfg)));
    }

    // (b) Z
    let cfg_z = doc_cfg(ctx, vec![OpKind::Query, OpKind::Query, OpKind::Mutation]);
    ctx.stream("static-z", n, 700, |s| {
        let world = gen_world(&zsch, s, &WorldCfg::default());
        let mut td = gen_typed_doc(&zsch, s, &cfg_z);
        if !strip_typename(&mut td) {
            return Case::discard("nothing but __typename");
        }
        let p = match prepare(&zsch, &mut td.doc, &td.vars, td.op_name.as_deref(), &no_rules) {
            Ok(p) => p,
            Err(e) => return Case::discard(format!("not measurable: {}", e.split(':').next().unwrap_or(""))),
        };
        let rendered = format!("schema Z\nquery: {}\nvariables: {}\nreference: {}", p.text, vars_json(&p.vars), show_m(&p.m));
        classify(verdict(rendered, enforce(&ALL3, &p.m, false, &|l| run_z(&p, &world, l))), &p.m, &td.stats)
    });

    // (c) dynamic
    ctx.stream("dynamic", n, 700, |s| {
        let sch = gen_sch(s, &SchCfg::default());
        let world = gen_world(&sch, s, &WorldCfg { null_composite_items: false, ..WorldCfg::default() });
        let mut td = gen_typed_doc(&sch, s, &cfg_z);
        if !strip_typename(&mut td) {
            return Case::discard("nothing but __typename");
        }
        let p = match prepare(&sch, &mut td.doc, &td.vars, td.op_name.as_deref(), &no_rules) {
            Ok(p) => p,
            Err(e) => return Case::discard(format!("not measurable: {}", e.split(':').next().unwrap_or(""))),
        };
        let rendered = format!("schema: {}\nquery: {}\nvariables: {}\nreference: {}", show_sch(&sch), p.text, vars_json(&p.vars), show_m(&p.m));
        let mut build_err = None;
        let r = enforce(&ALL3, &p.m, false, &|l| match run_dyn(&p, &sch, &world, l) {
            Ok(o) => o,
            Err(e) => Outcome { errors: vec![e], started: usize::MAX },
        });
        if let Err(e) = &r {
            if e.contains("HARNESS") {
                build_err = Some(e.clone());
            }
        }
        match build_err {
            Some(e) => Case::fail(rendered, e),
            None => classify(verdict(rendered, r), &p.m, &td.stats).class("dynamic"),
        }
    });

    // directives per field
    ctx.stream("directives-static", n, 700, |s| {
        let use_k = s.bool();
        let (sch, rules): (&Sch, Rules<'_>) = if use_k { (&ksch, &k_rules) } else { (&zsch, &no_rules) };
        let world = if use_k { World::default() } else { gen_world(&zsch, s, &WorldCfg::default()) };
        let mut td = gen_typed_doc(sch, s, &cfg_k);
        if !strip_typename(&mut td) {
            return Case::discard("nothing but __typename");
        }
        decorate(&mut td.doc, s, true);
        let p = match prepare(sch, &mut td.doc, &td.vars, td.op_name.as_deref(), rules) {
            Ok(p) => p,
            Err(e) => return Case::discard(format!("not measurable: {}", e.split(':').next().unwrap_or(""))),
        };
        let rendered = format!("schema {}\nquery: {}\nvariables: {}\nreference: {}", if use_k { "K" } else { "Z" }, p.text, vars_json(&p.vars), show_m(&p.m));
        let r = enforce(&[Which::Directives], &p.m, false, &|l| if use_k { run_k(&p, l) } else { run_z(&p, &world, l) });
        classify(verdict(rendered, r), &p.m, &td.stats).nontrivial(p.m.field_directives > 0).class("directives")
    });
    ctx.stream("directives-dynamic", n / 2, 700, |s| {
        let sch = gen_sch(s, &SchCfg::default());
        let world = gen_world(&sch, s, &WorldCfg { null_composite_items: false, ..WorldCfg::default() });
        let mut td = gen_typed_doc(&sch, s, &cfg_k);
        if !strip_typename(&mut td) {
            return Case::discard("nothing but __typename");
        }
        decorate(&mut td.doc, s, false);
        let p = match prepare(&sch, &mut td.doc, &td.vars, td.op_name.as_deref(), &no_rules) {
            Ok(p) => p,
            Err(e) => return Case::discard(format!("not measurable: {}", e.split(':').next().unwrap_or(""))),
        };
        let rendered = format!("schema: {}\nquery: {}\nvariables: {}\nreference: {}", show_sch(&sch), p.text, vars_json(&p.vars), show_m(&p.m));
        let r = enforce(&[Which::Directives], &p.m, false, &|l| match run_dyn(&p, &sch, &world, l) {
            Ok(o) => o,
            Err(e) => Outcome { errors: vec![e], started: usize::MAX },
        });
        classify(verdict(rendered, r), &p.m, &td.stats).nontrivial(p.m.field_directives > 0).class("directives").class("dynamic")
    });

    // several operations in one document: safety direction only
    ctx.stream("multi-operation", n / 2, 1200, |s| {
        let use_k = s.bool();
        let (sch, rules): (&Sch, Rules<'_>) = if use_k { (&ksch, &k_rules) } else { (&zsch, &no_rules) };
        let world = if use_k { World::default() } else { gen_world(&zsch, s, &WorldCfg::default()) };
        let mut a = gen_typed_doc(sch, s, &cfg_k);
        let mut b = gen_typed_doc(sch, s, &cfg_k);
        if !strip_typename(&mut a) || !strip_typename(&mut b) {
            return Case::discard("nothing but __typename");
        }
        let mut doc = merge(&a, &b);
        let exec_b = s.bool();
        let (vars, name) = if exec_b { (&b.vars, "B") } else { (&a.vars, "A") };
        let p = match prepare(sch, &mut doc, vars, Some(name), rules) {
            Ok(p) => p,
            Err(e) => return Case::discard(format!("not measurable: {}", e.split(':').next().unwrap_or(""))),
        };
        let rendered = format!("schema {}\nquery: {}\noperationName: {}\nvariables: {}\nreference (operation {} alone): {}", if use_k { "K" } else { "Z" }, p.text, name, vars_json(&p.vars), name, show_m(&p.m));
        let r = enforce(&ALL3, &p.m, true, &|l| if use_k { run_k(&p, l) } else { run_z(&p, &world, l) });
        let st = if exec_b { &b.stats } else { &a.stats };
        classify(verdict(rendered, r), &p.m, st).class("multi-operation")
    });

    ctx.floor("custom-rule", 300);
    ctx.floor("custom-rule-in-named-fragment", 30);
    ctx.floor("custom-rule-variable-argument", 30);
    ctx.floor("custom-rule-default-argument", 30);
    ctx.floor("deepest-field-in-named-fragment", 100);
    ctx.floor("deepest-field-in-inline-fragment", 100);
    ctx.floor("field-directives>=3", 50);
    ctx.floor("multi-operation", 100);
    ctx.floor("dynamic", 500);
}
