//! C25 — WebSocket sessions follow the graphql-transport-ws and the legacy subscriptions-transport-ws protocol.
//!
//! `http::WebSocket` is driven with a scripted peer: a client message stream (`vcore::det::Chan`), a fake
//! `Executor` whose `execute_stream` hands out harness-controlled streams, init / ping callbacks that wait on
//! gates, and a manual keep-alive timer. Everything the server does is written to one ordered event log
//! (client message *read* by the server, executor called, init callback result, message sent, stream ended) and
//! a protocol monitor written from the two protocol documents judges that log.
use async_graphql::http::{WebSocket, WebSocketProtocols, WsMessage};
use async_graphql::runtime::Timer;
use async_graphql::{Data, Error, Executor, Request, Response, Value as GValue};
use futures_util::future::BoxFuture;
use futures_util::stream::{BoxStream, Stream};
use serde_json::Value as Json;
use std::collections::{BTreeMap, BTreeSet};
use std::future::Future;
use std::pin::Pin;
use std::sync::{Arc, Mutex};
use std::task::{Context, Poll};
use std::time::{Duration, Instant};
use vcore::det::{Chan, ChanRx, Gates};
use vcore::{json, Case, Ctx, Src};

/// duplicate live id is not closed with 4409 (graphql-transport-ws): the new operation silently replaces the old
const F1: &str = "C25-F1";
/// subscribe before the acknowledgement closes with 1011 instead of 4401 (graphql-transport-ws)
const F2: &str = "C25-F2";
/// an undecodable client message closes with 1002 instead of 4400 (graphql-transport-ws) / connection_error (legacy)
const F3: &str = "C25-F3";

#[derive(Clone, Copy, PartialEq, Eq, Debug)]
enum Proto {
    /// graphql-transport-ws (`Protocols::GraphQLWS`)
    Transport,
    /// subscriptions-transport-ws, sub-protocol name `graphql-ws` (`Protocols::SubscriptionsTransportWS`)
    Legacy,
}
impl Proto {
    fn name(self) -> &'static str {
        match self {
            Proto::Transport => "graphql-transport-ws",
            Proto::Legacy => "subscriptions-transport-ws",
        }
    }
}

const IDS: [&str; 3] = ["a", "b", "c"];

#[derive(Clone, Copy, PartialEq, Eq, Debug)]
enum Sym {
    /// connection_init; the init callback succeeds / fails
    Init(bool),
    /// subscribe (transport) / start (legacy) with id
    Sub(u8),
    /// complete (transport) / stop (legacy) from the client
    Done(u8),
    Ping,
    Pong,
    /// connection_terminate (legacy)
    Terminate,
    /// a message that is not one of the protocol's messages; the variant selects the malformation
    Bad(u8),
    /// every executor stream created for this id that the server still holds yields one response
    Event(u8),
    /// ... ends
    EndStream(u8),
    /// the armed keep-alive delay completes
    Timer,
    /// the oldest waiting init / ping callback is allowed to finish (gated sessions only)
    Release,
    /// the client message stream ends
    ClientEnd,
}

#[derive(Clone, Copy, Debug)]
struct Step {
    sym: Sym,
    /// poll the server until it is pending after this step (false = leave it for a later step)
    poll: bool,
}

const BAD_KINDS: u8 = 7;
fn bad_bytes(kind: u8) -> Vec<u8> {
    match kind {
        0 => b"{\"type\":".to_vec(),                                      // invalid JSON
        1 => b"{\"type\":\"bogus\"}".to_vec(),                            // unknown message type
        2 => b"".to_vec(),
        3 => b"[]".to_vec(),
        4 => b"{\"type\":\"subscribe\",\"payload\":{\"query\":\"x\"}}".to_vec(), // subscribe without id
        5 => vec![0xff, 0xfe, b'{', b'}'],                                // not UTF-8
        _ => b"{\"id\":\"a\"}".to_vec(),                                  // no type
    }
}

fn render_sym(p: Proto, s: Sym) -> String {
    let id = |i: u8| IDS[i as usize];
    match s {
        Sym::Init(true) => "init".into(),
        Sym::Init(false) => "init(callback-fails)".into(),
        Sym::Sub(i) => format!("{}({})", if p == Proto::Transport { "subscribe" } else { "start" }, id(i)),
        Sym::Done(i) => format!("{}({})", if p == Proto::Transport { "complete" } else { "stop" }, id(i)),
        Sym::Ping => "ping".into(),
        Sym::Pong => "pong".into(),
        Sym::Terminate => "connection_terminate".into(),
        Sym::Bad(0) => "invalid-json".into(),
        Sym::Bad(1) => "unknown-type".into(),
        Sym::Bad(k) => format!("bad-message#{}", k),
        Sym::Event(i) => format!("event({})", id(i)),
        Sym::EndStream(i) => format!("end({})", id(i)),
        Sym::Timer => "timer".into(),
        Sym::Release => "release".into(),
        Sym::ClientEnd => "client-end".into(),
    }
}

fn render_script(p: Proto, gated: bool, steps: &[Step]) -> String {
    let body: Vec<String> = steps.iter().map(|s| format!("{}{}", render_sym(p, s.sym), if s.poll { "" } else { "~" })).collect();
    format!("{}{}: {}", p.name(), if gated { " gated-callbacks" } else { "" }, body.join(" "))
}

// ---------------------------------------------------------------------------------------------------------
// event log

#[derive(Clone, Debug, PartialEq)]
enum Msg {
    Init,
    Sub { id: String, token: usize },
    Done { id: String },
    Ping,
    Pong,
    Terminate,
    Bad,
}

#[derive(Clone, Debug)]
enum Ev {
    /// the server took this client message from the client stream
    Read(Msg),
    /// the server saw the end of the client stream
    ReadEnd,
    /// `Executor::execute_stream` called for the subscribe message carrying this token
    Exec(usize),
    /// the init callback finished (true = accepted)
    InitResult(bool),
    Out(WsMessage),
    OutEnd,
}

#[derive(Clone, Default)]
struct Log(Arc<Mutex<Vec<Ev>>>);
impl Log {
    fn push(&self, e: Ev) {
        self.0.lock().unwrap().push(e);
    }
}

// ---------------------------------------------------------------------------------------------------------
// the scripted peer

struct ClientStream {
    rx: ChanRx<(Msg, Vec<u8>)>,
    log: Log,
    ended: bool,
}
impl Stream for ClientStream {
    type Item = Vec<u8>;
    fn poll_next(mut self: Pin<&mut Self>, cx: &mut Context<'_>) -> Poll<Option<Vec<u8>>> {
        if self.ended {
            return Poll::Ready(None);
        }
        match Pin::new(&mut self.rx).poll_next(cx) {
            Poll::Ready(Some((m, bytes))) => {
                self.log.push(Ev::Read(m));
                Poll::Ready(Some(bytes))
            }
            Poll::Ready(None) => {
                self.ended = true;
                self.log.push(Ev::ReadEnd);
                Poll::Ready(None)
            }
            Poll::Pending => Poll::Pending,
        }
    }
}

#[derive(Clone)]
struct FakeExecutor {
    log: Log,
    /// token -> the stream handed to the server
    streams: Arc<Mutex<BTreeMap<usize, Chan<Response>>>>,
}
impl Executor for FakeExecutor {
    #[allow(clippy::manual_async_fn)]
    fn execute(&self, _request: Request) -> impl Future<Output = Response> + Send {
        async { Response::new(GValue::Null) }
    }
    fn execute_stream(&self, request: Request, _session_data: Option<Arc<Data>>) -> BoxStream<'static, Response> {
        let token: usize = request.query.parse().expect("the harness puts the token into the query");
        let chan = Chan::new();
        self.streams.lock().unwrap().insert(token, chan.clone());
        self.log.push(Ev::Exec(token));
        Box::pin(chan.rx())
    }
}

/// manual timer: every `delay()` arms a new generation at once; `fire()` completes the armed one. (The
/// keep-alive timer is re-armed on every client message without being polled, so a `vcore::det::Gates` gate,
/// which registers on first poll, would not exist yet when the script wants to fire it.)
#[derive(Default)]
struct TimerState {
    armed: u64,
    fired: u64,
    waker: Option<std::task::Waker>,
}
#[derive(Clone, Default)]
struct ManualTimer(Arc<Mutex<TimerState>>);
struct Delay {
    timer: ManualTimer,
    generation: u64,
}
impl Timer for ManualTimer {
    fn delay(&self, _: Duration) -> BoxFuture<'static, ()> {
        let mut s = self.0.lock().unwrap();
        s.armed += 1;
        Box::pin(Delay { timer: self.clone(), generation: s.armed })
    }
}
impl Future for Delay {
    type Output = ();
    fn poll(self: Pin<&mut Self>, cx: &mut Context<'_>) -> Poll<()> {
        let mut s = self.timer.0.lock().unwrap();
        if s.fired >= self.generation {
            Poll::Ready(())
        } else {
            s.waker = Some(cx.waker().clone());
            Poll::Pending
        }
    }
}
impl ManualTimer {
    fn fire(&self) -> bool {
        let mut s = self.0.lock().unwrap();
        if s.fired < s.armed {
            s.fired = s.armed;
            if let Some(w) = s.waker.take() {
                drop(s);
                w.wake();
            }
            true
        } else {
            false
        }
    }
}

// ---------------------------------------------------------------------------------------------------------
// protocol monitor (the oracle): graphql-transport-ws PROTOCOL.md and subscriptions-transport-ws PROTOCOL.md,
// restricted to what the property statement asserts.

#[derive(Clone, Copy, PartialEq, Eq, Debug)]
enum IdState {
    /// a subscribe for this token was accepted and neither side has completed it
    Live(usize),
    /// the client completed / stopped it; the server has not said `complete` (it may, once)
    Stopped,
}

#[derive(Clone, Debug)]
enum Obligation {
    /// the next thing the server sends must be Close(spec); an open finding may predict another code
    Close { spec: u16, quirk: Option<(&'static str, u16)>, why: &'static str },
    /// legacy: the next thing the server sends must be a connection_error message
    ConnectionError { quirk: Option<(&'static str, u16)>, why: &'static str },
    /// graphql-transport-ws subscribe for a live id: Close(4409); C25-F1 predicts that the executor is called
    DuplicateId { id: String, token: usize },
}

#[derive(Clone, Copy, Default)]
struct Open {
    f1: bool,
    f2: bool,
    f3: bool,
}

#[derive(Default, Clone)]
struct Stats {
    acks: u32,
    data: u32,
    completes_after_end: u32,
    complete_echo: u32,
    id_reuse: u32,
    closes: Vec<u16>,
    dup_live: u32,
    sub_before_ack: u32,
    bad_msg: u32,
    second_init: u32,
    init_rejected: u32,
    pongs: u32,
    connection_errors: u32,
    terminated: bool,
    client_end_seen: bool,
    max_live: usize,
}

struct Monitor {
    proto: Proto,
    open: Open,
    inits_read: u32,
    init_result: Option<bool>,
    acked: bool,
    /// a Close frame was sent
    closed: bool,
    /// the server saw connection_terminate or the end of the client stream: the socket is gone
    peer_gone: bool,
    ids: BTreeMap<String, IdState>,
    /// tokens whose subscribe was read while acknowledged and not a duplicate: the executor may run them (once)
    accepted: BTreeSet<usize>,
    executed: BTreeSet<usize>,
    used_ids: BTreeSet<String>,
    pending: Option<Obligation>,
    used: BTreeSet<&'static str>,
    stats: Stats,
}

impl Monitor {
    fn new(proto: Proto, open: Open) -> Monitor {
        Monitor {
            proto,
            open,
            inits_read: 0,
            init_result: None,
            acked: false,
            closed: false,
            peer_gone: false,
            ids: BTreeMap::new(),
            accepted: BTreeSet::new(),
            executed: BTreeSet::new(),
            used_ids: BTreeSet::new(),
            pending: None,
            used: BTreeSet::new(),
            stats: Stats::default(),
        }
    }

    fn is_live(&self, id: &str) -> bool {
        matches!(self.ids.get(id), Some(IdState::Live(_)))
    }

    fn violation(&mut self, ob: Obligation) {
        self.pending = Some(ob);
    }

    fn feed(&mut self, ev: &Ev) -> Result<(), String> {
        // a protocol violation must be answered before anything else happens (C25-F1 predicts an executor call)
        if let Some(ob) = &self.pending {
            let resolves = match (ob, ev) {
                (_, Ev::Out(_)) | (_, Ev::OutEnd) => true,
                (Obligation::DuplicateId { .. }, Ev::Exec(_)) => true,
                _ => false,
            };
            if !resolves {
                return Err(format!("after a protocol violation ({}) the server went on ({:?}) instead of closing", describe(ob), ev));
            }
        }
        match ev {
            Ev::Read(m) => self.read(m),
            Ev::ReadEnd => {
                self.peer_gone = true;
                self.stats.client_end_seen = true;
                Ok(())
            }
            Ev::InitResult(ok) => {
                self.init_result = Some(*ok);
                if !ok {
                    self.stats.init_rejected += 1;
                }
                Ok(())
            }
            Ev::Exec(token) => self.exec(*token),
            Ev::Out(WsMessage::Close(code, reason)) => self.close(*code, reason),
            Ev::Out(WsMessage::Text(t)) => self.text(t),
            Ev::OutEnd => {
                if let Some(ob) = self.pending.take() {
                    return Err(format!("the server ended the session without answering a protocol violation: {}", describe(&ob)));
                }
                Ok(())
            }
        }
    }

    fn read(&mut self, m: &Msg) -> Result<(), String> {
        match m {
            Msg::Init => {
                self.inits_read += 1;
                if self.inits_read > 1 {
                    self.stats.second_init += 1;
                    self.violation(match self.proto {
                        Proto::Transport => Obligation::Close { spec: 4429, quirk: None, why: "second connection_init" },
                        Proto::Legacy => Obligation::ConnectionError { quirk: None, why: "second connection_init" },
                    });
                }
            }
            Msg::Sub { id, token } => {
                if !self.acked {
                    self.stats.sub_before_ack += 1;
                    if self.proto == Proto::Transport {
                        self.violation(Obligation::Close { spec: 4401, quirk: Some((F2, 1011)), why: "subscribe before connection_ack" });
                    }
                    // legacy: the document does not say what happens; the operation just must not run
                } else if self.is_live(id) {
                    self.stats.dup_live += 1;
                    match self.proto {
                        Proto::Transport => self.violation(Obligation::DuplicateId { id: id.clone(), token: *token }),
                        Proto::Legacy => {
                            // not defined by the legacy document; the reference server unsubscribes the old
                            // operation and starts the new one
                            self.ids.insert(id.clone(), IdState::Live(*token));
                            self.accepted.insert(*token);
                        }
                    }
                } else {
                    if !self.used_ids.insert(id.clone()) {
                        self.stats.id_reuse += 1;
                    }
                    self.ids.insert(id.clone(), IdState::Live(*token));
                    self.accepted.insert(*token);
                    let live = self.ids.values().filter(|s| matches!(s, IdState::Live(_))).count();
                    self.stats.max_live = self.stats.max_live.max(live);
                }
            }
            Msg::Done { id } => {
                if self.is_live(id) {
                    self.ids.insert(id.clone(), IdState::Stopped);
                }
            }
            Msg::Ping | Msg::Pong => {}
            Msg::Terminate => {
                self.peer_gone = true;
                self.stats.terminated = true;
            }
            Msg::Bad => {
                self.stats.bad_msg += 1;
                self.violation(match self.proto {
                    Proto::Transport => Obligation::Close { spec: 4400, quirk: Some((F3, 1002)), why: "message of unknown type or format" },
                    Proto::Legacy => Obligation::ConnectionError { quirk: Some((F3, 1002)), why: "message of unknown type or format" },
                });
            }
        }
        Ok(())
    }

    fn exec(&mut self, token: usize) -> Result<(), String> {
        if let Some(Obligation::DuplicateId { id, token: t }) = self.pending.clone() {
            if t == token && self.open.f1 {
                // C25-F1: the new operation replaces the live one
                self.used.insert(F1);
                self.pending = None;
                self.ids.insert(id, IdState::Live(token));
                self.executed.insert(token);
                return Ok(());
            }
            return Err(format!("subscribe for id {:?} that is already live: the operation was executed; the protocol demands Close(4409)", id));
        }
        if !self.acked {
            return Err("an operation was executed before the connection was acknowledged".into());
        }
        if !self.accepted.contains(&token) {
            return Err(format!("operation #{} was executed although its subscribe message was not acceptable", token));
        }
        if !self.executed.insert(token) {
            return Err(format!("operation #{} was executed twice", token));
        }
        Ok(())
    }

    fn close(&mut self, code: u16, reason: &str) -> Result<(), String> {
        if self.closed {
            return Err(format!("a second Close({}, {:?}) was sent after a Close", code, reason));
        }
        self.closed = true;
        self.stats.closes.push(code);
        match self.pending.take() {
            None => Ok(()), // keep-alive expiry, rejected init, legacy start before ack: no code demanded
            Some(Obligation::Close { spec, quirk, why }) => {
                if code == spec {
                    Ok(())
                } else if let Some((fid, _)) = quirk.filter(|(fid, qcode)| *qcode == code && self.is_open(fid)) {
                    self.used.insert(fid);
                    Ok(())
                } else {
                    Err(format!("{}: closed with {} ({:?}); the protocol demands {}", why, code, reason, spec))
                }
            }
            Some(Obligation::ConnectionError { quirk, why }) => {
                if let Some((fid, _)) = quirk.filter(|(fid, qcode)| *qcode == code && self.is_open(fid)) {
                    self.used.insert(fid);
                    Ok(())
                } else {
                    Err(format!("{}: closed with {} ({:?}); the legacy protocol answers with a connection_error message", why, code, reason))
                }
            }
            Some(Obligation::DuplicateId { id, .. }) => {
                if code == 4409 {
                    Ok(())
                } else {
                    Err(format!("subscribe for live id {:?}: closed with {}; the protocol demands 4409", id, code))
                }
            }
        }
    }

    fn is_open(&self, fid: &str) -> bool {
        (fid == F1 && self.open.f1) || (fid == F2 && self.open.f2) || (fid == F3 && self.open.f3)
    }

    fn text(&mut self, t: &str) -> Result<(), String> {
        if self.closed {
            return Err(format!("message sent after a Close frame: {}", t));
        }
        if self.peer_gone {
            return Err(format!("message sent after the client terminated the connection: {}", t));
        }
        let v: Json = serde_json::from_str(t).map_err(|e| format!("server message is not JSON ({}): {}", e, t))?;
        let ty = v["type"].as_str().ok_or_else(|| format!("server message without type: {}", t))?.to_string();
        let vocabulary: &[&str] = match self.proto {
            Proto::Transport => &["connection_ack", "ping", "pong", "next", "error", "complete"],
            Proto::Legacy => &["connection_error", "connection_ack", "data", "error", "complete", "ka"],
        };
        if !vocabulary.contains(&ty.as_str()) {
            return Err(format!("message type {:?} does not exist in {}: {}", ty, self.proto.name(), t));
        }
        match self.pending.take() {
            None => {}
            Some(Obligation::ConnectionError { .. }) if ty == "connection_error" => {}
            Some(ob) => return Err(format!("{}; the server sent {} instead", describe(&ob), t)),
        }
        match ty.as_str() {
            "connection_ack" => {
                if self.acked {
                    return Err("connection_ack sent twice".into());
                }
                if self.inits_read == 0 || self.init_result != Some(true) {
                    return Err("connection_ack without an accepted connection_init".into());
                }
                self.acked = true;
                self.stats.acks += 1;
            }
            "connection_error" => self.stats.connection_errors += 1,
            "ping" | "ka" => {}
            "pong" => self.stats.pongs += 1,
            "next" | "data" | "error" | "complete" => {
                let id = v["id"].as_str().ok_or_else(|| format!("operation message without id: {}", t))?.to_string();
                if !self.acked {
                    return Err(format!("operation message before connection_ack: {}", t));
                }
                match (ty.as_str(), self.ids.get(&id).copied()) {
                    ("next", Some(IdState::Live(token))) | ("data", Some(IdState::Live(token))) => {
                        let from = v["payload"]["data"]["t"].as_u64();
                        if from != Some(token as u64) {
                            return Err(format!("{} for id {:?} carries a result of operation #{:?}, but the live operation under that id is #{}: {}", ty, id, from, token, t));
                        }
                        self.stats.data += 1;
                    }
                    ("next", st) | ("data", st) => {
                        return Err(format!("{} for id {:?} which is not live ({}): {}", ty, id, match st {
                            Some(IdState::Stopped) => "the client completed it",
                            _ => "never subscribed, or already completed",
                        }, t));
                    }
                    ("error", Some(IdState::Live(_))) => {
                        self.ids.remove(&id);
                    }
                    ("complete", Some(st)) => {
                        if st == IdState::Stopped {
                            self.stats.complete_echo += 1;
                        } else {
                            self.stats.completes_after_end += 1;
                        }
                        self.ids.remove(&id);
                    }
                    _ => return Err(format!("{} for id {:?} which has no live operation (completed twice, or never started): {}", ty, id, t)),
                }
            }
            _ => unreachable!(),
        }
        Ok(())
    }

    fn finish(&mut self) -> Result<(), String> {
        match self.pending.take() {
            None => Ok(()),
            Some(ob) => Err(format!("the server did not answer a protocol violation: {}", describe(&ob))),
        }
    }
}

fn describe(ob: &Obligation) -> String {
    match ob {
        Obligation::Close { spec, why, .. } => format!("{} must be answered with Close({})", why, spec),
        Obligation::ConnectionError { why, .. } => format!("{} must be answered with a connection_error message", why),
        Obligation::DuplicateId { id, .. } => format!("subscribe for the live id {:?} must be answered with Close(4409)", id),
    }
}

// ---------------------------------------------------------------------------------------------------------
// session driver

/// the connection task's waker: sets a flag, as an executor's run queue would
struct WakeFlag(std::sync::atomic::AtomicBool);
impl futures_util::task::ArcWake for WakeFlag {
    fn wake_by_ref(a: &Arc<Self>) {
        a.0.store(true, std::sync::atomic::Ordering::SeqCst);
    }
}

struct Session {
    wake: Arc<WakeFlag>,
    /// the last poll returned Pending and the waker has not been invoked since
    parked: bool,
    proto: Proto,
    ws: Pin<Box<dyn Stream<Item = WsMessage>>>,
    client: Chan<(Msg, Vec<u8>)>,
    streams: Arc<Mutex<BTreeMap<usize, Chan<Response>>>>,
    timer: ManualTimer,
    gates: Gates,
    log: Log,
    fed: usize,
    mon: Monitor,
    next_token: usize,
    token_id: Vec<u8>,
    seq: u64,
    pushed: usize,
    reads: usize,
    client_closed: bool,
    out_ended: bool,
    runaway: bool,
    failure: Option<String>,
    delivered_events: u32,
    deferred: bool,
    releases: u32,
    timer_fires: u32,
}

impl Session {
    fn new(proto: Proto, gated: bool, open: Open) -> Session {
        let log = Log::default();
        let client: Chan<(Msg, Vec<u8>)> = Chan::new();
        let streams = Arc::new(Mutex::new(BTreeMap::new()));
        let exec = FakeExecutor { log: log.clone(), streams: streams.clone() };
        let timer = ManualTimer::default();
        let gates = Gates::new();
        let cs = ClientStream { rx: client.rx(), log: log.clone(), ended: false };
        let wsproto = match proto {
            Proto::Transport => WebSocketProtocols::GraphQLWS,
            Proto::Legacy => WebSocketProtocols::SubscriptionsTransportWS,
        };
        let (g1, l1) = (gates.clone(), log.clone());
        let g2 = gates.clone();
        let ws = WebSocket::new(exec, cs, wsproto)
            .on_connection_init(move |payload: Json| async move {
                g1.wait_or_pass("init-callback", !gated).await;
                let ok = payload["ok"] != Json::Bool(false);
                l1.push(Ev::InitResult(ok));
                if ok {
                    Ok(Data::default())
                } else {
                    Err(Error::new("rejected by the init callback"))
                }
            })
            .on_ping(move |_data: Option<&Data>, payload: Option<Json>| {
                let g = g2.clone();
                async move {
                    g.wait_or_pass("ping-callback", !gated).await;
                    Ok(payload)
                }
            })
            .keepalive_timeout(timer.clone(), Duration::from_secs(60));
        Session {
            wake: Arc::new(WakeFlag(std::sync::atomic::AtomicBool::new(false))),
            parked: false,
            proto,
            ws: Box::pin(ws),
            client,
            streams,
            timer,
            gates,
            log,
            fed: 0,
            mon: Monitor::new(proto, open),
            next_token: 0,
            token_id: vec![],
            seq: 0,
            pushed: 0,
            reads: 0,
            client_closed: false,
            out_ended: false,
            runaway: false,
            failure: None,
            delivered_events: 0,
            deferred: false,
            releases: 0,
            timer_fires: 0,
        }
    }

    fn send(&mut self, m: Msg, bytes: Vec<u8>) {
        if !self.client_closed {
            self.pushed += 1;
            self.client.push((m, bytes));
        }
    }

    fn act(&mut self, sym: Sym) {
        let t = self.proto == Proto::Transport;
        match sym {
            Sym::Init(ok) => self.send(Msg::Init, json!({"type": "connection_init", "payload": {"ok": ok}}).to_string().into_bytes()),
            Sym::Sub(i) => {
                let token = self.next_token;
                self.next_token += 1;
                self.token_id.push(i);
                let id = IDS[i as usize];
                let ty = if t { "subscribe" } else { "start" };
                self.send(Msg::Sub { id: id.into(), token }, json!({"type": ty, "id": id, "payload": {"query": token.to_string()}}).to_string().into_bytes());
            }
            Sym::Done(i) => {
                let id = IDS[i as usize];
                let ty = if t { "complete" } else { "stop" };
                self.send(Msg::Done { id: id.into() }, json!({"type": ty, "id": id}).to_string().into_bytes());
            }
            Sym::Ping => self.send(Msg::Ping, json!({"type": "ping", "payload": {"k": 1}}).to_string().into_bytes()),
            Sym::Pong => self.send(Msg::Pong, json!({"type": "pong"}).to_string().into_bytes()),
            Sym::Terminate => self.send(Msg::Terminate, json!({"type": "connection_terminate"}).to_string().into_bytes()),
            Sym::Bad(k) => self.send(Msg::Bad, bad_bytes(k)),
            Sym::Event(i) | Sym::EndStream(i) => {
                let chans: Vec<(usize, Chan<Response>)> = self.streams.lock().unwrap().iter().filter(|(tok, c)| self.token_id[**tok] == i && !c.rx_dropped() && !c.is_closed()).map(|(k, c)| (*k, c.clone())).collect();
                for (token, c) in chans {
                    if let Sym::Event(_) = sym {
                        self.seq += 1;
                        self.delivered_events += 1;
                        c.push(Response::new(GValue::from_json(json!({"t": token, "n": self.seq})).unwrap()));
                    } else {
                        c.close();
                    }
                }
            }
            Sym::Timer => {
                if self.timer.fire() {
                    self.timer_fires += 1;
                }
            }
            Sym::Release => {
                if let Some((idx, _)) = self.gates.pending().first() {
                    self.gates.open(*idx);
                    self.releases += 1;
                }
            }
            Sym::ClientEnd => {
                self.client_closed = true;
                self.client.close();
            }
        }
    }

    /// Poll the connection the way an executor does: again right after every item (a consumer loop), after
    /// `Pending` only once its waker has been invoked. Every event source of the harness (client messages,
    /// subscription events, gates, the manual timer) wakes the waker it was polled with; so when the task is parked
    /// and has not been woken, one extra poll must find nothing - an item there means the connection depends on
    /// being polled by someone else (a lost wake-up: with a real executor it would have stopped making progress).
    fn drain(&mut self) {
        use std::sync::atomic::Ordering::SeqCst;
        let w = futures_util::task::waker(self.wake.clone());
        let mut cx = Context::from_waker(&w);
        let mut n = 0;
        let mut unwoken_probe = self.parked && !self.wake.0.swap(false, SeqCst);
        while !self.out_ended {
            match self.ws.as_mut().poll_next(&mut cx) {
                Poll::Ready(item) => {
                    if unwoken_probe {
                        self.failure.get_or_insert_with(|| format!("lost wake-up: the connection was pending and its waker had not been invoked, yet polling it again produced {}; an executor would never have polled it", match &item { Some(m) => format!("{:?}", m), None => "the end of the stream".into() }));
                    }
                    match item {
                        Some(m) => self.log.push(Ev::Out(m)),
                        None => {
                            self.log.push(Ev::OutEnd);
                            self.out_ended = true;
                        }
                    }
                    self.parked = false;
                }
                Poll::Pending => {
                    // woken while being polled (or since): an executor polls again
                    if self.wake.0.swap(false, SeqCst) {
                        unwoken_probe = false;
                        n += 1;
                        if n > 10_000 {
                            self.runaway = true;
                            break;
                        }
                        continue;
                    }
                    self.parked = true;
                    break;
                }
            }
            unwoken_probe = false;
            n += 1;
            if n > 10_000 {
                self.runaway = true;
                break;
            }
        }
    }

    fn judge(&mut self) {
        let new: Vec<Ev> = {
            let l = self.log.0.lock().unwrap();
            l[self.fed..].to_vec()
        };
        self.fed += new.len();
        for ev in &new {
            if matches!(ev, Ev::Read(_)) {
                self.reads += 1;
            }
            if self.failure.is_none() {
                if let Err(e) = self.mon.feed(ev) {
                    self.failure = Some(e);
                }
            }
        }
        if self.runaway {
            self.out_ended = true; // stop driving this session
            self.failure.get_or_insert_with(|| "the server produced more than 10000 messages without becoming pending".into());
        }
    }

    fn step(&mut self, st: Step) {
        self.act(st.sym);
        if st.poll {
            self.drain();
            self.judge();
        } else {
            self.deferred = true;
        }
    }

    fn finish(&mut self) {
        self.drain();
        self.judge();
        if self.failure.is_none() {
            if let Err(e) = self.mon.finish() {
                self.failure = Some(e);
            }
        }
    }

    /// everything the client has sent has been read by the server
    fn client_queue_empty(&self) -> bool {
        self.reads >= self.pushed
    }

    /// what the server sent, compactly (part of the rendered case)
    fn sent(&self) -> String {
        let l = self.log.0.lock().unwrap();
        let items: Vec<String> = l
            .iter()
            .filter_map(|e| match e {
                Ev::Out(WsMessage::Text(t)) => {
                    let v: Json = serde_json::from_str(t).unwrap_or(Json::Null);
                    Some(match (v["type"].as_str(), v["id"].as_str()) {
                        (Some(ty), Some(id)) => format!("{}({})", ty, id),
                        (Some(ty), None) => ty.to_string(),
                        _ => "?".into(),
                    })
                }
                Ev::Out(WsMessage::Close(c, _)) => Some(format!("Close({})", c)),
                Ev::OutEnd => Some("END".into()),
                _ => None,
            })
            .collect();
        if items.len() > 40 {
            format!("{} …(+{} more)", items[..40].join(" "), items.len() - 40)
        } else {
            items.join(" ")
        }
    }

    fn trace(&self) -> String {
        let l = self.log.0.lock().unwrap();
        let items: Vec<String> = l
            .iter()
            .map(|e| match e {
                Ev::Read(Msg::Sub { id, token }) => format!("read:subscribe({})#{}", id, token),
                Ev::Read(Msg::Done { id }) => format!("read:complete({})", id),
                Ev::Read(m) => format!("read:{:?}", m),
                Ev::ReadEnd => "read:end".into(),
                Ev::Exec(t) => format!("exec#{}", t),
                Ev::InitResult(ok) => format!("init-callback:{}", if *ok { "ok" } else { "err" }),
                Ev::Out(WsMessage::Text(t)) => format!("SEND {}", t),
                Ev::Out(WsMessage::Close(c, r)) => format!("CLOSE({}, {:?})", c, r),
                Ev::OutEnd => "END".into(),
            })
            .collect();
        if items.len() > 60 {
            return format!("{} ; …(+{} more events)", items[..60].join(" ; "), items.len() - 60);
        }
        items.join(" ; ")
    }
}

struct Verdict {
    case: Case,
    ended: bool,
    /// constructs of the known findings that the server actually met in this script
    dup_live: bool,
    sub_before_ack: bool,
    bad_msg: bool,
}

fn conclude(proto: Proto, gated: bool, steps: &[Step], mut s: Session) -> Verdict {
    s.finish();
    let text = format!("{} => {}", render_script(proto, gated, steps), s.sent());
    let st = s.mon.stats.clone();
    let c = match (&s.failure, s.mon.used.is_empty()) {
        (Some(why), _) => Case::fail(text, format!("{} || trace: {}", why, s.trace())),
        (None, true) => Case::pass(text),
        (None, false) => Case::known(text, s.mon.used.iter().map(|x| x.to_string()).collect()),
    };
    let nontrivial = s.delivered_events > 0;
    let c = c
        .nontrivial(nontrivial)
        .class(proto.name())
        .class_if(gated, "gated-callbacks")
        .class_if(st.acks > 0, "acknowledged")
        .class_if(st.data > 0, "data-delivered")
        .class_if(st.data >= 2, "data>=2")
        .class_if(st.max_live >= 2, "concurrent-operations")
        .class_if(st.completes_after_end > 0, "complete-after-stream-end")
        .class_if(st.complete_echo > 0, "complete-after-client-stop")
        .class_if(st.id_reuse > 0, "id-reused-after-completion")
        .class_if(st.second_init > 0, "second-init")
        .class_if(st.init_rejected > 0, "init-rejected")
        .class_if(st.dup_live > 0, "duplicate-live-id")
        .class_if(st.sub_before_ack > 0, "subscribe-before-ack")
        .class_if(st.bad_msg > 0, "bad-message")
        .class_if(st.pongs > 0, "pong-sent")
        .class_if(st.connection_errors > 0, "connection_error-sent")
        .class_if(st.terminated, "client-terminate")
        .class_if(st.client_end_seen, "client-stream-end")
        .class_if(s.timer_fires > 0, "keepalive-expired")
        .class_if(!st.closes.is_empty(), "close-frame")
        .class_if(s.deferred, "deferred-polls")
        .class_if(s.releases > 0, "callback-released-later")
        .class_if(s.out_ended && (st.data > 0), "ended-after-data");
    Verdict { case: c, ended: s.out_ended, dup_live: st.dup_live > 0 && proto == Proto::Transport, sub_before_ack: st.sub_before_ack > 0 && proto == Proto::Transport, bad_msg: st.bad_msg > 0 }
}

fn run_fixed(proto: Proto, gated: bool, steps: &[Step], open: Open) -> Verdict {
    let mut s = Session::new(proto, gated, open);
    for st in steps {
        if s.out_ended {
            break;
        }
        s.step(*st);
    }
    conclude(proto, gated, steps, s)
}

// ---------------------------------------------------------------------------------------------------------
// enumeration

fn alphabet(proto: Proto, gated: bool, ids: u8) -> Vec<Sym> {
    let mut a = vec![Sym::Init(true), Sym::Init(false)];
    for i in 0..ids {
        a.push(Sym::Sub(i));
    }
    for i in 0..ids {
        a.push(Sym::Done(i));
    }
    match proto {
        Proto::Transport => a.extend([Sym::Ping, Sym::Pong]),
        Proto::Legacy => a.push(Sym::Terminate),
    }
    a.extend([Sym::Bad(0), Sym::Bad(1)]);
    for i in 0..ids {
        a.push(Sym::Event(i));
    }
    for i in 0..ids {
        a.push(Sym::EndStream(i));
    }
    a.push(Sym::Timer);
    if gated {
        a.push(Sym::Release);
    }
    a.push(Sym::ClientEnd);
    a
}

/// greedy one-step-removal minimisation of a failing script
fn minimise(proto: Proto, gated: bool, mut steps: Vec<Step>, open: Open) -> Vec<Step> {
    loop {
        let mut shrunk = false;
        for i in 0..steps.len() {
            let mut t = steps.clone();
            t.remove(i);
            if run_fixed(proto, gated, &t, open).case.is_fail() {
                steps = t;
                shrunk = true;
                break;
            }
        }
        if !shrunk {
            return steps;
        }
    }
}

struct EnumCfg {
    stream: &'static str,
    max_len: usize,
    /// leave out scripts in which the server meets the construct of an open finding
    exclude_open: bool,
}

/// All scripts over the alphabet up to `max_len`, depth first. A prefix after which the server's message stream
/// has ended is not extended (an ended stream is never polled again, so every extension behaves like the
/// prefix). Returns true on a violation.
fn enumerate(ctx: &mut Ctx, cfg: &EnumCfg, open: Open) -> bool {
    let t0 = Instant::now();
    let mut n = 0u64;
    for proto in [Proto::Transport, Proto::Legacy] {
        for gated in [false, true] {
            let alpha = alphabet(proto, gated, 2);
            let mut stack: Vec<Vec<Step>> = vec![vec![]];
            while let Some(script) = stack.pop() {
                let v = run_fixed(proto, gated, &script, open);
                if cfg.exclude_open {
                    let mut skip = false;
                    for (hit, on, fid) in [(v.dup_live, open.f1, F1), (v.sub_before_ack, open.f2, F2), (v.bad_msg, open.f3, F3)] {
                        if hit && on {
                            ctx.excluded(fid);
                            skip = true;
                        }
                    }
                    if skip {
                        continue; // every extension contains the construct too
                    }
                }
                n += 1;
                if v.case.is_fail() {
                    let small = minimise(proto, gated, script.clone(), open);
                    let vs = run_fixed(proto, gated, &small, open);
                    let c = if vs.case.is_fail() { vs.case } else { v.case };
                    ctx.check_case(cfg.stream, c, json!({"script": render_script(proto, gated, &small), "found_as": render_script(proto, gated, &script)}));
                    ctx.enumerated(cfg.stream, n, false, t0);
                    return true;
                }
                ctx.check_case(cfg.stream, v.case.class("enumerated"), Json::Null);
                if script.len() >= cfg.max_len || v.ended {
                    continue;
                }
                for sym in alpha.iter().rev() {
                    let mut next = script.clone();
                    next.push(Step { sym: *sym, poll: true });
                    stack.push(next);
                }
            }
        }
    }
    ctx.enumerated(cfg.stream, n, true, t0);
    false
}

// ---------------------------------------------------------------------------------------------------------
// random scripts

fn random_case(s: &mut dyn Src, open: Open, exclude_open: bool) -> Case {
    let proto = if s.bool() { Proto::Legacy } else { Proto::Transport };
    let gated = s.chance(1, 3);
    let len = 1 + s.choose(30);
    let mut sess = Session::new(proto, gated, open);
    let mut steps: Vec<Step> = vec![];
    for _ in 0..len {
        if sess.out_ended {
            break;
        }
        let transport = proto == Proto::Transport;
        let id = s.weighted(&[5, 3, 1]) as u8;
        // what the generator may send next without meeting the construct of an open finding (judged from what
        // the monitor has seen so far; a wrong guess only means the case is attributed to the finding)
        let settled = sess.client_queue_empty();
        let may_sub = !exclude_open || !transport || ((!open.f2 || (sess.mon.acked && settled)) && (!open.f1 || (!sess.mon.is_live(IDS[id as usize]) && settled)));
        let may_bad = !exclude_open || !open.f3;
        let w = [
            if sess.mon.inits_read == 0 && settled { 60 } else { 2 }, // init
            1,                                               // init, callback fails
            if !may_sub { 0 } else if sess.mon.acked { 14 } else { 1 }, // subscribe
            6,                                               // complete
            if transport { 3 } else { 0 },                   // ping
            if transport { 1 } else { 0 },                   // pong
            if transport { 0 } else { 1 },                   // terminate
            if may_bad { 1 } else { 0 },                     // bad message
            24,                                              // stream event
            6,                                               // stream end
            1,                                               // timer
            if gated { 10 } else { 0 },                      // release
            1,                                               // client end
        ];
        let sym = match s.weighted(&w) {
            0 => Sym::Init(true),
            1 => Sym::Init(false),
            2 => Sym::Sub(id),
            3 => Sym::Done(id),
            4 => Sym::Ping,
            5 => Sym::Pong,
            6 => Sym::Terminate,
            7 => Sym::Bad(s.choose(BAD_KINDS as usize) as u8),
            8 => Sym::Event(id),
            9 => Sym::EndStream(id),
            10 => Sym::Timer,
            11 => Sym::Release,
            _ => Sym::ClientEnd,
        };
        let st = Step { sym, poll: !s.chance(1, 4) };
        steps.push(st);
        sess.step(st);
    }
    conclude(proto, gated, &steps, sess).case.class("random")
}

// ---------------------------------------------------------------------------------------------------------

pub fn run(ctx: &mut Ctx) {
    ctx.rule = "client/peer scripts over {connection_init (callback ok / fails), subscribe|start(id), complete|stop(id), ping, pong, connection_terminate, \
                invalid JSON, unknown type, stream event(id), stream end(id), keep-alive expiry, release of a waiting init/ping callback, client stream end} \
                for both protocols, with immediate and with gated callbacks; all scripts up to the length bound (ids a,b; server polled to quiescence after \
                every step), random scripts up to length 30 (ids a,b,c; deferred polls; 7 kinds of malformed message); \
                non-trivial = at least one stream event reached a stream the server was holding (after an executed subscribe); distinct by script"
        .into();
    ctx.assume("client messages count from the moment the server reads them from the client stream (the harness logs the read), so a message queued behind a waiting callback is judged in the state in which the server meets it");
    ctx.assume("the server is polled explicitly (spurious polls are legal); wake-ups / liveness (e.g. that a pong or a data message is eventually sent) are not asserted");
    ctx.assume("each protocol is driven with its own message names: subscribe/complete/ping/pong for graphql-transport-ws, start/stop/connection_terminate for the legacy protocol; names of the other protocol (accepted by the crate through serde aliases) are a don't-care class and not sent");
    ctx.assume("a `complete` from the server after the client's own complete/stop is accepted (it is the operation's single complete); next/data after it is not");
    ctx.assume("legacy protocol: start before connection_ack and start with a live id are not defined by the protocol document: before the ack the operation must not run (any close / error / ignore accepted); with a live id the new operation replaces the old one (reference-server behaviour) and data of the old one is then foreign");
    ctx.assume("a rejected connection_init (callback error) is not a client protocol violation; graphql-transport-ws only recommends 4403: the close code is not asserted, only that no connection_ack follows (tests pin 1002)");
    ctx.assume("keep-alive expiry: the close code / message is not defined by the protocol documents and not asserted; afterwards nothing may be sent");
    ctx.assume("legacy protocol violations (second init, undecodable message) must be answered with a connection_error message; whether the session then ends is a don't-care");
    ctx.assume("after connection_terminate or after the client stream ended the socket counts as closed: no further message may be sent");
    ctx.assume("data/next messages are attributed to operations by a token the fake executor puts into every response; order and completeness of delivery within an operation are not asserted");
    ctx.assume("the WebSocket stream is not polled again after it returned None");
    ctx.assume("HashMap iteration order inside the server decides which of two simultaneously ready operations is served first; the monitor is insensitive to it");

    let open = Open { f1: ctx.open(F1), f2: ctx.open(F2), f3: ctx.open(F3) };

    // witnesses of the known findings (regression cases; they produce the KNOWN-FINDING lines while open and
    // must pass strictly once a finding is fixed)
    let p = |sym| Step { sym, poll: true };
    let witnesses: Vec<(Proto, Vec<Step>)> = vec![
        (Proto::Transport, vec![p(Sym::Init(true)), p(Sym::Sub(0)), p(Sym::Sub(0)), p(Sym::Event(0))]),
        (Proto::Transport, vec![p(Sym::Sub(0))]),
        (Proto::Transport, vec![p(Sym::Bad(0))]),
        (Proto::Transport, vec![p(Sym::Init(true)), p(Sym::Bad(1))]),
        (Proto::Legacy, vec![p(Sym::Init(true)), p(Sym::Bad(0))]),
        (Proto::Legacy, vec![p(Sym::Bad(1))]),
    ];
    for (proto, steps) in &witnesses {
        let v = run_fixed(*proto, false, steps, open);
        if ctx.check_case("witnesses", v.case.class("witness"), json!({"script": render_script(*proto, false, steps)})) {
            return;
        }
    }

    // probe: everything enabled, shorter bound (this is where the constructs of open findings are exercised)
    let any_open = open.f1 || open.f2 || open.f3;
    if any_open {
        let probe = EnumCfg { stream: "probe-all-constructs", max_len: ctx.tier.pick(4, 5), exclude_open: false };
        if enumerate(ctx, &probe, open) {
            return;
        }
    }

    // main enumeration
    let bound = ctx.tier.pick(5, 6);
    ctx.note("enumeration_bound_steps", json!(bound));
    ctx.note(
        "enumeration_domain",
        json!("all scripts up to the bound over the per-protocol alphabet with ids a,b, for {immediate, gated} callbacks; prefixes after which the server's stream ended are not extended; \
               while a finding is open, scripts in which the server meets its construct (duplicate live id / subscribe before ack under graphql-transport-ws, undecodable message) are left out of `all-scripts` \
               (count in excluded_by_construction) and covered by `probe-all-constructs` at a smaller bound"),
    );
    let main = EnumCfg { stream: "all-scripts", max_len: bound, exclude_open: any_open };
    if enumerate(ctx, &main, open) {
        return;
    }
    ctx.exhaustive = Some(true);

    let n = ctx.tier.pick(400_000, 10_000_000);
    ctx.stream("random", n, 160, |s| random_case(s, open, any_open));
    if any_open {
        ctx.stream("random-probe", n / 8, 160, |s| random_case(s, open, false).class("probe"));
    }

    ctx.floor("data-delivered", 2000);
    ctx.floor("complete-after-stream-end", 500);
    ctx.floor("complete-after-client-stop", 500);
    ctx.floor("id-reused-after-completion", 100);
    ctx.floor("second-init", 500);
    ctx.floor("keepalive-expired", 500);
    ctx.floor("callback-released-later", 500);
    ctx.floor("deferred-polls", 1000);
    ctx.floor("concurrent-operations", 1000);
}
