//! C05 — responses do not depend on the order in which concurrent resolvers complete.
use crate::c04::{exec_gated, Flavour};
use crate::execcmp::*;
use vcore::{Case, Ctx, Src};
use vgql::ast::*;
use vgql::gentyped::*;
use vgql::print::print_plain;
use vgql::refexec::{execute, show_path, Quirks};
use vgql::sch::Sch;
use vgql::world::*;
use vschemas::rt::Rt;
use vschemas::z::{build_z, z_sch};

fn permutations(n: usize) -> Vec<Vec<usize>> {
    fn go(cur: &mut Vec<usize>, used: &mut Vec<bool>, n: usize, out: &mut Vec<Vec<usize>>) {
        if cur.len() == n {
            out.push(cur.clone());
            return;
        }
        for i in 0..n {
            if !used[i] {
                used[i] = true;
                cur.push(i);
                go(cur, used, n, out);
                cur.pop();
                used[i] = false;
            }
        }
    }
    let mut out = vec![];
    go(&mut vec![], &mut vec![false; n], n, &mut out);
    out
}

fn signature(resp: &async_graphql::Response) -> (String, Vec<String>) {
    let mut errs: Vec<String> = resp_errors(resp).into_iter().map(|(p, l, _)| format!("{}@{:?}", show_path(&p), l.iter().map(|x| (x.line, x.col)).collect::<Vec<_>>())).collect();
    errs.sort();
    (serde_json::to_string(&resp_data(resp)).unwrap(), errs)
}

fn case(s: &mut dyn Src, fl: &Flavour, sch: &Sch, tcfg: &TypedCfg, exhaustive: bool, counters: &std::cell::Cell<(u64, u64)>) -> Case {
    let dynamic = matches!(fl, Flavour::Dynamic);
    let mut world = gen_world(sch, s, &WorldCfg { null_composite_items: !dynamic, ..WorldCfg::default() });
    let mut td = gen_typed_doc(sch, s, tcfg);
    let text = print_plain(&mut td.doc);
    let base = match execute(sch, &td.doc, td.op_name.as_deref(), &td.vars, &world, Quirks::default()) {
        Ok(w) => w,
        Err(e) => return Case::fail(text, format!("HARNESS: reference executor: {:?}", e)),
    };
    // failing resolvers only at NULLABLE positions (the statement's domain: failing non-null siblings race)
    let nullable: Vec<(usize, String)> = {
        let mut v: Vec<(usize, String)> = vec![];
        for t in &base.touches {
            if !t.ty.is_nn() && (dynamic || !vschemas::z::is_plain_data_field(&t.parent_type, &t.field)) && !v.iter().any(|(n, f)| *n == t.node && *f == t.field) {
                v.push((t.node, t.field.clone()));
            }
        }
        v
    };
    let mut n_faults = 0;
    if !nullable.is_empty() {
        for _ in 0..s.choose(3) {
            let (n, f) = nullable[s.choose(nullable.len())].clone();
            world.faults.insert((n, f), Fault::ResolverError);
            n_faults += 1;
        }
    }
    let want = match execute(sch, &td.doc, td.op_name.as_deref(), &td.vars, &world, Quirks::default()) {
        Ok(w) => w,
        Err(e) => return Case::fail(text, format!("HARNESS: reference executor: {:?}", e)),
    };
    let head = format!("world: {}\nquery: {}\nvariables: {}", world.show(), text, vars_json(&td.vars));
    // the resolver invocations that may be gated: distinct response paths of the (faulted) execution
    let mut paths: Vec<String> = vec![];
    for t in &want.touches {
        let p = show_path(&t.path);
        if !paths.contains(&p) {
            paths.push(p);
        }
    }
    if paths.is_empty() {
        return Case::discard("no resolver runs");
    }
    let in_list = paths.iter().any(|p| p.split('.').any(|seg| seg.chars().all(|c| c.is_ascii_digit())));
    let mut first: Option<(String, Vec<String>)> = None;
    let mut runs = 0u64;
    let mut check = |resp: &async_graphql::Response, order: &[String]| -> Result<(), String> {
        compare(&want, resp).map_err(|e| format!("completion order {:?}: {}", order, e))?;
        let sig = signature(resp);
        match &first {
            None => first = Some(sig),
            Some(f) => {
                if *f != sig {
                    return Err(format!("completion order {:?}: response differs from the first order: {:?} vs {:?}", order, sig, f));
                }
            }
        }
        Ok(())
    };
    let k;
    if exhaustive {
        // choose up to 6 gated resolvers; all their priority orders
        let mut chosen: Vec<String> = vec![];
        let want_k = if s.bool() { paths.len().min(6) } else { paths.len().min(2 + s.choose(5)).min(6) };
        let mut pool = paths.clone();
        while chosen.len() < want_k && !pool.is_empty() {
            let i = s.choose(pool.len());
            chosen.push(pool.remove(i));
        }
        k = chosen.len();
        for perm in permutations(k) {
            let rt = Rt::new(world.clone());
            rt.gate_only(chosen.iter().cloned());
            let prio: Vec<&String> = perm.iter().map(|i| &chosen[*i]).collect();
            let r = exec_gated(fl, sch, &rt, &text, &td, |pending| {
                // open the pending gate with the highest priority
                let mut best = 0;
                let mut best_rank = usize::MAX;
                for (i, (_, label)) in pending.iter().enumerate() {
                    let rank = prio.iter().position(|p| *p == label).unwrap_or(usize::MAX - 1);
                    if rank < best_rank {
                        best_rank = rank;
                        best = i;
                    }
                }
                best
            });
            runs += 1;
            match r {
                Ok((resp, order)) => {
                    if let Err(e) = check(&resp, &order) {
                        return Case::fail(head, e);
                    }
                }
                Err(e) => return Case::fail(head, e),
            }
        }
    } else {
        // every resolver gated, generated opening orders
        k = paths.len();
        for o in 0..8 {
            let rt = Rt::new(world.clone());
            let r = exec_gated(fl, sch, &rt, &text, &td, |pending| match o {
                0 => 0,
                1 => pending.len() - 1,
                _ => s.choose(pending.len()),
            });
            runs += 1;
            match r {
                Ok((resp, order)) => {
                    if let Err(e) = check(&resp, &order) {
                        return Case::fail(head, e);
                    }
                }
                Err(e) => return Case::fail(head, e),
            }
        }
    }
    let c = counters.get();
    counters.set((c.0 + runs, c.1 + if exhaustive { 1 } else { 0 }));
    Case::pass(head)
        .nontrivial((k >= 3 && n_faults >= 1) || in_list)
        .class(format!("gates-{}", if k > 6 { "7+".to_string() } else { k.to_string() }))
        .class_if(n_faults > 0, "with-failing-nullable-resolver")
        .class_if(in_list, "gates-in-list-items")
        .class(if dynamic { "dynamic" } else { "static" })
        .class(if exhaustive { "all-orders" } else { "generated-orders" })
}

pub fn run(ctx: &mut Ctx) {
    ctx.rule = "queries on static Z and its dynamic mirror whose resolvers wait on gates of a deterministic executor; for documents with <=6 chosen gated resolvers ALL priority orders \
                of gate opening are run (k! runs), beyond that 8 generated orders with every resolver gated; failing resolvers only at nullable positions; data and the error multiset \
                (path, locations) must be identical across orders and equal to the reference executor. A case = one document with all its orders; non-trivial = >=3 gates with >=1 failing \
                resolver, or gates inside list items; distinct by rendered case".into();
    ctx.assume("failing resolvers are injected only at nullable positions (two failing non-null siblings legitimately race under the specification)");
    let z = build_z(|b| b);
    let zsch = z_sch(&z);
    let mut cfg = crate::c02::typed_cfg(ctx, "C05");
    cfg.ops = vec![OpKind::Query];
    cfg.max_depth = 3;
    cfg.max_width = 3;
    if ctx.open("C04-F1") {
        // separately executed occurrences have separate gates with the same label
        cfg.repeats = false;
        ctx.excluded("C04-F1");
    }
    let docs = ctx.tier.pick(1_000, 30_000);
    let counters = std::cell::Cell::new((0u64, 0u64));
    ctx.stream("all-orders-static", docs, 600, |s| case(s, &Flavour::Static(&z), &zsch, &cfg, true, &counters));
    ctx.stream("all-orders-dynamic", docs, 600, |s| case(s, &Flavour::Dynamic, &zsch, &cfg, true, &counters));
    ctx.stream("generated-orders-static", docs * 2, 900, |s| case(s, &Flavour::Static(&z), &zsch, &cfg, false, &counters));
    ctx.stream("generated-orders-dynamic", docs * 2, 900, |s| case(s, &Flavour::Dynamic, &zsch, &cfg, false, &counters));
    let (runs, ex) = counters.get();
    ctx.note("gated_executions", serde_json::json!(runs));
    ctx.note("documents_with_all_orders_enumerated", serde_json::json!(ex));
    ctx.exhaustive = Some(true);
    ctx.note("exhaustive_scope", serde_json::json!("per document of the all-orders streams: every priority order of its <=6 chosen gated resolvers"));
}
