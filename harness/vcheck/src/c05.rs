//! C05 — not built yet.
use vcore::Ctx;

pub fn run(_ctx: &mut Ctx) {
    eprintln!("C05: check not built yet");
    std::process::exit(2);
}
