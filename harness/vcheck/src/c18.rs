//! C18 — the standard introspection query describes, self-consistently, the type system the server executes and
//! exports as SDL, restricted to what the request's context may see; hidden elements never appear.
use crate::execcmp::*;
use async_graphql::{Request, Response};
use serde_json::Value as J;
use vcore::{Case, Ctx, Src};
use vgql::ast::OpKind;
use vgql::gensch::*;
use vgql::gentyped::*;
use vgql::introspect::*;
use vgql::print::print_plain;
use vgql::refexec::{execute, Quirks};
use vgql::refparse::{parse_type_system, Opts, SdlDef, SdlDoc};
use vgql::sch::{from_sdl, from_sdl_text, Kind, Sch};
use vgql::world::*;
use vschemas::dynbuild::build_dynamic;
use vschemas::rt::Rt;

// ------------------------------------------------------------------------------------------------------------
// static zoo Z

#[allow(dead_code)]
mod zoo {
    use async_graphql::*;
    use futures_util::stream::{self, Stream};

    /// How a pet feels.
    #[derive(Enum, Copy, Clone, Eq, PartialEq)]
    pub enum Mood {
        Happy,
        #[graphql(name = "GRUMPY_CAT")]
        Grumpy,
        /// Mostly asleep.
        #[graphql(deprecation = "use HAPPY")]
        Sleepy,
    }

    pub struct Stamp(pub i32);
    /// A point in time.
    #[Scalar(name = "Stamp")]
    impl ScalarType for Stamp {
        fn parse(value: Value) -> InputValueResult<Self> {
            match &value {
                Value::Number(n) if n.is_i64() => Ok(Stamp(n.as_i64().unwrap() as i32)),
                _ => Err(InputValueError::expected_type(value)),
            }
        }
        fn to_value(&self) -> Value {
            Value::from(self.0)
        }
    }

    #[derive(InputObject)]
    pub struct Range {
        pub lo: i32,
        #[graphql(default = 10)]
        pub hi: i32,
    }

    /// Which pets to return.
    #[derive(InputObject)]
    pub struct Filter {
        /// At most this many.
        #[graphql(default = 5)]
        pub limit: i32,
        pub mood: Option<Mood>,
        #[graphql(default_with = "vec![\"a\".to_string()]")]
        pub tags: Vec<String>,
        pub range: Option<Range>,
        pub weights: Option<Vec<Option<f64>>>,
    }

    #[derive(OneofObject)]
    pub enum Key {
        Id(ID),
        Name(String),
    }

    #[derive(SimpleObject, Clone)]
    pub struct Dog {
        pub name: String,
        pub mood: Mood,
        #[graphql(deprecation = "use name")]
        pub nick: Option<String>,
        pub legs: i32,
    }

    /// A cat.
    #[derive(SimpleObject, Clone)]
    pub struct Cat {
        pub name: String,
        pub mood: Mood,
        pub lives: i32,
    }

    #[derive(SimpleObject, Clone)]
    pub struct Robot {
        pub name: String,
        pub serial: i32,
    }

    /// Anything with a name.
    #[derive(Interface, Clone)]
    #[graphql(field(name = "name", ty = "&String", desc = "The name."))]
    pub enum Named {
        Dog(Dog),
        Cat(Cat),
        Robot(Robot),
        Pet(Pet),
    }

    #[derive(Interface, Clone)]
    #[graphql(field(name = "name", ty = "&String"), field(name = "mood", ty = "&Mood"))]
    pub enum Pet {
        Dog(Dog),
        Cat(Cat),
    }

    #[derive(Union, Clone)]
    pub enum Thing {
        Dog(Dog),
        Robot(Robot),
    }

    fn dog() -> Dog {
        Dog { name: "Rex".into(), mood: Mood::Happy, nick: None, legs: 4 }
    }
    fn cat() -> Cat {
        Cat { name: "Tom".into(), mood: Mood::Grumpy, lives: 9 }
    }
    fn robot() -> Robot {
        Robot { name: "R2".into(), serial: 7 }
    }

    pub struct Query;
    #[Object]
    impl Query {
        /// Find pets.
        async fn pets(&self, #[graphql(default = 3)] first: i32, #[graphql(desc = "Narrow the result.")] filter: Option<Filter>, #[graphql(default_with = "vec![1, 2]")] ids: Vec<i32>) -> Vec<Pet> {
            let _ = (first, filter, ids);
            vec![Pet::Dog(dog()), Pet::Cat(cat())]
        }
        async fn named(&self, key: Option<Key>) -> Option<Named> {
            let _ = key;
            Some(Named::Robot(robot()))
        }
        async fn things(&self) -> Vec<Option<Thing>> {
            vec![Some(Thing::Dog(dog())), None, Some(Thing::Robot(robot()))]
        }
        async fn matrix(&self) -> Vec<Vec<i32>> {
            vec![vec![1, 2], vec![]]
        }
        async fn stamp(&self, at: Option<Stamp>) -> Stamp {
            at.unwrap_or(Stamp(1))
        }
        #[graphql(deprecation = "gone")]
        async fn old(&self) -> Option<f64> {
            None
        }
        async fn mood(&self, #[graphql(default_with = "Mood::Grumpy")] m: Mood, flag: Option<bool>, #[graphql(default = "x\"y")] label: String) -> Mood {
            let _ = (flag, label);
            m
        }
    }

    pub struct Mutation;
    #[Object]
    impl Mutation {
        async fn rename(&self, id: ID, name: String) -> Dog {
            let _ = id;
            Dog { name, ..dog() }
        }
    }

    pub struct Subscription;
    #[Subscription]
    impl Subscription {
        async fn ticks(&self, #[graphql(default = 1)] step: i32) -> impl Stream<Item = i32> {
            stream::iter(vec![step])
        }
    }

    pub type S = Schema<Query, Mutation, Subscription>;
    pub fn schema() -> S {
        Schema::build(Query, Mutation, Subscription).finish()
    }
}

/// Hand-written description of Z (not derived from the schema under test).
const Z_EXPECTED: &str = r#"
"How a pet feels."
enum Mood { HAPPY GRUMPY_CAT "Mostly asleep." SLEEPY @deprecated(reason: "use HAPPY") }
"A point in time."
scalar Stamp
input Range { lo: Int! hi: Int! = 10 }
"Which pets to return."
input Filter { "At most this many." limit: Int! = 5 mood: Mood tags: [String!]! = ["a"] range: Range weights: [Float] }
input Key @oneOf { id: ID name: String }
type Dog implements Named & Pet { name: String! mood: Mood! nick: String @deprecated(reason: "use name") legs: Int! }
"A cat."
type Cat implements Named & Pet { name: String! mood: Mood! lives: Int! }
type Robot implements Named { name: String! serial: Int! }
"Anything with a name."
interface Named { "The name." name: String! }
interface Pet implements Named { name: String! mood: Mood! }
union Thing = Dog | Robot
type Query {
  "Find pets."
  pets(first: Int! = 3, "Narrow the result." filter: Filter, ids: [Int!]! = [1, 2]): [Pet!]!
  named(key: Key): Named
  things: [Thing]!
  matrix: [[Int!]!]!
  stamp(at: Stamp): Stamp!
  old: Float @deprecated(reason: "gone")
  mood(m: Mood! = GRUMPY_CAT, flag: Boolean, label: String! = "x\"y"): Mood!
}
type Mutation { rename(id: ID!, name: String!): Dog! }
type Subscription { ticks(step: Int! = 1): Int! }
"#;

// ------------------------------------------------------------------------------------------------------------
// static visibility schema W

#[allow(dead_code)]
mod vis {
    use async_graphql::*;

    /// capabilities carried by the request (`Request::data(Caps(..))`); no data = no capability
    #[derive(Clone, Copy, PartialEq, Eq, Debug)]
    pub struct Caps(pub u32);

    macro_rules! caps {
        ($($name:ident = $bit:expr;)*) => {
            $(pub const $name: u32 = 1 << $bit;)*
            pub const BITS: &[(&str, u32)] = &[$((stringify!($name), $name)),*];
        };
    }
    caps! {
        T_ALPHA = 0; T_IOTA = 1; T_ZETA = 2; T_THETA = 3; T_GAMMA = 4; T_KAPPA = 5;
        F_BETA = 6; F_ALPHA_REF = 7; V_EPSILON = 8; A_DELTA = 9; A_THETA = 10; I_ETA = 11; I_ZETA = 12; F_NU = 13; F_XI = 14;
    }
    fn has(ctx: &Context<'_>, mask: u32) -> bool {
        ctx.data_opt::<Caps>().map_or(0, |c| c.0) & mask == mask
    }
    /// a predicate = "all these capabilities are present"; an element that refers to a hideable type also
    /// requires that type's capability (coherent configurations only)
    macro_rules! pred {
        ($($f:ident = $m:expr;)*) => { $(pub fn $f(ctx: &Context<'_>) -> bool { has(ctx, $m) })* };
    }
    pred! {
        t_alpha = T_ALPHA; t_iota = T_IOTA; t_zeta = T_ZETA; t_theta = T_THETA; t_gamma = T_GAMMA; t_kappa = T_KAPPA;
        f_beta = F_BETA; f_alpha_ref = F_ALPHA_REF | T_ALPHA; v_epsilon = V_EPSILON; a_delta = A_DELTA; a_theta = A_THETA | T_THETA;
        i_eta = I_ETA; i_zeta = I_ZETA | T_ZETA; f_nu = F_NU; f_xi = F_XI;
    }

    #[derive(SimpleObject, Clone)]
    #[graphql(visible = "t_alpha")]
    pub struct HiddenTypeAlpha {
        pub code: i32,
    }

    #[derive(SimpleObject, Clone)]
    #[graphql(visible = "t_iota")]
    pub struct HiddenTypeIota {
        pub id: ID,
        #[graphql(visible = "f_xi")]
        pub hidden_iface_field_xi: i32,
    }

    #[derive(Enum, Copy, Clone, Eq, PartialEq)]
    pub enum AccountKind {
        Free,
        #[graphql(visible = "v_epsilon")]
        HiddenValueEpsilon,
        Paid,
    }

    #[derive(Enum, Copy, Clone, Eq, PartialEq)]
    #[graphql(visible = "t_zeta")]
    pub enum HiddenEnumZeta {
        A,
        B,
    }

    #[derive(InputObject)]
    #[graphql(visible = "t_theta")]
    pub struct HiddenInputTheta {
        pub x: i32,
    }

    #[derive(InputObject)]
    pub struct Search {
        pub term: String,
        #[graphql(visible = "i_eta")]
        pub hidden_input_field_eta: Option<i32>,
        #[graphql(visible = "i_zeta")]
        pub hidden_zeta_ref: Option<HiddenEnumZeta>,
    }

    /// only used as an argument type
    #[derive(InputObject)]
    pub struct Paging {
        #[graphql(default = 10)]
        pub size: i32,
        pub order: Option<SortOrder>,
    }
    /// only used inside an input object that is only used as an argument type
    #[derive(Enum, Copy, Clone, Eq, PartialEq)]
    pub enum SortOrder {
        Asc,
        Desc,
    }

    #[derive(SimpleObject, Clone)]
    pub struct Account {
        pub id: ID,
        #[graphql(visible = "f_beta")]
        pub hidden_field_beta: String,
        #[graphql(visible = "f_alpha_ref")]
        pub hidden_alpha_ref: Option<HiddenTypeAlpha>,
        pub kind: AccountKind,
        #[graphql(visible = "f_xi")]
        pub hidden_iface_field_xi: i32,
    }

    #[derive(SimpleObject, Clone)]
    pub struct Team {
        pub id: ID,
        pub size: i32,
        #[graphql(visible = "f_xi")]
        pub hidden_iface_field_xi: i32,
    }

    #[derive(Interface, Clone)]
    #[graphql(visible = "t_gamma", field(name = "id", ty = "&ID"))]
    pub enum HiddenIfaceGamma {
        Account(Account),
    }

    #[derive(Interface, Clone)]
    #[graphql(field(name = "id", ty = "&ID"), field(name = "hidden_iface_field_xi", ty = "&i32", visible = "f_xi"))]
    pub enum Entity {
        Account(Account),
        Team(Team),
        HiddenTypeIota(HiddenTypeIota),
    }

    // types that are referenced ONLY through a field of the interface `Item`, whose single implementor can be
    // hidden: they must stay listed as long as the interface field is visible
    #[derive(SimpleObject, Clone)]
    pub struct Detail {
        pub text: String,
    }
    #[derive(InputObject)]
    pub struct DetailFilter {
        pub q: Option<i32>,
    }
    #[derive(Clone)]
    pub struct HiddenImplLambda;
    #[Object(visible = "t_iota")]
    impl HiddenImplLambda {
        async fn detail(&self, filter: Option<DetailFilter>) -> Detail {
            let _ = filter;
            Detail { text: "d".into() }
        }
    }
    #[derive(Interface, Clone)]
    #[graphql(field(name = "detail", ty = "Detail", arg(name = "filter", ty = "Option<DetailFilter>")))]
    pub enum Item {
        HiddenImplLambda(HiddenImplLambda),
    }

    #[derive(Union, Clone)]
    pub enum Subject {
        Account(Account),
        Team(Team),
        HiddenTypeAlpha(HiddenTypeAlpha),
    }

    #[derive(Union, Clone)]
    #[graphql(visible = "t_kappa")]
    pub enum HiddenUnionKappa {
        Account(Account),
        Team(Team),
    }

    fn account() -> Account {
        Account { id: "a1".into(), hidden_field_beta: "b".into(), hidden_alpha_ref: Some(HiddenTypeAlpha { code: 1 }), kind: AccountKind::Free, hidden_iface_field_xi: 1 }
    }
    fn team() -> Team {
        Team { id: "t1".into(), size: 3, hidden_iface_field_xi: 2 }
    }

    pub struct Query;
    #[Object]
    impl Query {
        async fn account(
            &self,
            #[graphql(visible = "a_delta")] hidden_arg_delta: Option<i32>,
            search: Option<Search>,
            paging: Option<Paging>,
            #[graphql(visible = "a_theta")] hidden_theta_arg: Option<HiddenInputTheta>,
        ) -> Account {
            let _ = (hidden_arg_delta, search, paging, hidden_theta_arg);
            account()
        }
        async fn subject(&self) -> Subject {
            Subject::Team(team())
        }
        async fn entities(&self) -> Vec<Entity> {
            vec![Entity::Account(account()), Entity::Team(team())]
        }
        async fn item(&self) -> Option<Item> {
            None
        }
        // anchors: every hideable type is referenced by an element that is visible exactly when the type is
        #[graphql(visible = "t_alpha")]
        async fn hidden_alpha_anchor(&self) -> Option<HiddenTypeAlpha> {
            None
        }
        #[graphql(visible = "t_iota")]
        async fn hidden_iota_anchor(&self) -> Option<HiddenTypeIota> {
            None
        }
        #[graphql(visible = "t_zeta")]
        async fn hidden_zeta_anchor(&self) -> Option<HiddenEnumZeta> {
            Some(HiddenEnumZeta::B)
        }
        async fn anchors(&self, #[graphql(visible = "t_theta")] hidden_theta_anchor: Option<HiddenInputTheta>) -> i32 {
            hidden_theta_anchor.map_or(0, |t| t.x)
        }
        #[graphql(visible = "t_gamma")]
        async fn hidden_gamma_anchor(&self) -> Option<HiddenIfaceGamma> {
            Some(HiddenIfaceGamma::Account(account()))
        }
        #[graphql(visible = "t_kappa")]
        async fn hidden_kappa_anchor(&self) -> Vec<HiddenUnionKappa> {
            vec![HiddenUnionKappa::Team(team())]
        }
    }

    pub struct Mutation;
    #[Object]
    impl Mutation {
        async fn touch(&self, id: ID) -> Account {
            let _ = id;
            account()
        }
        #[graphql(visible = "f_nu")]
        async fn hidden_mutation_nu(&self, #[graphql(visible = "t_theta")] hidden_theta_nu_arg: Option<HiddenInputTheta>) -> i32 {
            hidden_theta_nu_arg.map_or(0, |t| t.x)
        }
    }

    pub type S = Schema<Query, Mutation, EmptySubscription>;
    pub fn schema() -> S {
        Schema::build(Query, Mutation, EmptySubscription).finish()
    }
}

/// Hand-written description of W. `@need(cap: "X")` = the element itself is visible only to requests carrying
/// capability X. On top of that (coherence) a field / argument / input field is visible only if its type is, and
/// union members / implemented interfaces / possible types follow their types.
const W_EXPECTED: &str = r#"
type HiddenTypeAlpha @need(cap: "T_ALPHA") { code: Int! }
type HiddenTypeIota implements Entity @need(cap: "T_IOTA") { id: ID! hiddenIfaceFieldXi: Int! @need(cap: "F_XI") }
enum AccountKind { FREE HIDDEN_VALUE_EPSILON @need(cap: "V_EPSILON") PAID }
enum HiddenEnumZeta @need(cap: "T_ZETA") { A B }
input HiddenInputTheta @need(cap: "T_THETA") { x: Int! }
input Search { term: String! hiddenInputFieldEta: Int @need(cap: "I_ETA") hiddenZetaRef: HiddenEnumZeta @need(cap: "I_ZETA") }
"only used as an argument type"
input Paging { size: Int! = 10 order: SortOrder }
"only used inside an input object that is only used as an argument type"
enum SortOrder { ASC DESC }
type Account implements HiddenIfaceGamma & Entity {
  id: ID! hiddenFieldBeta: String! @need(cap: "F_BETA") hiddenAlphaRef: HiddenTypeAlpha @need(cap: "F_ALPHA_REF") kind: AccountKind! hiddenIfaceFieldXi: Int! @need(cap: "F_XI")
}
type Team implements Entity { id: ID! size: Int! hiddenIfaceFieldXi: Int! @need(cap: "F_XI") }
interface HiddenIfaceGamma @need(cap: "T_GAMMA") { id: ID! }
interface Entity { id: ID! hiddenIfaceFieldXi: Int! @need(cap: "F_XI") }
type Detail { text: String! }
input DetailFilter { q: Int }
type HiddenImplLambda implements Item @need(cap: "T_IOTA") { detail(filter: DetailFilter): Detail! }
interface Item { detail(filter: DetailFilter): Detail! }
union Subject = Account | Team | HiddenTypeAlpha
union HiddenUnionKappa @need(cap: "T_KAPPA") = Account | Team
type Query {
  account(hiddenArgDelta: Int @need(cap: "A_DELTA"), search: Search, paging: Paging, hiddenThetaArg: HiddenInputTheta @need(cap: "A_THETA")): Account!
  subject: Subject!
  entities: [Entity!]!
  item: Item
  hiddenAlphaAnchor: HiddenTypeAlpha
  hiddenIotaAnchor: HiddenTypeIota
  hiddenZetaAnchor: HiddenEnumZeta
  anchors(hiddenThetaAnchor: HiddenInputTheta): Int!
  hiddenGammaAnchor: HiddenIfaceGamma
  hiddenKappaAnchor: [HiddenUnionKappa!]!
}
type Mutation { touch(id: ID!): Account! hiddenMutationNu(hiddenThetaNuArg: HiddenInputTheta): Int! @need(cap: "F_NU") }
"#;

fn need(ds: &[vgql::ast::Directive]) -> u32 {
    ds.iter()
        .find(|d| d.name.s == "need")
        .and_then(|d| d.args.iter().find(|(n, _)| n.s == "cap"))
        .map(|(_, v)| match &v.v {
            vgql::ast::Val::Str(t) => vis::BITS.iter().find(|(n, _)| n == t).unwrap_or_else(|| panic!("unknown capability {}", t)).1,
            _ => panic!("@need(cap:) takes a string"),
        })
        .unwrap_or(0)
}

/// The expectation table restricted to a set of capabilities, and the names (sentinels) of every element that is
/// hidden from it.
fn restrict(doc: &SdlDoc, caps: u32) -> (Sch, Vec<String>) {
    let mut hidden = vec![];
    let mut out = SdlDoc::default();
    let ok = |n: u32| n & caps == n;
    let gone: Vec<String> = doc
        .defs
        .iter()
        .filter_map(|d| match d {
            SdlDef::Type(t) if !ok(need(&t.directives)) => Some(t.name.clone()),
            _ => None,
        })
        .collect();
    for d in &doc.defs {
        if let SdlDef::Type(t) = d {
            if gone.contains(&t.name) {
                hidden.push(t.name.clone());
                continue;
            }
            let mut t = t.clone();
            t.interfaces.retain(|i| !gone.contains(i));
            t.members.retain(|i| !gone.contains(i));
            let mut keep_input = |a: &vgql::refparse::InputDefn| {
                let keep = ok(need(&a.directives)) && !gone.iter().any(|g| g == a.ty.base());
                if !keep {
                    hidden.push(a.name.clone());
                }
                keep
            };
            for f in &mut t.fields {
                f.args.retain(&mut keep_input);
            }
            t.input_fields.retain(&mut keep_input);
            t.fields.retain(|f| {
                let keep = ok(need(&f.directives)) && !gone.iter().any(|g| g == f.ty.base());
                if !keep {
                    hidden.push(f.name.clone());
                }
                keep
            });
            t.values.retain(|f| {
                let keep = ok(need(&f.directives));
                if !keep {
                    hidden.push(f.name.clone());
                }
                keep
            });
            out.defs.push(SdlDef::Type(t));
        }
    }
    hidden.sort();
    hidden.dedup();
    (from_sdl(&out).expect("expectation table"), hidden)
}

// ------------------------------------------------------------------------------------------------------------
// oracle

#[derive(Clone, Debug, PartialEq)]
enum Dev {
    Issue(Issue),
    VsSource(Diff),
    VsSdl(Diff),
    Other(String),
}
impl Dev {
    fn show(&self) -> String {
        match self {
            Dev::Issue(i) => format!("self-consistency: {}", i.show()),
            Dev::VsSource(d) => format!("introspection vs source schema: {}", d.show()),
            Dev::VsSdl(d) => format!("introspection vs exported SDL: {}", d.show()),
            Dev::Other(s) => s.clone(),
        }
    }
}

/// quirks of the findings: which deviations each one predicts
struct Quirk {
    id: &'static str,
    explains: Box<dyn Fn(&Dev, &Sch, &[Dev]) -> bool>,
}

fn interfaces_null_for(all: &[Dev], ty: &str) -> bool {
    all.iter().any(|d| matches!(d, Dev::Issue(Issue::InterfacesNotAList { ty: t, kind: Kind::Interface }) if t == ty))
}

fn quirks(dynamic: bool) -> Vec<Quirk> {
    let mut q = vec![Quirk {
        // `__Type.interfaces` answers null for INTERFACE types (so what an interface implements is unknown to the client)
        id: "C18-F1",
        explains: Box::new(|d, expected, all| match d {
            Dev::Issue(Issue::InterfacesNotAList { kind: Kind::Interface, .. }) => true,
            Dev::VsSource(x) | Dev::VsSdl(x) if x.what == "interfaces" => {
                let ty = x.at.trim_end_matches(".interfaces");
                expected.kind(ty) == Some(Kind::Interface) && interfaces_null_for(all, ty) && x.actual == "[]"
            }
            _ => false,
        }),
    }];
    q.push(Quirk {
        // an interface that implements an interface is reported among the possible types of that interface
        id: "C18-F3",
        explains: Box::new(|d, expected, _| match d {
            Dev::Issue(Issue::WrongKindMember { ty, list: "possibleTypes", member, .. }) => expected.kind(member) == Some(Kind::Interface) && expected.implements(member, ty),
            Dev::Issue(Issue::PossibleTypes { ty, reported, expected: want }) => {
                let mut rest: Vec<String> = reported.iter().filter(|m| !(expected.kind(m) == Some(Kind::Interface) && expected.implements(m, ty))).cloned().collect();
                rest.sort();
                rest.len() < reported.len() && &rest == want
            }
            _ => false,
        }),
    });
    if dynamic {
        q.push(Quirk {
            // dynamic schemas do not record which interfaces an interface implements
            id: "C18-F2",
            explains: Box::new(|d, expected, all| match d {
                Dev::VsSource(x) if x.what == "interfaces" => {
                    let ty = x.at.trim_end_matches(".interfaces");
                    expected.kind(ty) == Some(Kind::Interface) && !interfaces_null_for(all, ty) && x.actual == "[]"
                }
                _ => false,
            }),
        });
    }
    q
}

/// Deviations -> verdict. `masked` findings are silently tolerated (main streams), `open` ones attributed (probes).
fn judge(text: String, devs: Vec<Dev>, expected: &Sch, qs: &[Quirk], open: &[&str], masked: bool) -> Case {
    let mut ids: Vec<String> = vec![];
    let mut unexplained = vec![];
    for d in &devs {
        match qs.iter().find(|q| open.contains(&q.id) && (q.explains)(d, expected, &devs)) {
            Some(q) => {
                if !ids.contains(&q.id.to_string()) {
                    ids.push(q.id.to_string());
                }
            }
            None => unexplained.push(d.show()),
        }
    }
    if !unexplained.is_empty() {
        return Case::fail(text, unexplained.join("\n  "));
    }
    if ids.is_empty() || masked {
        Case::pass(text)
    } else {
        Case::known(text, ids)
    }
}

type Exec<'a> = &'a dyn Fn(Request) -> Response;

fn errors_of(r: &Response) -> String {
    format!("{:?}", r.errors.iter().map(|e| e.message.clone()).collect::<Vec<_>>())
}

/// Run the standard query; (a) self-consistency, (b) equality with `expected` and, if given, with the SDL.
fn introspect(exec: Exec, expected: &Sch, sdl: Option<&str>) -> Result<(Introspected, Vec<Dev>, String), String> {
    let resp = exec(Request::new(INTROSPECTION_QUERY));
    if !resp.errors.is_empty() {
        return Err(format!("the standard introspection query is answered with errors: {}", errors_of(&resp)));
    }
    let data = resp_data(&resp);
    let text = serde_json::to_string(&data).unwrap();
    let intro = introspection_to_sch(&data);
    let mut devs: Vec<Dev> = intro.issues.iter().cloned().map(Dev::Issue).collect();
    devs.extend(sch_diff(expected, &intro.sch).into_iter().map(Dev::VsSource));
    if let Some(sdl) = sdl {
        match from_sdl_text(sdl) {
            Ok(s) => devs.extend(sch_diff(&s, &intro.sch).into_iter().map(Dev::VsSdl)),
            Err(e) => devs.push(Dev::Other(format!("exported SDL: {}", e))),
        }
    }
    // the same lists asked for with includeDeprecated: true may only add input values the schema shows to this request
    let resp2 = exec(Request::new(introspection_query_with_deprecated_inputs()));
    if !resp2.errors.is_empty() {
        devs.push(Dev::Other(format!("the introspection query with includeDeprecated: true on args / inputFields is answered with errors: {}", errors_of(&resp2))));
    } else {
        let intro2 = introspection_to_sch(&resp_data(&resp2));
        for (name, t2) in &intro2.sch.types {
            let Some(te) = expected.types.get(name) else { continue };
            for f2 in &t2.fields {
                let Some(fe) = te.fields.iter().find(|f| f.name == f2.name) else { continue };
                for a in &f2.args {
                    if !fe.args.iter().any(|x| x.name == a.name) {
                        devs.push(Dev::Other(format!("args(includeDeprecated: true) of {}.{} lists `{}`, which the schema does not show to this request", name, f2.name, a.name)));
                    }
                }
            }
            for a in &t2.input_fields {
                if !te.input_fields.iter().any(|x| x.name == a.name) {
                    devs.push(Dev::Other(format!("inputFields(includeDeprecated: true) of {} lists `{}`, which the schema does not show to this request", name, a.name)));
                }
            }
        }
    }
    for std in ["skip", "include", "deprecated"] {
        if !intro.directives.iter().any(|d| d.name == std) {
            devs.push(Dev::Other(format!("directive @{} is not listed", std)));
        }
    }
    Ok((intro, devs, text))
}

fn unmasked(devs: &[Dev], expected: &Sch, qs: &[Quirk], open: &[&str]) -> usize {
    devs.iter().filter(|d| !qs.iter().any(|q| open.contains(&q.id) && (q.explains)(d, expected, devs))).count()
}

// ------------------------------------------------------------------------------------------------------------
// dynamic schemas

#[derive(Clone)]
struct DynCfg {
    open: Vec<&'static str>,
    masked: bool,
    tcfg: TypedCfg,
    docs: usize,
}

/// Remove the leaf and input types nothing refers to (gen_sch reaches every composite type from `Query`).
fn prune_unreferenced(sch: &mut Sch) {
    loop {
        let mut used: Vec<String> = vec![];
        for t in sch.types.values() {
            for f in &t.fields {
                used.push(f.ty.base().to_string());
                used.extend(f.args.iter().map(|a| a.ty.base().to_string()));
            }
            used.extend(t.input_fields.iter().map(|a| a.ty.base().to_string()));
        }
        let before = sch.types.len();
        sch.types.retain(|n, t| !matches!(t.kind, Kind::Scalar | Kind::Enum | Kind::Input) || used.contains(n));
        if sch.types.len() == before {
            return;
        }
    }
}

fn dyn_case(s: &mut dyn Src, cfg: &DynCfg) -> Case {
    let mut sch = gen_sch(s, &SchCfg { subscription: true, ..SchCfg::default() });
    prune_unreferenced(&mut sch);
    let world = gen_world(&sch, s, &WorldCfg { null_composite_items: false, ..WorldCfg::default() });
    let rendered = format!("dynamic schema: {}", show_sch(&sch));
    let rt = Rt::new(world.clone());
    let schema = match build_dynamic(&sch, &rt, |b| b) {
        Ok(s) => s,
        Err(e) => return Case::fail(rendered, format!("HARNESS: generated schema does not build: {}", e)),
    };
    let exec = |r: Request| vcore::det::block_on(schema.execute(r));
    let inherits = sch.types.values().any(|t| t.kind == Kind::Interface && !t.interfaces.is_empty());
    let qs = quirks(true);
    let (intro, mut devs, _) = match introspect(&exec, &sch, Some(&schema.sdl())) {
        Ok(x) => x,
        Err(e) => return Case::fail(rendered, e),
    };
    let mut rendered = rendered;
    let mut docs = 0;
    if unmasked(&devs, &sch, &qs, &cfg.open) == 0 {
        // (c) the schema a client builds from the answer is the one the server executes
        for _ in 0..cfg.docs {
            let mut td = gen_typed_doc(&intro.sch, s, &cfg.tcfg);
            let text = print_plain(&mut td.doc);
            let want = match execute(&intro.sch, &td.doc, td.op_name.as_deref(), &td.vars, &world, Quirks::default()) {
                Ok(w) => w,
                Err(e) => return Case::fail(rendered, format!("HARNESS: reference executor rejects a generated request {}: {:?}", text, e)),
            };
            let resp = exec(request(&text, &td.vars, td.op_name.as_deref()));
            if let Err(e) = compare(&want, &resp) {
                rendered.push_str(&format!("\nworld: {}\nquery (generated from the introspected schema): {}\nvariables: {}", world.show(), text, vars_json(&td.vars)));
                devs.push(Dev::Other(format!("execution disagrees with the introspected schema: {}; errors reported: {}", e, errors_of(&resp))));
                break;
            }
            docs += 1;
        }
    }
    judge(rendered, devs, &sch, &qs, &cfg.open, cfg.masked)
        .nontrivial(inherits)
        .class_if(inherits, "interface-inheritance")
        .class_if(sch.mutation.is_some(), "mutation-root")
        .class_if(sch.subscription.is_some(), "subscription-root")
        .class_if(docs > 0, "documents-executed")
        .class_if(sch.types.values().any(|t| t.one_of), "oneOf-input")
}

// ------------------------------------------------------------------------------------------------------------
// static schemas

struct StaticCase<'a> {
    exec: Exec<'a>,
    expected: Sch,
    hidden: Vec<String>,
    sdl: Option<String>,
}

/// (a), (b), (d) for one static schema under one context
fn static_devs(c: &StaticCase) -> Result<(Introspected, Vec<Dev>), String> {
    let (intro, mut devs, raw) = introspect(c.exec, &c.expected, c.sdl.as_deref())?;
    for h in &c.hidden {
        if raw.contains(h.as_str()) {
            devs.push(Dev::Other(format!("hidden element {} occurs in the introspection response", h)));
        }
    }
    // __type answers null for hidden types and the type for listed ones
    let mut q = String::from("{");
    let names: Vec<&String> = c.hidden.iter().chain(intro.listed.iter()).collect();
    for (i, n) in names.iter().enumerate() {
        q.push_str(&format!(" t{}: __type(name: \"{}\") {{ name }}", i, n));
    }
    q.push_str(" }");
    let r = (c.exec)(Request::new(q));
    let d = resp_data(&r);
    if !r.errors.is_empty() {
        devs.push(Dev::Other(format!("__type queries answered with errors {}", errors_of(&r))));
    }
    for (i, n) in names.iter().enumerate() {
        let got = &d[format!("t{}", i)];
        let want = if i < c.hidden.len() { J::Null } else { serde_json::json!({ "name": n }) };
        if *got != want {
            devs.push(Dev::Other(format!("__type(name: \"{}\") answers {}, expected {}", n, got, want)));
        }
    }
    Ok((intro, devs))
}

/// (c) for static schemas: a document generated from the introspected schema validates and executes
fn static_doc(s: &mut dyn Src, sch: &Sch, exec: Exec, tcfg: &TypedCfg) -> (String, Option<Dev>, DocStats, bool) {
    let mut td = gen_typed_doc(sch, s, tcfg);
    let text = print_plain(&mut td.doc);
    let rendered = format!("{} variables {}", text, vars_json(&td.vars));
    let resp = exec(request(&text, &td.vars, td.op_name.as_deref()));
    let is_mutation = matches!(td.doc.ops().next().map(|o| o.kind), Some(OpKind::Mutation));
    let dev = if resp.errors.is_empty() && resp_data(&resp).is_object() {
        None
    } else {
        Some(Dev::Other(format!("a document generated from the introspected schema is not executed: {} -> data {} errors {}", rendered, resp_data(&resp), errors_of(&resp))))
    };
    (rendered, dev, td.stats, is_mutation)
}

fn doc_classes(c: Case, st: &DocStats, is_mutation: bool) -> Case {
    c.class_if(st.interface_cond + st.object_cond + st.union_cond_in_object > 0, "type-condition").class_if(st.vars > 0, "variables").class_if(is_mutation, "mutation")
}

struct StaticCfg {
    open: Vec<&'static str>,
    tcfg: TypedCfg,
}

fn z_doc_case(s: &mut dyn Src, sch: &Sch, exec: Exec, cfg: &StaticCfg) -> Case {
    let (rendered, dev, st, is_mutation) = static_doc(s, sch, exec, &cfg.tcfg);
    let text = format!("Z: {}", rendered);
    let c = match dev {
        None => Case::pass(text),
        Some(d) => Case::fail(text, d.show()),
    };
    doc_classes(c.nontrivial(st.fields >= 2), &st, is_mutation)
}

/// W under one set of capabilities (`None` = request without `Caps` data): introspection, then `docs` documents
fn w_case(s: &mut dyn Src, ws: &vis::S, table: &SdlDoc, caps: Option<u32>, docs: usize, cfg: &StaticCfg) -> Case {
    let bits = caps.unwrap_or(0);
    let all = vis::BITS.iter().fold(0, |a, (_, b)| a | b);
    let (expected, hidden) = restrict(table, bits);
    let exec = |r: Request| {
        let r = match caps {
            Some(c) => r.data(vis::Caps(c)),
            None => r,
        };
        vcore::det::block_on(ws.execute(r))
    };
    let mut text = format!(
        "W with capabilities {}[{}]",
        if caps.is_none() { "(no request data) " } else { "" },
        vis::BITS.iter().filter(|(_, b)| bits & b != 0).map(|(n, _)| *n).collect::<Vec<_>>().join(" ")
    );
    let c = StaticCase { exec: &exec, expected, hidden, sdl: if bits == all { Some(ws.sdl()) } else { None } };
    let qs = quirks(false);
    let (intro, mut devs) = match static_devs(&c) {
        Ok(x) => x,
        Err(e) => return Case::fail(text, e),
    };
    let mut acc = (DocStats::default(), false);
    if unmasked(&devs, &c.expected, &qs, &cfg.open) == 0 {
        for _ in 0..docs {
            let (rendered, dev, st, is_mutation) = static_doc(s, &intro.sch, &exec, &cfg.tcfg);
            text.push_str(&format!("\n  {}", rendered));
            acc.0.interface_cond += st.interface_cond + st.object_cond + st.union_cond_in_object;
            acc.0.vars += st.vars;
            acc.1 |= is_mutation;
            if let Some(d) = dev {
                devs.push(d);
                break;
            }
        }
    }
    let n_hidden = c.hidden.len();
    let n_types = table.defs.len();
    // the main search tolerates (masks) the open findings; the explicit corner cases attribute them
    doc_classes(judge(text, devs, &c.expected, &qs, &cfg.open, docs > 0).nontrivial(n_hidden > 0), &acc.0, acc.1)
        .class_if(n_hidden > 0, "hidden-elements")
        .class_if(n_hidden >= 8, "hidden-elements>=8")
        .class_if(bits == all, "all-visible")
        .class_if(c.expected.types.len() < n_types, "hidden-types")
}

pub fn run(ctx: &mut Ctx) {
    ctx.rule = "dynamic: random type systems (gen_sch, <=12 types, interface inheritance, oneOf, subscription root; leaf/input types nothing refers to removed) built with build_dynamic; \
                static: zoo Z, and visibility schema W under random / all subsets of its 15 request-data capabilities. Each case runs the standard introspection query, rebuilds a \
                client schema from the JSON, checks self-consistency, equality with the source schema restricted to the context and (all-visible contexts) with the exported SDL, \
                hidden sentinels and __type, and executes documents generated from the introspected schema. Non-trivial = interface inheritance present, or >=1 element hidden from \
                the context, or (Z document cases) >=2 fields; distinct by rendered case"
        .into();
    ctx.assume("only coherent visibility configurations: a field / argument / input field whose type is hidden from a context is itself hidden from it (W's predicates are conjunctions that include the type's capability); union members, implemented interfaces and possible types that are hidden are expected to be filtered out");
    ctx.assume("every type is referenced by an element that is visible whenever the type is (W's anchor fields); types nothing refers to are outside the domain: introspection omits them (pinned by tests/interface_exporting.rs) while dynamic schemas still export them as SDL, and the statement does not say which is right");
    ctx.assume("`visible` is documented as affecting introspection only: that a hidden field can still be selected by a client that knows its name is not checked (the statement is about the introspection response)");
    ctx.assume("deprecated elements carry an explicit reason; arguments and input fields are not deprecated (the standard query does not ask for deprecated input values)");
    ctx.assume("order of types, fields, arguments, enum values, interfaces and possible types is not compared; default values are compared by what their literal denotes");
    ctx.assume("built-in scalars and the `__` introspection types are not part of the compared client schema; directive definitions are only checked for the presence of @skip/@include/@deprecated");
    ctx.assume("static resolvers never fail, so any error in the response to a generated document is a validation / coercion error");

    let dyn_open: Vec<&'static str> = ["C18-F1", "C18-F2"].into_iter().filter(|f| ctx.open(f)).collect();
    let static_open: Vec<&'static str> = ["C18-F1", "C18-F3"].into_iter().filter(|f| ctx.open(f)).collect();
    let mut tcfg = TypedCfg::default();
    tcfg.union_cond_in_object = !ctx.open("C02-F1") && !ctx.open("C01-F1");
    tcfg.defaulted_directive_vars = !ctx.open("C01-F2");
    tcfg.omitted_var_with_arg_default = !ctx.open("C06-F1");
    tcfg.ops = vec![OpKind::Query, OpKind::Mutation];
    let scfg = StaticCfg { open: static_open.clone(), tcfg: tcfg.clone() };
    for f in &static_open {
        ctx.excluded(f);
    }

    // ---- Z: explicit introspection case (also the witness of C18-F1 / C18-F3), then documents
    let t0 = std::time::Instant::now();
    let zs = zoo::schema();
    let z_expected = from_sdl_text(Z_EXPECTED).expect("Z expectation");
    let z_exec = |r: Request| vcore::det::block_on(zs.execute(r));
    let qs = quirks(false);
    let zc = StaticCase { exec: &z_exec, expected: z_expected.clone(), hidden: vec![], sdl: Some(zs.sdl()) };
    let ztext = "Z: standard introspection query".to_string();
    let z_intro = match static_devs(&zc) {
        Ok((intro, devs)) => {
            let ok = unmasked(&devs, &z_expected, &qs, &static_open) == 0;
            ctx.check_case("static-Z-introspection", judge(ztext, devs, &z_expected, &qs, &static_open, false).nontrivial(true).class("Z"), J::Null);
            if ok {
                Some(intro)
            } else {
                None
            }
        }
        Err(e) => {
            ctx.check_case("static-Z-introspection", Case::fail(ztext, e), J::Null);
            None
        }
    };
    ctx.enumerated("static-Z-introspection", 1, true, t0);
    if let Some(zi) = &z_intro {
        ctx.stream("static-Z-documents", ctx.tier.pick(10_000, 200_000), 400, |s| z_doc_case(s, &zi.sch, &z_exec, &scfg));
    }

    // ---- W: corner contexts explicitly (all subsets in the thorough tier), random subsets with documents
    let t0 = std::time::Instant::now();
    let ws = vis::schema();
    let table = parse_type_system(W_EXPECTED, &Opts::default()).expect("W expectation");
    let all = vis::BITS.iter().fold(0, |a, (_, b)| a | b);
    let mut corners: Vec<Option<u32>> = vec![None, Some(0), Some(all)];
    let exhaustive = ctx.tier.pick(false, true);
    if exhaustive {
        corners.extend((1..all).map(Some));
    } else {
        for (_, b) in vis::BITS {
            corners.push(Some(*b));
            corners.push(Some(all & !*b));
        }
    }
    let n = corners.len() as u64;
    for caps in corners {
        let case = w_case(&mut vcore::src::VecSrc::new(&[]), &ws, &table, caps, 0, &scfg);
        if ctx.check_case("static-W-contexts", case, J::Null) {
            break;
        }
    }
    ctx.enumerated("static-W-contexts", n, true, t0);
    ctx.note("W_contexts_exhaustive", serde_json::json!(exhaustive));
    ctx.stream("static-W-random-contexts", ctx.tier.pick(4_000, 100_000), 500, |s| {
        let mut caps = 0;
        for (_, b) in vis::BITS {
            if s.bool() {
                caps |= b;
            }
        }
        w_case(s, &ws, &table, Some(caps), 2, &scfg)
    });

    // ---- dynamic schemas
    let n_dyn = ctx.tier.pick(6_000u32, 200_000);
    // the deviations the open findings predict are tolerated (masked) in the main stream …
    let main = DynCfg { open: dyn_open.clone(), masked: true, tcfg: tcfg.clone(), docs: 3 };
    for f in &dyn_open {
        ctx.excluded(f);
    }
    ctx.stream("dynamic", n_dyn, 700, |s| dyn_case(s, &main));
    if !dyn_open.is_empty() {
        // … and attributed, deviation by deviation, in the probe stream
        let probe = DynCfg { open: dyn_open.clone(), masked: false, tcfg: tcfg.clone(), docs: 1 };
        ctx.stream("probe-dynamic-interfaces", n_dyn / 20, 700, |s| dyn_case(s, &probe));
    }
    ctx.floor("documents-executed", 1000);
    ctx.floor("hidden-elements", 1500);
    ctx.floor("hidden-types", 1500);
    ctx.floor("type-condition", 500);
    ctx.floor("interface-inheritance", 300);
}
