//! C22 — look-ahead and selection views list every sub-field that will be resolved.
//!
//! A derive-built, data-driven schema ("L") whose composite-returning resolvers record what `ctx.look_ahead()` and
//! `ctx.field().selection_set()` report (names, aliases, resolved arguments, two levels deep, and `exists()` probes
//! for every field name of the return type). Per resolver invocation the reference executor's collected field set
//! for the RUNTIME type of every object the resolver returns must be listed by both views (lower bound), and a view
//! may only list selections that are reachable through fragments (of any type condition) and not removed by
//! @skip/@include (upper bound).
use crate::execcmp::*;
use async_graphql::Value;
use indexmap::IndexMap;
use std::collections::{BTreeMap, HashMap, HashSet};
use std::sync::{Arc, Mutex};
use vcore::{Case, Ctx, Src};
use vgql::ast::*;
use vgql::coerce::*;
use vgql::gentyped::*;
use vgql::print::print_plain;
use vgql::refexec::{execute, included, show_path, Exec, Quirks, RefOut, Seg, Touch};
use vgql::sch::Sch;
use vgql::world::*;
use vschemas::rt::Rt;

// ---------------------------------------------------------------------------------------------------------------
// what a resolver records

#[derive(Clone, Debug)]
pub struct VField {
    name: String,
    alias: Option<String>,
    args: Result<Vec<(String, Value)>, String>,
}
impl VField {
    fn show(&self) -> String {
        let args = match &self.args {
            Ok(a) if a.is_empty() => String::new(),
            Ok(a) => format!("({})", a.iter().map(|(k, v)| format!("{}: {}", k, v)).collect::<Vec<_>>().join(", ")),
            Err(e) => format!("(<error: {}>)", e),
        };
        match &self.alias {
            Some(a) => format!("{}: {}{}", a, self.name, args),
            None => format!("{}{}", self.name, args),
        }
    }
}
fn show_fields(v: &[VField]) -> String {
    format!("[{}]", v.iter().map(|f| f.show()).collect::<Vec<_>>().join(", "))
}

/// one entry of `ctx.field().selection_set()` with the entries of its own `selection_set()`
#[derive(Clone, Debug)]
pub struct VNode {
    f: VField,
    children: Vec<VField>,
}

/// `ctx.look_ahead().field(name)`: `exists()`, `selection_fields()` and the same for `.field(name).field(sub)`
#[derive(Clone, Debug)]
pub struct Probe {
    name: String,
    exists: bool,
    fields: Vec<VField>,
    sub: Vec<(String, bool, Vec<VField>)>,
}

#[derive(Clone, Debug, Default)]
pub struct Rec {
    sel: Vec<VNode>,
    la: Vec<Probe>,
    count: usize,
}

pub struct Views {
    sch: Arc<Sch>,
    log: Mutex<BTreeMap<String, Rec>>,
}

// ---------------------------------------------------------------------------------------------------------------
// schema L

mod l {
    use super::{Probe, VField, VNode, Views};
    use async_graphql::*;
    use std::sync::Arc;
    use vgql::world::{Fault, WVal, World};
    use vschemas::rt::Rt;
    use vschemas::z::{FromW, Mood};

    fn bad<T>(what: &str, v: &WVal) -> Result<T> {
        Err(Error::new(format!("harness: world value {:?} is not {}", v, what)))
    }
    macro_rules! node_type {
        ($t:ident) => {
            pub struct $t(pub usize);
            impl FromW for $t {
                fn from_w(v: &WVal, w: &World) -> Result<Self> {
                    match v {
                        WVal::Ref(n) if w.nodes[*n].ty == stringify!($t) => Ok($t(*n)),
                        v => bad(stringify!($t), v),
                    }
                }
            }
        };
    }
    node_type!(Item);
    node_type!(Shelf);

    macro_rules! abstract_type {
        ($t:ident) => {
            impl FromW for $t {
                fn from_w(v: &WVal, w: &World) -> Result<Self> {
                    match v {
                        WVal::Ref(n) => match w.nodes[*n].ty.as_str() {
                            "Item" => Ok($t::Item(Item(*n))),
                            "Shelf" => Ok($t::Shelf(Shelf(*n))),
                            _ => bad(stringify!($t), v),
                        },
                        v => bad(stringify!($t), v),
                    }
                }
            }
        };
    }

    #[derive(Interface)]
    #[graphql(field(name = "id", ty = "ID"), field(name = "name", ty = "String"), field(name = "next", ty = "Option<Node>"), field(name = "rel", ty = "Option<Any>"))]
    pub enum Node {
        Item(Item),
        Shelf(Shelf),
    }
    abstract_type!(Node);

    #[derive(Union)]
    pub enum Any {
        Item(Item),
        Shelf(Shelf),
    }
    abstract_type!(Any);

    #[derive(InputObject)]
    pub struct Filter {
        pub q: Option<String>,
        #[graphql(default = 0)]
        pub min: i32,
        pub moods: Option<Vec<Mood>>,
    }

    fn vf(f: &SelectionField<'_>) -> VField {
        VField {
            name: f.name().to_string(),
            alias: f.alias().map(|a| a.to_string()),
            args: f.arguments().map(|a| a.into_iter().map(|(k, v)| (k.to_string(), v)).collect()).map_err(|e| e.message),
        }
    }

    /// field names of a composite type and of its possible types, plus `__typename`
    fn names_of(views: &Views, ty: &str) -> Vec<String> {
        let mut out: Vec<String> = vec!["__typename".into()];
        let mut types = vec![ty.to_string()];
        types.extend(views.sch.possible_types(ty));
        for t in types {
            if let Some(td) = views.sch.ty(&t) {
                for f in &td.fields {
                    if !out.contains(&f.name) {
                        out.push(f.name.clone());
                    }
                }
            }
        }
        out
    }
    /// the composite type (if any) that a field called `name` has on `ty` or one of its possible types
    fn composite_of(views: &Views, ty: &str, name: &str) -> Option<String> {
        let mut types = vec![ty.to_string()];
        types.extend(views.sch.possible_types(ty));
        types.iter().filter_map(|t| views.sch.field(t, name)).map(|f| f.ty.base().to_string()).find(|b| views.sch.is_composite(b))
    }

    /// record both views of the current field
    fn record(ctx: &Context<'_>, parent_type: &str, field: &str) {
        let views = match ctx.data::<Arc<Views>>() {
            Ok(v) => v,
            Err(_) => return,
        };
        let path = ctx.path_node.map(|p| p.to_string()).unwrap_or_default();
        let ret = views.sch.field(parent_type, field).map(|f| f.ty.base().to_string()).unwrap_or_default();
        let sel: Vec<VNode> = ctx.field().selection_set().map(|f| VNode { f: vf(&f), children: f.selection_set().map(|c| vf(&c)).collect() }).collect();
        let mut la = vec![];
        let look = ctx.look_ahead();
        for x in names_of(views, &ret) {
            let p = look.field(&x);
            let mut sub = vec![];
            if let Some(c) = composite_of(views, &ret, &x) {
                for y in names_of(views, &c) {
                    let q = p.field(&y);
                    sub.push((y, q.exists(), q.selection_fields().iter().map(vf).collect()));
                }
            }
            la.push(Probe { name: x, exists: p.exists(), fields: p.selection_fields().iter().map(vf).collect(), sub });
        }
        let mut log = views.log.lock().unwrap();
        let e = log.entry(path).or_default();
        e.count += 1;
        e.sel = sel;
        e.la = la;
    }

    /// the common resolver body (as in schema Z): the world value of (node, field) converted to the Rust type
    async fn res<T: FromW>(ctx: &Context<'_>, node: usize, field: &str) -> Result<T> {
        let rt = ctx.data::<Rt>()?;
        let world = rt.world.clone();
        if let Some(Fault::ResolverError) = world.fault(node, field) {
            return Err(Error::new("fault"));
        }
        let v = world.value(node, field).cloned().unwrap_or(WVal::Null);
        T::from_w(&v, &world)
    }
    /// body of a resolver that returns a composite type
    async fn resc<T: FromW>(ctx: &Context<'_>, node: usize, parent_type: &str, field: &str) -> Result<T> {
        record(ctx, parent_type, field);
        res(ctx, node, field).await
    }

    #[Object]
    impl Item {
        async fn id(&self, ctx: &Context<'_>) -> Result<ID> {
            res(ctx, self.0, "id").await
        }
        async fn name(&self, ctx: &Context<'_>) -> Result<String> {
            res(ctx, self.0, "name").await
        }
        async fn tag(&self, ctx: &Context<'_>, #[graphql(default_with = "Mood::Happy")] mood: Mood, f: Option<f64>) -> Result<Option<String>> {
            let _ = (mood, f);
            res(ctx, self.0, "tag").await
        }
        async fn score(&self, ctx: &Context<'_>) -> Result<Option<f64>> {
            res(ctx, self.0, "score").await
        }
        async fn parent(&self, ctx: &Context<'_>) -> Result<Option<Item>> {
            resc(ctx, self.0, "Item", "parent").await
        }
        async fn children(&self, ctx: &Context<'_>, #[graphql(default = 2)] first: i32, labels: Option<Vec<String>>) -> Result<Vec<Item>> {
            let _ = (first, labels);
            resc(ctx, self.0, "Item", "children").await
        }
        async fn shelf(&self, ctx: &Context<'_>) -> Result<Option<Shelf>> {
            resc(ctx, self.0, "Item", "shelf").await
        }
        async fn next(&self, ctx: &Context<'_>) -> Result<Option<Node>> {
            resc(ctx, self.0, "Item", "next").await
        }
        async fn rel(&self, ctx: &Context<'_>) -> Result<Option<Any>> {
            resc(ctx, self.0, "Item", "rel").await
        }
    }

    #[Object]
    impl Shelf {
        async fn id(&self, ctx: &Context<'_>) -> Result<ID> {
            res(ctx, self.0, "id").await
        }
        async fn name(&self, ctx: &Context<'_>) -> Result<String> {
            res(ctx, self.0, "name").await
        }
        async fn count(&self, ctx: &Context<'_>) -> Result<i32> {
            res(ctx, self.0, "count").await
        }
        async fn items(&self, ctx: &Context<'_>, first: Option<i32>) -> Result<Option<Vec<Option<Item>>>> {
            let _ = first;
            resc(ctx, self.0, "Shelf", "items").await
        }
        async fn top(&self, ctx: &Context<'_>, id: ID) -> Result<Option<Item>> {
            let _ = id;
            resc(ctx, self.0, "Shelf", "top").await
        }
        async fn next(&self, ctx: &Context<'_>) -> Result<Option<Node>> {
            resc(ctx, self.0, "Shelf", "next").await
        }
        async fn rel(&self, ctx: &Context<'_>) -> Result<Option<Any>> {
            resc(ctx, self.0, "Shelf", "rel").await
        }
    }

    fn root(ctx: &Context<'_>, mutation: bool) -> Result<usize> {
        let rt = ctx.data::<Rt>()?;
        if mutation {
            rt.world.mutation_root.ok_or_else(|| Error::new("harness: no mutation root"))
        } else {
            Ok(rt.world.query_root)
        }
    }

    pub struct Query;
    #[Object]
    impl Query {
        async fn item(&self, ctx: &Context<'_>, id: Option<ID>, #[graphql(default = 1)] n: i32) -> Result<Option<Item>> {
            let _ = (id, n);
            resc(ctx, root(ctx, false)?, "Query", "item").await
        }
        async fn items(&self, ctx: &Context<'_>, filter: Option<Filter>, first: Option<i32>) -> Result<Vec<Item>> {
            let _ = (filter, first);
            resc(ctx, root(ctx, false)?, "Query", "items").await
        }
        async fn node(&self, ctx: &Context<'_>) -> Result<Option<Node>> {
            resc(ctx, root(ctx, false)?, "Query", "node").await
        }
        async fn nodes(&self, ctx: &Context<'_>) -> Result<Option<Vec<Option<Node>>>> {
            resc(ctx, root(ctx, false)?, "Query", "nodes").await
        }
        async fn any(&self, ctx: &Context<'_>) -> Result<Option<Any>> {
            resc(ctx, root(ctx, false)?, "Query", "any").await
        }
        async fn anys(&self, ctx: &Context<'_>) -> Result<Option<Vec<Any>>> {
            resc(ctx, root(ctx, false)?, "Query", "anys").await
        }
        async fn shelf(&self, ctx: &Context<'_>) -> Result<Shelf> {
            resc(ctx, root(ctx, false)?, "Query", "shelf").await
        }
        async fn n(&self, ctx: &Context<'_>) -> Result<i32> {
            res(ctx, root(ctx, false)?, "n").await
        }
    }

    pub struct Mutation;
    #[Object]
    impl Mutation {
        #[graphql(name = "move")]
        async fn move_(&self, ctx: &Context<'_>, to: Option<ID>, filter: Option<Filter>) -> Result<Option<Item>> {
            let _ = (to, filter);
            resc(ctx, root(ctx, true)?, "Mutation", "move").await
        }
        async fn make(&self, ctx: &Context<'_>, #[graphql(default_with = "\"x\".to_string()")] name: String) -> Result<Shelf> {
            let _ = name;
            resc(ctx, root(ctx, true)?, "Mutation", "make").await
        }
        async fn touch(&self, ctx: &Context<'_>) -> Result<i32> {
            res(ctx, root(ctx, true)?, "touch").await
        }
    }

    pub type LSchema = Schema<Query, Mutation, EmptySubscription>;
    pub fn build() -> LSchema {
        Schema::build(Query, Mutation, EmptySubscription).finish()
    }
}

// ---------------------------------------------------------------------------------------------------------------
// the oracle

/// (name, alias, supplied arguments after coercion to the declared argument types)
#[derive(Clone, Debug, PartialEq)]
struct Ent {
    name: String,
    alias: Option<String>,
    args: IndexMap<String, CV>,
}
impl Ent {
    fn show(&self) -> String {
        let args = if self.args.is_empty() { String::new() } else { format!("({})", self.args.iter().map(|(k, v)| format!("{}: {}", k, v.show())).collect::<Vec<_>>().join(", ")) };
        match &self.alias {
            Some(a) => format!("{}: {}{}", a, self.name, args),
            None => format!("{}{}", self.name, args),
        }
    }
}

fn cv_of(v: &Value) -> CV {
    match v {
        Value::Null => CV::Null,
        Value::Number(n) => match n.as_i64() {
            Some(i) => CV::Int(i),
            None => CV::Float(n.as_f64().unwrap_or(f64::NAN)),
        },
        Value::String(s) => CV::Str(s.clone()),
        Value::Boolean(b) => CV::Bool(*b),
        Value::Binary(_) => CV::Str("<binary>".into()),
        Value::Enum(e) => CV::Enum(e.to_string()),
        Value::List(l) => CV::List(l.iter().map(cv_of).collect()),
        Value::Object(o) => CV::Obj(o.iter().map(|(k, v)| (k.to_string(), cv_of(v))).collect()),
    }
}

struct Oracle<'a> {
    sch: &'a Sch,
    doc: &'a Doc,
    world: &'a World,
    ex: Exec<'a>,
}

impl<'a> Oracle<'a> {
    /// what the document supplies for a field node selected on type `tctx`
    fn ent_of(&self, f: &Field, tctx: &str) -> Result<Ent, String> {
        let mut args = IndexMap::new();
        if !f.args.is_empty() {
            let fd = self.sch.field(tctx, &f.name.s).ok_or_else(|| format!("HARNESS: no field {}.{}", tctx, f.name.s))?;
            for (n, pv) in &f.args {
                let ad = fd.arg(&n.s).ok_or_else(|| format!("HARNESS: no argument {}.{}({})", tctx, f.name.s, n.s))?;
                match coerce_literal(self.sch, &ad.ty, &pv.v, Some(&self.ex.vars)) {
                    Ok(Some(cv)) => {
                        args.insert(n.s.clone(), cv);
                    }
                    Ok(None) => {}
                    Err(e) => return Err(format!("HARNESS: argument {} of {} does not coerce: {}", n.s, f.name.s, e.msg)),
                }
            }
        }
        Ok(Ent { name: f.name.s.clone(), alias: f.alias.as_ref().map(|a| a.s.clone()), args })
    }

    /// a view entry, its argument values coerced to the argument types of `tctx.name`
    fn ent_of_view(&self, v: &VField, tctx: &str) -> Result<Ent, String> {
        let raw = v.args.as_ref().map_err(|e| format!("arguments() failed: {}", e))?;
        let mut args = IndexMap::new();
        for (n, val) in raw {
            let ad = self.sch.field(tctx, &v.name).and_then(|fd| fd.arg(n)).ok_or_else(|| format!("argument {} is not defined for {}.{}", n, tctx, v.name))?;
            let cv = coerce_runtime(self.sch, &ad.ty, &cv_of(val)).map_err(|e| format!("argument {}: {} is not a value of {}: {}", n, val, ad.ty.show(), e.msg))?;
            args.insert(n.clone(), cv);
        }
        Ok(Ent { name: v.name.clone(), alias: v.alias.clone(), args })
    }

    /// upper bound: every selection below `sel` that @skip/@include keep, through fragments of any type condition
    fn allowed(&self, sel: &'a SelSet, tctx: &str, out: &mut Vec<(&'a Field, String)>, depth: usize) {
        if depth > 40 {
            return;
        }
        for it in &sel.items {
            match it {
                Selection::Field(f) => {
                    if included(&f.directives, &self.ex.vars) {
                        out.push((f, tctx.to_string()));
                    }
                }
                Selection::Inline(i) => {
                    if included(&i.directives, &self.ex.vars) {
                        self.allowed(&i.sel, i.cond.as_ref().map(|c| c.s.as_str()).unwrap_or(tctx), out, depth + 1);
                    }
                }
                Selection::Spread(sp) => {
                    if included(&sp.directives, &self.ex.vars) {
                        if let Some(fr) = self.doc.frag(&sp.name.s) {
                            self.allowed(&fr.sel, &fr.cond.s, out, depth + 1);
                        }
                    }
                }
            }
        }
    }

    /// lower bound: CollectFields for an object of run-time type `rt`
    fn collected(&self, rt: &str, sel: &'a SelSet) -> Vec<&'a Field> {
        let mut grouped: IndexMap<String, Vec<&'a Field>> = IndexMap::new();
        let mut visited = HashSet::new();
        self.ex.collect(rt, rt, sel, &mut visited, &mut grouped);
        grouped.into_values().map(|v| v[0]).collect()
    }

    fn objects(&self, v: Option<&WVal>, out: &mut Vec<usize>) {
        match v {
            Some(WVal::Ref(n)) => {
                if !out.contains(n) {
                    out.push(*n)
                }
            }
            Some(WVal::List(l)) => l.iter().for_each(|x| self.objects(Some(x), out)),
            _ => {}
        }
    }

    /// is the view entry one of the allowed selections (same name, alias and supplied arguments)?
    fn in_allowed(&self, v: &VField, allowed: &[(&'a Field, String)]) -> Result<(&'a Field, String), String> {
        let mut why = format!("no included selection `{}` below this field", v.show());
        for (f, t) in allowed {
            if f.name.s != v.name || f.alias.as_ref().map(|a| &a.s) != v.alias.as_ref() {
                continue;
            }
            let want = self.ent_of(f, t)?;
            match self.ent_of_view(v, t) {
                Ok(got) if got == want => return Ok((*f, t.clone())),
                Ok(got) => why = format!("lists `{}` but the document supplies `{}`", got.show(), want.show()),
                Err(e) => why = format!("`{}`: {}", v.show(), e),
            }
        }
        Err(why)
    }

    fn lists(&self, want: &Ent, tctx: &str, view: &[VField]) -> bool {
        view.iter().any(|v| v.name == want.name && v.alias == want.alias && self.ent_of_view(v, tctx).map_or(false, |g| g == *want))
    }
}

struct Stats {
    invocations: usize,
    abstract_ret: usize,
    level2: usize,
    pruned: usize,
    other_type_listed: usize,
    args_compared: usize,
}

/// check one invocation (touch `t` of a composite field); `node` = the field node that was executed
fn check_invocation<'a>(o: &Oracle<'a>, t: &Touch, node: &'a Field, rec: &Rec, st: &mut Stats) -> Result<(), String> {
    let ret = t.ty.base().to_string();
    let mut a1 = vec![];
    o.allowed(&node.sel, &ret, &mut a1, 0);
    let mut total = vec![];
    count_fields(o, &node.sel, &mut total);
    if total.len() > a1.len() {
        st.pruned += 1;
    }
    if o.sch.is_abstract(&ret) {
        st.abstract_ret += 1;
    }
    // ---- upper bounds
    for vn in &rec.sel {
        let (f, tctx) = o.in_allowed(&vn.f, &a1).map_err(|e| format!("selection_set(): {}", e))?;
        if let Some(c) = o.sch.field(&tctx, &f.name.s).map(|fd| fd.ty.base().to_string()).filter(|c| o.sch.is_composite(c)) {
            let mut a2 = vec![];
            o.allowed(&f.sel, &c, &mut a2, 0);
            for ch in &vn.children {
                o.in_allowed(ch, &a2).map_err(|e| format!("selection_set() of `{}`: {}", vn.f.show(), e))?;
            }
        } else if !vn.children.is_empty() {
            return Err(format!("selection_set() of the leaf `{}` lists {}", vn.f.show(), show_fields(&vn.children)));
        }
    }
    for p in &rec.la {
        if p.exists != !p.fields.is_empty() {
            return Err(format!("look_ahead().field({:?}): exists() = {} but selection_fields() = {}", p.name, p.exists, show_fields(&p.fields)));
        }
        let mut a2 = vec![];
        for v in &p.fields {
            if v.name != p.name {
                return Err(format!("look_ahead().field({:?}) lists `{}`", p.name, v.show()));
            }
            o.in_allowed(v, &a1).map_err(|e| format!("look_ahead().field({:?}): {}", p.name, e))?;
        }
        for (f, tctx) in a1.iter().filter(|(f, _)| f.name.s == p.name) {
            if let Some(c) = o.sch.field(tctx, &f.name.s).map(|fd| fd.ty.base().to_string()).filter(|c| o.sch.is_composite(c)) {
                o.allowed(&f.sel, &c, &mut a2, 0);
            }
        }
        for (y, exists, fields) in &p.sub {
            if *exists != !fields.is_empty() {
                return Err(format!("look_ahead().field({:?}).field({:?}): exists() = {} but selection_fields() = {}", p.name, y, exists, show_fields(fields)));
            }
            for v in fields {
                if v.name != *y {
                    return Err(format!("look_ahead().field({:?}).field({:?}) lists `{}`", p.name, y, v.show()));
                }
                o.in_allowed(v, &a2).map_err(|e| format!("look_ahead().field({:?}).field({:?}): {}", p.name, y, e))?;
            }
        }
    }
    // ---- lower bounds: what execution resolves for every object this resolver returned
    let mut objs = vec![];
    o.objects(o.world.value(t.node, &t.field), &mut objs);
    let mut resolved_keys: HashSet<String> = HashSet::new();
    for n in &objs {
        let rt = o.world.nodes[*n].ty.clone();
        for f in o.collected(&rt, &node.sel) {
            resolved_keys.insert(f.key().to_string());
            let want = o.ent_of(f, &rt)?;
            st.args_compared += want.args.len();
            let sel_entry = rec.sel.iter().find(|vn| o.lists(&want, &rt, std::slice::from_ref(&vn.f)));
            if sel_entry.is_none() {
                return Err(format!("selection_set() does not list `{}` (resolved for the {} at #{}); it lists {}", want.show(), rt, n, show_fields(&rec.sel.iter().map(|v| v.f.clone()).collect::<Vec<_>>())));
            }
            let probe = rec.la.iter().find(|p| p.name == f.name.s).ok_or_else(|| format!("HARNESS: no look-ahead probe for field name {}", f.name.s))?;
            if !probe.exists {
                return Err(format!("look_ahead().field({:?}).exists() is false although `{}` is resolved (for the {} at #{})", f.name.s, want.show(), rt, n));
            }
            if !o.lists(&want, &rt, &probe.fields) {
                return Err(format!("look_ahead().field({:?}) does not list `{}` (resolved for the {} at #{}); it lists {}", f.name.s, want.show(), rt, n, show_fields(&probe.fields)));
            }
            // second level
            if f.name.s == "__typename" {
                continue;
            }
            let fd = o.sch.field(&rt, &f.name.s).ok_or_else(|| format!("HARNESS: no field {}.{}", rt, f.name.s))?;
            if !o.sch.is_composite(fd.ty.base()) {
                continue;
            }
            let mut kids = vec![];
            o.objects(o.world.value(*n, &f.name.s), &mut kids);
            for m in &kids {
                let rt2 = o.world.nodes[*m].ty.clone();
                for g in o.collected(&rt2, &f.sel) {
                    st.level2 += 1;
                    let want2 = o.ent_of(g, &rt2)?;
                    let vn = sel_entry.unwrap();
                    if !o.lists(&want2, &rt2, &vn.children) {
                        return Err(format!("selection_set() of `{}` does not list `{}` (resolved for the {} at #{}); it lists {}", vn.f.show(), want2.show(), rt2, m, show_fields(&vn.children)));
                    }
                    let sub = probe.sub.iter().find(|(y, _, _)| *y == g.name.s).ok_or_else(|| format!("HARNESS: no look-ahead probe for {}.{}", f.name.s, g.name.s))?;
                    if !sub.1 {
                        return Err(format!("look_ahead().field({:?}).field({:?}).exists() is false although `{}` is resolved below `{}`", f.name.s, g.name.s, want2.show(), want.show()));
                    }
                    if !o.lists(&want2, &rt2, &sub.2) {
                        return Err(format!("look_ahead().field({:?}).field({:?}) does not list `{}` (resolved below `{}`); it lists {}", f.name.s, g.name.s, want2.show(), want.show(), show_fields(&sub.2)));
                    }
                }
            }
        }
    }
    if rec.sel.iter().any(|v| !resolved_keys.contains(v.f.alias.as_ref().unwrap_or(&v.f.name))) {
        st.other_type_listed += 1;
    }
    Ok(())
}

/// every field selection below `sel` through fragments, regardless of directives (to tell whether pruning happened)
fn count_fields<'a>(o: &Oracle<'a>, sel: &'a SelSet, out: &mut Vec<&'a Field>) {
    for it in &sel.items {
        match it {
            Selection::Field(f) => out.push(f),
            Selection::Inline(i) => count_fields(o, &i.sel, out),
            Selection::Spread(sp) => {
                if let Some(fr) = o.doc.frag(&sp.name.s) {
                    count_fields(o, &fr.sel, out)
                }
            }
        }
    }
}

/// response key -> field node, for the whole document (keys are unique: every field carries a fresh alias)
fn index_fields<'a>(doc: &'a Doc) -> Result<HashMap<String, &'a Field>, String> {
    fn walk<'a>(s: &'a SelSet, out: &mut HashMap<String, &'a Field>) -> Result<(), String> {
        for it in &s.items {
            match it {
                Selection::Field(f) => {
                    if f.name.s != "__typename" && out.insert(f.key().to_string(), f).is_some() {
                        return Err(format!("HARNESS: response key {} is used by two field nodes", f.key()));
                    }
                    walk(&f.sel, out)?;
                }
                Selection::Inline(i) => walk(&i.sel, out)?,
                Selection::Spread(_) => {}
            }
        }
        Ok(())
    }
    let mut out = HashMap::new();
    for d in &doc.defs {
        match d {
            Def::Op(o) => walk(&o.sel, &mut out)?,
            Def::Frag(f) => walk(&f.sel, &mut out)?,
        }
    }
    Ok(out)
}

fn check_all(sch: &Sch, td: &TypedDoc, world: &World, want: &RefOut, log: &BTreeMap<String, Rec>, st: &mut Stats) -> Result<(), String> {
    let op = vgql::refexec::select_operation(&td.doc, td.op_name.as_deref()).map_err(|e| format!("HARNESS: {:?}", e))?;
    let vars = coerce_variables(sch, op, &td.vars).map_err(|e| format!("HARNESS: variables: {}", e.msg))?;
    let ex = Exec { sch, doc: &td.doc, world, vars, out: RefOut::default(), quirks: Quirks::default(), invalid_leaves: false, pending_occ_all: IndexMap::new() };
    let o = Oracle { sch, doc: &td.doc, world, ex };
    let index = index_fields(&td.doc)?;
    for t in &want.touches {
        if !sch.is_composite(t.ty.base()) {
            continue;
        }
        let path = show_path(&t.path);
        let key = match t.path.last() {
            Some(Seg::Key(k)) => k,
            _ => return Err("HARNESS: touch path does not end in a key".into()),
        };
        let node = index.get(key).ok_or_else(|| format!("HARNESS: no field node for response key {}", key))?;
        let rec = match log.get(&path) {
            Some(r) if r.count == 1 => r,
            Some(r) => return Err(format!("the resolver at {} ran {} times (views cannot be attributed)", path, r.count)),
            None => return Err(format!("the resolver at {} did not run although the reference execution resolves that field", path)),
        };
        st.invocations += 1;
        check_invocation(&o, t, node, rec, st).map_err(|e| format!("resolver at `{}` ({}.{}): {}", path, t.parent_type, t.field, e))?;
    }
    Ok(())
}

fn run_one(schema: &l::LSchema, sch: &Arc<Sch>, s: &mut dyn Src, tcfg: &TypedCfg) -> Case {
    let world = gen_world(sch, s, &WorldCfg::default());
    let mut td = gen_typed_doc(sch, s, tcfg);
    let text = print_plain(&mut td.doc);
    let rendered = format!("world: {}\nquery: {}\nvariables: {}", world.show(), text, vars_json(&td.vars));
    let want = match execute(sch, &td.doc, td.op_name.as_deref(), &td.vars, &world, Quirks::default()) {
        Ok(w) => w,
        Err(e) => return Case::fail(rendered, format!("HARNESS: reference executor rejects a generated request: {:?}", e)),
    };
    let views = Arc::new(Views { sch: sch.clone(), log: Mutex::new(BTreeMap::new()) });
    let resp = vcore::det::block_on(schema.execute(request(&text, &td.vars, td.op_name.as_deref()).data(Rt::new(world.clone())).data(views.clone())));
    let log = views.log.lock().unwrap().clone();
    let mut st = Stats { invocations: 0, abstract_ret: 0, level2: 0, pruned: 0, other_type_listed: 0, args_compared: 0 };
    let verdict = check_all(sch, &td, &world, &want, &log, &mut st);
    let agrees = compare(&want, &resp).is_ok();
    let d = &td.stats;
    let c = match verdict {
        Ok(()) => Case::pass(rendered),
        Err(e) => Case::fail(rendered, e),
    };
    let nt = c.nontrivial || (st.invocations > 0 && (d.named_fragments + d.interface_cond + d.object_cond + d.union_cond_in_object > 0 || st.pruned > 0 || st.args_compared > 0));
    c.nontrivial(nt)
        .class_if(st.invocations > 0, "composite-resolver-invoked")
        .class_if(st.invocations >= 4, "invocations>=4")
        .class_if(st.abstract_ret > 0, "abstract-return-type")
        .class_if(st.level2 > 0, "second-level-resolved")
        .class_if(st.pruned > 0, "selection-pruned-by-directive")
        .class_if(st.other_type_listed > 0, "view-lists-field-of-other-runtime-type")
        .class_if(st.args_compared > 0, "arguments-compared")
        .class_if(d.named_fragments > 0, "named-fragment")
        .class_if(d.nested_fragments >= 2, "nested-fragments>=2")
        .class_if(d.directive_var > 0, "directive-variable")
        .class_if(d.directive_var_defaulted > 0, "defaulted-directive-variable")
        .class_if(d.vars_omitted > 0, "omitted-variable")
        .class_if(!agrees, "reference-disagrees-about-response")
}

pub fn run(ctx: &mut Ctx) {
    ctx.rule = "derive-built data-driven schema L (two objects, an interface and a union over them, list / non-null wrappers, arguments of type ID, Int, Float, enum, [String!], input \
                object, with and without defaults), data worlds valid for it, type-directed valid queries and mutations with aliases, inline and named fragments on every applicable \
                condition, @skip/@include with literals and variables, variables provided / omitted / defaulted; every composite-returning resolver records ctx.look_ahead() and \
                ctx.field().selection_set() two levels deep. Non-trivial = at least one recording resolver ran and the document has a typed fragment, a selection removed by a \
                directive below such a resolver, or supplied arguments below it; distinct by rendered (world, query, variables)"
        .into();
    ctx.assume("compared per listed sub-field: name, alias, and the SUPPLIED arguments (those the field node mentions and that have a value: literals, provided variables, defaulted variables; not argument defaults the node does not mention, not omitted variables) after coercing the view's values to the declared argument type with the reference coercion (so 1 for a Float argument equals 1.0, an enum given through a variable as a string equals the enum value, input-object field defaults are filled in on both sides)");
    ctx.assume("lower bound = CollectFields of the reference executor for the run-time type of every object the resolver returns (first and second level, __typename included); upper bound = selections reachable through inline fragments and fragment spreads of ANY type condition that @skip/@include keep: for abstract return types a view may list fields of fragments for other run-time types");
    ctx.assume("look_ahead() can only be probed by name: every field name of the return type and of its possible types (and __typename) is probed, and below each composite one every field name of its type; exists() must be true for resolved names and false when no included selection has that name");
    ctx.assume("response keys are unique within every selection set (TypedCfg.repeats = false): the oracle attributes every view to the one field node that carries its response key; merged fields (several nodes, one invocation) are outside the generated domain");
    ctx.assume("the Sch mirror of L is read back from L's SDL by the reference parser; documents are valid by construction; a disagreement between the reference executor and the response itself is C01's subject and only recorded as a class");
    if ctx.open("C04-F1") {
        ctx.excluded("C04-F1");
    }
    let schema = l::build();
    let mut sch = vgql::sch::from_sdl_text(&schema.sdl()).expect("L's SDL must be readable by the reference parser");
    for b in vgql::sch::BUILTIN_SCALARS {
        sch.types.shift_remove(b);
    }
    let sch = Arc::new(sch);
    let mut cfg = crate::c02::typed_cfg(ctx, "C01");
    cfg.repeats = false;
    cfg.ops = vec![OpKind::Query, OpKind::Query, OpKind::Query, OpKind::Mutation];
    let n = ctx.tier.pick(30_000, 1_000_000);
    ctx.stream("views", n, 700, |s| run_one(&schema, &sch, s, &cfg));
    ctx.floor("composite-resolver-invoked", 5_000);
    ctx.floor("abstract-return-type", 2_000);
    ctx.floor("second-level-resolved", 2_000);
    ctx.floor("selection-pruned-by-directive", 500);
    ctx.floor("arguments-compared", 1_000);
    ctx.floor("named-fragment", 500);
    ctx.floor("view-lists-field-of-other-runtime-type", 300);
}
