//! C04 — not built yet.
use vcore::Ctx;

pub fn run(_ctx: &mut Ctx) {
    eprintln!("C04: check not built yet");
    std::process::exit(2);
}
