//! C04 — merged fields resolve once; mutation root fields run one at a time in document order.
use crate::execcmp::*;
use std::collections::HashMap;
use vcore::det::run_with_gates;
use vcore::{Case, Ctx, Src};
use vgql::ast::*;
use vgql::gensch::*;
use vgql::gentyped::*;
use vgql::print::print_plain;
use vgql::refexec::{execute, show_path, Quirks, Seg};
use vgql::sch::Sch;
use vgql::world::*;
use vschemas::dynbuild::build_dynamic;
use vschemas::rt::{Ev, Rt};
use vschemas::z::{build_z, z_sch, ZSchema};

pub enum Flavour<'a> {
    Static(&'a ZSchema),
    Dynamic,
}

/// execute with every resolver gated; `pick` chooses which pending gate opens next
pub fn exec_gated(fl: &Flavour, sch: &Sch, rt: &Rt, text: &str, td: &TypedDoc, mut pick: impl FnMut(&[(usize, String)]) -> usize) -> Result<(async_graphql::Response, Vec<String>), String> {
    rt.set_gated(true);
    let req = request(text, &td.vars, td.op_name.as_deref());
    let fut: std::pin::Pin<Box<dyn std::future::Future<Output = async_graphql::Response> + Send>> = match fl {
        Flavour::Static(z) => {
            let z = (*z).clone();
            let req = req.data(rt.clone());
            Box::pin(async move { z.execute(req).await })
        }
        Flavour::Dynamic => {
            let schema = build_dynamic(sch, rt, |b| b).map_err(|e| format!("HARNESS: schema does not build: {}", e))?;
            Box::pin(async move { schema.execute(req).await })
        }
    };
    run_with_gates(fut, &rt.gates, |p| pick(p), 100_000).ok_or_else(|| "execution stalled: no pending gate and not finished (deadlock) or step bound exceeded".to_string())
}

pub fn exec_plain(fl: &Flavour, sch: &Sch, rt: &Rt, text: &str, td: &TypedDoc) -> Result<async_graphql::Response, String> {
    rt.set_gated(false);
    let req = request(text, &td.vars, td.op_name.as_deref());
    match fl {
        Flavour::Static(z) => Ok(vcore::det::block_on(z.execute(req.data(rt.clone())))),
        Flavour::Dynamic => {
            let schema = build_dynamic(sch, rt, |b| b).map_err(|e| format!("HARNESS: schema does not build: {}", e))?;
            Ok(vcore::det::block_on(schema.execute(req)))
        }
    }
}

fn once_case(s: &mut dyn Src, fl: &Flavour, fixed: Option<&Sch>, tcfg: &TypedCfg, f1_open: bool) -> Case {
    let gen;
    let sch: &Sch = match fixed {
        Some(s) => s,
        None => {
            gen = gen_sch(s, &SchCfg::default());
            &gen
        }
    };
    let dynamic = matches!(fl, Flavour::Dynamic);
    let world = gen_world(sch, s, &WorldCfg { null_composite_items: !dynamic, ..WorldCfg::default() });
    let mut td = gen_typed_doc(sch, s, tcfg);
    let text = print_plain(&mut td.doc);
    let head = format!("{}world: {}\nquery: {}\nvariables: {}", if fixed.is_none() { format!("schema: {}\n", show_sch(sch)) } else { String::new() }, world.show(), text, vars_json(&td.vars));
    let want = match execute(sch, &td.doc, td.op_name.as_deref(), &td.vars, &world, Quirks::default()) {
        Ok(w) => w,
        Err(e) => return Case::fail(head, format!("HARNESS: reference executor: {:?}", e)),
    };
    let rt = Rt::new(world.clone());
    let resp = match exec_plain(fl, sch, &rt, &text, &td) {
        Ok(r) => r,
        Err(e) => return Case::fail(head, e),
    };
    if let Err(e) = compare(&want, &resp) {
        return Case::fail(head, format!("merged result differs: {}", e));
    }
    let mut starts: HashMap<String, usize> = HashMap::new();
    for ev in rt.take_log() {
        if let Ev::Start { path, .. } = ev {
            *starts.entry(path).or_insert(0) += 1;
        }
    }
    let repeated = want.touches.iter().filter(|t| t.occurrences_all_spreads > 1).count();
    let mut known = false;
    let mut bad: Option<String> = None;
    for t in &want.touches {
        if !dynamic && vschemas::z::is_plain_data_field(&t.parent_type, &t.field) {
            continue;
        }
        let p = show_path(&t.path);
        let n = starts.get(&p).copied().unwrap_or(0);
        if n != 1 && bad.is_none() {
            bad = Some(format!("resolver of `{}` at path {} started {} times (response key collected from {} field nodes)", t.field, p, n, t.occurrences));
        }
    }
    // nothing may run that the reference did not execute
    for (p, n) in &starts {
        if !want.touches.iter().any(|t| &show_path(&t.path) == p) {
            return Case::fail(head, format!("resolver at path {} ran ({}x) although the field is not in the collected field set", p, n));
        }
    }
    if let Some(b) = bad {
        // does the deviation match the quirk of C04-F1 exactly (one execution per occurrence, every spread followed)?
        let predicted = vgql::refexec::starts_per_occurrence(sch, &td.doc, td.op_name.as_deref(), &td.vars, &world).unwrap_or_default();
        let mut predicted = predicted;
        if !dynamic {
            for t in &want.touches {
                if vschemas::z::is_plain_data_field(&t.parent_type, &t.field) {
                    predicted.remove(&show_path(&t.path));
                }
            }
        }
        if f1_open && predicted == starts {
            known = true;
        } else {
            return Case::fail(head, b);
        }
    }
    let c = if known { Case::known(head, vec!["C04-F1".into()]) } else { Case::pass(head) };
    c.nontrivial(repeated > 0).class_if(repeated > 0, "repeated-response-key").class(if dynamic { "once-dynamic" } else { "once-static" }).class_if(td.stats.named_fragments > 0, "through-named-fragment")
}

fn serial_case(s: &mut dyn Src, fl: &Flavour, sch: &Sch, tcfg: &TypedCfg, orders: usize) -> Case {
    let dynamic = matches!(fl, Flavour::Dynamic);
    let world = gen_world(sch, s, &WorldCfg { null_composite_items: !dynamic, ..WorldCfg::default() });
    let mut td = gen_typed_doc(sch, s, tcfg);
    let text = print_plain(&mut td.doc);
    let head = format!("world: {}\nquery: {}\nvariables: {}", world.show(), text, vars_json(&td.vars));
    let want = match execute(sch, &td.doc, td.op_name.as_deref(), &td.vars, &world, Quirks::default()) {
        Ok(w) => w,
        Err(e) => return Case::fail(head, format!("HARNESS: reference executor: {:?}", e)),
    };
    // root response keys in document (grouped) order
    let mut roots: Vec<String> = vec![];
    for t in &want.touches {
        if let (1, Some(Seg::Key(k))) = (t.path.len(), t.path.first()) {
            if !roots.contains(k) {
                roots.push(k.clone());
            }
        }
    }
    let gated_sub = want.touches.iter().any(|t| t.path.len() > 1);
    for o in 0..orders {
        let rt = Rt::new(world.clone());
        // order o: derive the pick sequence from the source so that it shrinks
        let mut picks: Vec<usize> = vec![];
        let r = exec_gated(fl, sch, &rt, &text, &td, |p| {
            let k = if o == 0 { 0 } else { s.choose(p.len()) };
            picks.push(k);
            k
        });
        let (resp, opened) = match r {
            Ok(x) => x,
            Err(e) => return Case::fail(head, e),
        };
        if let Err(e) = compare(&want, &resp) {
            return Case::fail(head, format!("gate order {:?}: {}", opened, e));
        }
        // seriality: everything under root key i finishes before anything under root key i+1 starts
        let log = rt.take_log();
        let root_of = |path: &str| -> Option<usize> {
            let first = path.split('.').next().unwrap_or("");
            roots.iter().position(|r| r == first)
        };
        let mut max_started: Option<usize> = None;
        let mut open_count: HashMap<usize, i64> = HashMap::new();
        for ev in &log {
            match ev {
                Ev::Start { path, .. } => {
                    if let Some(r) = root_of(path) {
                        if let Some(m) = max_started {
                            if r < m {
                                return Case::fail(head, format!("gate order {:?}: resolver at {} (root field #{}) started after root field #{} had started", opened, path, r, m));
                            }
                        }
                        // all earlier roots must be completely finished
                        for (er, cnt) in &open_count {
                            if *er < r && *cnt > 0 {
                                return Case::fail(head, format!("gate order {:?}: {} started while root field #{} still had {} unfinished resolvers", opened, path, er, cnt));
                            }
                        }
                        max_started = Some(max_started.map_or(r, |m| m.max(r)));
                        *open_count.entry(r).or_insert(0) += 1;
                    }
                }
                Ev::Finish { path, .. } => {
                    if let Some(r) = root_of(path) {
                        *open_count.entry(r).or_insert(0) -= 1;
                    }
                }
            }
        }
    }
    Case::pass(head).nontrivial(roots.len() >= 2 && gated_sub).class_if(roots.len() >= 2, "mutation-2+-root-fields").class_if(gated_sub, "gated-sub-resolvers").class(if dynamic { "serial-dynamic" } else { "serial-static" })
}

pub fn run(ctx: &mut Ctx) {
    ctx.rule = "(a) queries and mutations with repeated response keys (un-aliased duplicates, cloned fields, fragments, a fragment spread twice) on static Z, its dynamic mirror and random \
                dynamic schemas: per response path the resolver log must show exactly one start, nothing outside the collected field set may run, and the merged data must equal the \
                reference; (b) mutations with gated resolvers under generated gate-opening orders: every resolver below root field i finishes before any resolver of root field i+1 starts. \
                Non-trivial = a response key with >=2 occurrences (a) / >=2 root fields with gated sub-resolvers (b); distinct by rendered case".into();
    ctx.assume("resolver starts are observed through the harness's logging resolvers (every field of Z / of dynamic schemas logs); __typename is not a resolver");
    let f1 = ctx.open("C04-F1");
    let n = ctx.tier.pick(6_000, 200_000);
    let z = build_z(|b| b);
    let zsch = z_sch(&z);
    let mut cfg = crate::c02::typed_cfg(ctx, "C04");
    cfg.ops = vec![OpKind::Query, OpKind::Mutation];
    cfg.max_depth = 3;
    // main search: the construct of the open finding (repeated keys) is excluded; the probe streams keep it
    let mut main = cfg.clone();
    if f1 {
        main.repeats = false;
        ctx.excluded("C04-F1");
    }
    ctx.stream("once-static", n, 600, |s| once_case(s, &Flavour::Static(&z), Some(&zsch), &main, f1));
    ctx.stream("once-dynamic-mirror", n / 2, 600, |s| once_case(s, &Flavour::Dynamic, Some(&zsch), &main, f1));
    ctx.stream("once-dynamic-random", n / 2, 600, |s| once_case(s, &Flavour::Dynamic, None, &main, f1));
    if f1 {
        ctx.stream("probe-repeated-static", n / 6, 600, |s| once_case(s, &Flavour::Static(&z), Some(&zsch), &cfg, true));
        ctx.stream("probe-repeated-dynamic", n / 6, 600, |s| once_case(s, &Flavour::Dynamic, None, &cfg, true));
    }
    let mut mcfg = main.clone();
    mcfg.ops = vec![OpKind::Mutation];
    mcfg.max_depth = 2;
    mcfg.fragments = true;
    let orders = ctx.tier.pick(6, 24);
    ctx.stream("serial-static", n / 6, 900, |s| serial_case(s, &Flavour::Static(&z), &zsch, &mcfg, orders));
    ctx.stream("serial-dynamic", n / 6, 900, |s| serial_case(s, &Flavour::Dynamic, &zsch, &mcfg, orders));
}
