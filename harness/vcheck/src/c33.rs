//! C33 — dynamic schemas build exactly when the type system is valid; every schema that builds can be introspected,
//! exported and queried without panicking.
//!
//! Domain: `gen_sch` type systems (valid by construction) and ONE mutation operator applied to them (single-rule
//! violations, plus the valid neighbours of each rule: covariant field types, additional optional arguments, broken
//! cycles, three-level interface inheritance). The operator's intent is never trusted: the reference validator
//! `vgql::typesys::validate` (written from spec §3) decides whether the mutated `Sch` is valid.
use crate::execcmp::request;
use async_graphql::dynamic::Schema;
use futures_util::StreamExt;
use serde_json::json;
use vcore::drive::catch;
use vcore::{Case, Ctx, Src};
use vgql::ast::*;
use vgql::gensch::*;
use vgql::gentyped::*;
use vgql::print::print_plain;
use vgql::sch::*;
use vgql::typesys::*;
use vgql::world::*;
use vschemas::dynbuild::build_dynamic;
use vschemas::rt::Rt;

// ---------------------------------------------------------------------------------------------------------------
// known findings: id, quirk switch

const NF: usize = 10;
const FINDINGS: [(&str, fn(&mut TsQuirks)); NF] = [
    ("C33-F1", |q| q.nonnull_variance_reversed = true),
    ("C33-F2", |q| q.abstract_covariance_rejected = true),
    ("C33-F3", |q| q.extra_required_argument_accepted = true),
    ("C33-F4", |q| q.missing_nullable_argument_accepted = true),
    ("C33-F5", |q| q.argument_type_subtype = true),
    ("C33-F6", |q| q.interface_implements_unknown_accepted = true),
    ("C33-F7", |q| q.parent_interface_declaration_unchecked = true),
    ("C33-F8", |q| q.missing_subscription_root_accepted = true),
    ("C33-F9", |q| q.empty_union_accepted = true),
    ("C33-F10", |q| q.subscription_fields_unchecked = true),
];

/// which finding constructs the operators may produce
#[derive(Clone, Copy)]
struct Allow {
    on: [bool; NF],
}
impl Allow {
    fn f(&self, n: usize) -> bool {
        self.on[n - 1]
    }
}

// ---------------------------------------------------------------------------------------------------------------
// mutation operators

const NOPE: &str = "Nope";

fn names_of(sch: &Sch, k: Kind) -> Vec<String> {
    sch.types.values().filter(|t| t.kind == k).map(|t| t.name.clone()).collect()
}
fn pick_name(s: &mut dyn Src, xs: &[String]) -> Option<String> {
    if xs.is_empty() {
        None
    } else {
        Some(xs[s.choose(xs.len())].clone())
    }
}
/// types (objects and interfaces) that declare `iface`
fn declarers(sch: &Sch, iface: &str) -> Vec<String> {
    sch.types.values().filter(|t| t.interfaces.iter().any(|i| i == iface)).map(|t| t.name.clone()).collect()
}
/// an interface field that is defined by `iface` itself (not inherited from one of its interfaces)
fn own_fields(sch: &Sch, iface: &str) -> Vec<String> {
    let t = &sch.types[iface];
    t.fields.iter().filter(|f| !t.interfaces.iter().any(|p| sch.types.get(p).map_or(false, |pt| pt.field(&f.name).is_some()))).map(|f| f.name.clone()).collect()
}
fn holders(sch: &Sch, field: &str) -> Vec<String> {
    sch.types.values().filter(|t| t.field(field).is_some()).map(|t| t.name.clone()).collect()
}
fn field_mut<'a>(sch: &'a mut Sch, ty: &str, field: &str) -> &'a mut FieldDef {
    sch.types.get_mut(ty).unwrap().fields.iter_mut().find(|f| f.name == field).unwrap()
}
/// type with `flags[k]` = non-null at list depth k (flags.len() - 1 = list depth)
fn shape(base: &str, flags: &[bool]) -> Ty {
    let d = flags.len() - 1;
    let mut t = Ty::named(base);
    if flags[d] {
        t = Ty::nn(t);
    }
    for k in (0..d).rev() {
        t = Ty::list(t);
        if flags[k] {
            t = Ty::nn(t);
        }
    }
    t
}
fn gen_flags(s: &mut dyn Src) -> Vec<bool> {
    let d = s.weighted(&[5, 4, 1]);
    (0..=d).map(|_| s.bool()).collect()
}

/// one of an interface's own fields + one type that declares the interface; None if the schema has no such pair
fn pick_impl(s: &mut dyn Src, sch: &Sch) -> Option<(String, String)> {
    let ifs: Vec<String> = names_of(sch, Kind::Interface).into_iter().filter(|i| !own_fields(sch, i).is_empty() && !declarers(sch, i).is_empty()).collect();
    let i = pick_name(s, &ifs)?;
    let f = pick_name(s, &own_fields(sch, &i))?;
    let d = pick_name(s, &declarers(sch, &i))?;
    Some((f, d))
}

/// make sure the schema has `child implements parent` between interfaces; returns (child, parent)
fn ensure_inheritance(sch: &mut Sch) -> (String, String) {
    for t in sch.types.values() {
        if t.kind == Kind::Interface {
            if let Some(p) = t.interfaces.first() {
                return (t.name.clone(), p.clone());
            }
        }
    }
    let child = names_of(sch, Kind::Interface).last().cloned().expect("gen_sch always has an interface");
    let mut p = TypeDef::new("IfP", Kind::Interface);
    let pf = FieldDef { name: "p0".into(), args: vec![], ty: Ty::named("Int"), desc: None, deprecated: None };
    p.fields.push(pf.clone());
    sch.types.insert("IfP".into(), p);
    let mut todo = declarers(sch, &child);
    todo.push(child.clone());
    for n in todo {
        let t = sch.types.get_mut(&n).unwrap();
        t.interfaces.push("IfP".into());
        t.fields.push(pf.clone());
    }
    (child, "IfP".into())
}

fn output_bases(sch: &Sch) -> Vec<String> {
    let mut v: Vec<String> = BUILTIN_SCALARS.iter().map(|s| s.to_string()).collect();
    v.extend(sch.types.values().filter(|t| t.kind != Kind::Input).map(|t| t.name.clone()));
    v.retain(|n| Some(n) != sch.subscription.as_ref());
    v
}
fn input_bases(sch: &Sch) -> Vec<String> {
    let mut v: Vec<String> = BUILTIN_SCALARS.iter().map(|s| s.to_string()).collect();
    v.extend(sch.types.values().filter(|t| matches!(t.kind, Kind::Scalar | Kind::Enum | Kind::Input)).map(|t| t.name.clone()));
    v
}

/// Apply one operator; returns its label (class) — `None` = the operator does not apply to this schema.
fn mutate(s: &mut dyn Src, sch: &mut Sch, allow: &Allow) -> Option<String> {
    let group = s.weighted(&[3, 4, 2, 3, 10, 10, 3, 3, 1, 1, 4]);
    match group {
        // ---- root operation types
        0 => {
            let which = s.choose(3);
            let missing = s.bool();
            let name = if missing {
                NOPE.to_string()
            } else {
                let cands: Vec<String> = sch.types.values().filter(|t| t.kind != Kind::Object).map(|t| t.name.clone()).collect();
                pick_name(s, &cands)?
            };
            let kind = if missing { "missing".to_string() } else { format!("is-{}", kind_word(sch.types[&name].kind).replace(' ', "-")) };
            match which {
                0 => sch.query = name,
                1 => sch.mutation = Some(name),
                _ => {
                    if missing && !allow.f(8) {
                        return None;
                    }
                    sch.subscription = Some(name)
                }
            }
            Some(format!("root-{}-{}", ["query", "mutation", "subscription"][which], kind))
        }
        // ---- field / argument / input field type of the wrong category or unknown
        1 => {
            let unknown = s.chance(1, 3);
            let hosts: Vec<String> = sch.types.values().filter(|t| matches!(t.kind, Kind::Object | Kind::Interface) && !t.fields.is_empty() && (allow.f(10) || Some(&t.name) != sch.subscription.as_ref())).map(|t| t.name.clone()).collect();
            match s.choose(3) {
                0 => {
                    let h = pick_name(s, &hosts)?;
                    let base = if unknown { NOPE.to_string() } else { pick_name(s, &names_of(sch, Kind::Input))? };
                    let fl = gen_flags(s);
                    let n = sch.types[&h].fields.len();
                    let f = &mut sch.types.get_mut(&h).unwrap().fields[s.choose(n)];
                    f.ty = shape(&base, &fl);
                    Some(if unknown { "field-type-unknown".into() } else { "field-of-input-object-type".into() })
                }
                1 => {
                    let h = pick_name(s, &hosts)?;
                    let outs: Vec<String> = sch.types.values().filter(|t| matches!(t.kind, Kind::Object | Kind::Interface | Kind::Union)).map(|t| t.name.clone()).collect();
                    let base = if unknown { NOPE.to_string() } else { pick_name(s, &outs)? };
                    let label = if unknown { "argument-type-unknown".to_string() } else { format!("argument-of-{}-type", kind_word(sch.types[&base].kind)) };
                    let fl = gen_flags(s);
                    let n = sch.types[&h].fields.len();
                    let f = &mut sch.types.get_mut(&h).unwrap().fields[s.choose(n)];
                    if f.args.is_empty() {
                        f.args.push(ArgDef { name: "ax".into(), ty: Ty::named("Int"), default: None, desc: None, deprecated: None });
                    }
                    let k = s.choose(f.args.len());
                    f.args[k].ty = shape(&base, &fl);
                    f.args[k].default = None;
                    Some(label)
                }
                _ => {
                    let h = pick_name(s, &names_of(sch, Kind::Input).into_iter().filter(|n| !sch.types[n].one_of).collect::<Vec<_>>())?;
                    let outs: Vec<String> = sch.types.values().filter(|t| matches!(t.kind, Kind::Object | Kind::Interface | Kind::Union)).map(|t| t.name.clone()).collect();
                    let base = if unknown { NOPE.to_string() } else { pick_name(s, &outs)? };
                    let label = if unknown { "input-field-type-unknown".to_string() } else { format!("input-field-of-{}-type", kind_word(sch.types[&base].kind)) };
                    let fl = gen_flags(s);
                    let n = sch.types[&h].input_fields.len();
                    let f = &mut sch.types.get_mut(&h).unwrap().input_fields[s.choose(n)];
                    f.ty = shape(&base, &fl);
                    f.default = None;
                    Some(label)
                }
            }
        }
        // ---- a type lacks a field of an interface it declares
        2 => {
            let (f, d) = pick_impl(s, sch)?;
            let is_if = sch.types[&d].kind == Kind::Interface;
            sch.types.get_mut(&d).unwrap().fields.retain(|x| x.name != f);
            Some(format!("interface-field-missing-on-{}", if is_if { "interface" } else { "object" }))
        }
        // ---- implements: unknown name / not an interface
        3 => {
            let on_interface = s.bool();
            let hosts = names_of(sch, if on_interface { Kind::Interface } else { Kind::Object });
            let hosts: Vec<String> = hosts.into_iter().filter(|h| Some(h) != sch.subscription.as_ref()).collect();
            let h = pick_name(s, &hosts)?;
            let unknown = s.bool();
            if unknown && on_interface && !allow.f(6) {
                return None;
            }
            let name = if unknown {
                NOPE.to_string()
            } else {
                let mut cands: Vec<String> = sch.types.values().filter(|t| t.kind != Kind::Interface && t.name != h).map(|t| t.name.clone()).collect();
                cands.push("Int".into());
                cands.retain(|c| Some(c) != sch.subscription.as_ref());
                pick_name(s, &cands)?
            };
            let what = if unknown { "unknown".to_string() } else { sch.kind(&name).map(|k| kind_word(k).replace(' ', "-")).unwrap_or_default() };
            sch.types.get_mut(&h).unwrap().interfaces.push(name);
            Some(format!("{}-implements-{}", if on_interface { "interface" } else { "object" }, what))
        }
        // ---- implementing field type: both variance directions
        4 => {
            let (f, d) = pick_impl(s, sch)?;
            // wrappers: the interface side, and the implementation with at most one non-null flag toggled or a list level
            // added / removed
            let fi = gen_flags(s);
            let mut fo = fi.clone();
            let wrap_label = match s.weighted(&[3, 5, 1]) {
                0 => "same-wrappers",
                1 => {
                    let k = s.choose(fo.len());
                    fo[k] = !fo[k];
                    if fo[k] {
                        "non-null-added"
                    } else {
                        "non-null-dropped"
                    }
                }
                _ => {
                    if fo.len() > 1 && s.bool() {
                        fo.remove(0);
                        "list-level-removed"
                    } else {
                        fo.insert(0, s.bool());
                        "list-level-added"
                    }
                }
            };
            if !allow.f(1) && wrap_label.starts_with("non-null") {
                return None;
            }
            // named types
            let objs: Vec<String> = names_of(sch, Kind::Object).into_iter().filter(|o| *o != sch.query && Some(o) != sch.mutation.as_ref() && Some(o) != sch.subscription.as_ref()).collect();
            let (bi, bo, base_label): (String, String, &str) = match s.weighted(&[3, 3, 3, 2, 2, 2]) {
                0 => {
                    let b = pick_name(s, &output_bases(sch))?;
                    (b.clone(), b, "same-name")
                }
                1 => {
                    // interface / implementing object
                    let o = pick_name(s, &objs.iter().filter(|o| !sch.types[*o].interfaces.is_empty()).cloned().collect::<Vec<_>>())?;
                    let ifs = sch.types[&o].interfaces.clone();
                    (pick_name(s, &ifs)?, o, "object-for-interface")
                }
                2 => {
                    let u = pick_name(s, &names_of(sch, Kind::Union))?;
                    (u.clone(), pick_name(s, &sch.types[&u].members.clone())?, "member-for-union")
                }
                3 => {
                    let (c, p) = ensure_inheritance(sch);
                    (p, c, "interface-for-interface")
                }
                4 => {
                    // the wrong way round: the implementation widens the type
                    let o = pick_name(s, &objs.iter().filter(|o| !sch.types[*o].interfaces.is_empty()).cloned().collect::<Vec<_>>())?;
                    let ifs = sch.types[&o].interfaces.clone();
                    (o, pick_name(s, &ifs)?, "interface-for-object")
                }
                _ => {
                    let all = output_bases(sch);
                    let a = pick_name(s, &all)?;
                    let b = pick_name(s, &all)?;
                    if a == b {
                        return None;
                    }
                    (a, b, "other-name")
                }
            };
            if !allow.f(2) && matches!(base_label, "object-for-interface" | "member-for-union" | "interface-for-interface") {
                return None;
            }
            let ti = shape(&bi, &fi);
            let to = shape(&bo, &fo);
            for h in holders(sch, &f) {
                field_mut(sch, &h, &f).ty = ti.clone();
            }
            field_mut(sch, &d, &f).ty = to.clone();
            if sch.types[&d].kind == Kind::Interface && s.bool() {
                // let the implementers of the narrowed interface follow it
                for h in declarers(sch, &d) {
                    if sch.types[&h].field(&f).is_some() {
                        field_mut(sch, &h, &f).ty = to.clone();
                    }
                }
            }
            Some(format!("field-type/{}/{}", base_label, wrap_label))
        }
        // ---- arguments of an implementing field
        5 => {
            let (f, d) = pick_impl(s, sch)?;
            // a fresh argument list on the interface field and on everything that carries the field
            let ins = input_bases(sch);
            let n_args = 1 + s.choose(2);
            let mut args = vec![];
            for k in 0..n_args {
                let base = pick_name(s, &ins)?;
                let fl = gen_flags(s);
                let ty = shape(&base, &fl);
                // a default only where `null`/`[]`-free values are easy: Int / Boolean
                let default = if s.chance(1, 4) && fl.len() == 1 {
                    match base.as_str() {
                        "Int" => Some(Val::Int("1".into())),
                        "Boolean" => Some(Val::Bool(true)),
                        _ => None,
                    }
                } else {
                    None
                };
                args.push((ArgDef { name: format!("a{}", k), ty, default, desc: None, deprecated: None }, fl, base));
            }
            for h in holders(sch, &f) {
                field_mut(sch, &h, &f).args = args.iter().map(|a| a.0.clone()).collect();
            }
            let k = s.choose(n_args);
            let (a, fl, base) = args[k].clone();
            let target = field_mut(sch, &d, &f);
            match s.weighted(&[3, 3, 4]) {
                0 => {
                    let kind = if !a.ty.is_nn() {
                        "nullable"
                    } else if a.default.is_some() {
                        "defaulted"
                    } else {
                        "required"
                    };
                    if kind == "nullable" && !allow.f(4) {
                        return None;
                    }
                    target.args.remove(k);
                    Some(format!("argument-missing/{}", kind))
                }
                1 => {
                    let kind = s.choose(3);
                    if kind == 2 && !allow.f(3) {
                        return None;
                    }
                    let (ty, default, label) = match kind {
                        0 => (Ty::named("Int"), None, "nullable"),
                        1 => (Ty::nn(Ty::named("Int")), Some(Val::Int("7".into())), "non-null-with-default"),
                        _ => (Ty::nn(Ty::named("Int")), None, "required"),
                    };
                    target.args.push(ArgDef { name: "extra".into(), ty, default, desc: None, deprecated: None });
                    Some(format!("argument-additional/{}", label))
                }
                _ => {
                    let mut fo = fl.clone();
                    let label = match s.weighted(&[4, 2, 2]) {
                        0 => {
                            let p = s.choose(fo.len());
                            fo[p] = !fo[p];
                            if fo[p] {
                                if !allow.f(5) {
                                    return None;
                                }
                                "non-null-added"
                            } else {
                                "non-null-dropped"
                            }
                        }
                        1 => {
                            fo.insert(0, false);
                            "list-level-added"
                        }
                        _ => "other-name",
                    };
                    let nb = if label == "other-name" {
                        let o = pick_name(s, &ins)?;
                        if o == base {
                            return None;
                        }
                        o
                    } else {
                        base
                    };
                    for h in holders(sch, &f) {
                        // defaults would no longer fit both types; they play no part in this rule
                        field_mut(sch, &h, &f).args[k].default = None;
                    }
                    field_mut(sch, &d, &f).args[k].ty = shape(&nb, &fo);
                    Some(format!("argument-retyped/{}", label))
                }
            }
        }
        // ---- interface inheritance: the parent interface must be declared too
        6 => {
            let (child, parent) = ensure_inheritance(sch);
            if s.bool() {
                // an object that declares the child
                let objs: Vec<String> = declarers(sch, &child).into_iter().filter(|d| sch.types[d].kind == Kind::Object).collect();
                let o = pick_name(s, &objs)?;
                if !allow.f(7) {
                    return None;
                }
                sch.types.get_mut(&o).unwrap().interfaces.retain(|i| *i != parent);
                Some("parent-interface-not-declared-by-object".into())
            } else {
                // a third level: IfC implements child (& parent)
                let mut c = TypeDef::new("IfC", Kind::Interface);
                c.fields = sch.types[&child].fields.clone();
                c.fields.push(FieldDef { name: "c0".into(), args: vec![], ty: Ty::named("Int"), desc: None, deprecated: None });
                c.interfaces.push(child.clone());
                let declare_parent = s.bool();
                if declare_parent {
                    c.interfaces.extend(sch.types[&child].interfaces.clone());
                } else if !allow.f(7) {
                    return None;
                }
                sch.types.insert("IfC".into(), c);
                Some(if declare_parent { "three-level-interface-inheritance".into() } else { "parent-interface-not-declared-by-interface".into() })
            }
        }
        // ---- union members
        7 => {
            let u = pick_name(s, &names_of(sch, Kind::Union))?;
            match s.choose(3) {
                0 => {
                    let mut cands: Vec<String> = sch.types.values().filter(|t| t.kind != Kind::Object && t.name != u).map(|t| t.name.clone()).collect();
                    cands.push("Int".into());
                    let m = pick_name(s, &cands)?;
                    let label = format!("union-member-{}", sch.kind(&m).map(|k| kind_word(k).replace(' ', "-")).unwrap_or_default());
                    sch.types.get_mut(&u).unwrap().members.push(m);
                    Some(label)
                }
                1 => {
                    sch.types.get_mut(&u).unwrap().members.push(NOPE.into());
                    Some("union-member-unknown".into())
                }
                _ => {
                    if !allow.f(9) {
                        return None;
                    }
                    sch.types.get_mut(&u).unwrap().members.clear();
                    Some("union-empty".into())
                }
            }
        }
        // ---- object without fields
        8 => {
            let referenced = s.bool();
            sch.types.insert("ObE".into(), TypeDef::new("ObE", Kind::Object));
            if referenced {
                let q = sch.query.clone();
                sch.types.get_mut(&q).unwrap().fields.push(FieldDef { name: "qe".into(), args: vec![], ty: Ty::named("ObE"), desc: None, deprecated: None });
            }
            Some(format!("object-without-fields/{}", if referenced { "referenced" } else { "unreferenced" }))
        }
        // ---- a valid neighbour: an interface nobody implements
        9 => {
            let mut t = TypeDef::new("IfLonely", Kind::Interface);
            t.fields.push(FieldDef { name: "l0".into(), args: vec![], ty: Ty::named("IfLonely"), desc: None, deprecated: None });
            sch.types.insert("IfLonely".into(), t);
            Some("interface-without-implementers".into())
        }
        // ---- cycles of required input fields
        _ => {
            let k = 1 + s.choose(3);
            let local = k >= 2 && s.chance(1, 4);
            let names: Vec<String> = (0..k).map(|i| format!("Cy{}", i + 1)).collect();
            // link i -> i+1 (last -> first, or last -> second for a cycle that does not contain the first)
            let broken = s.weighted(&[4, 2, 1, 1, 1]);
            let break_at = s.choose(k);
            for i in 0..k {
                let next = if i + 1 < k {
                    names[i + 1].clone()
                } else if local {
                    names[1].clone()
                } else {
                    names[0].clone()
                };
                let ty = if i == break_at {
                    match broken {
                        0 => Ty::nn(Ty::named(&next)),
                        1 => Ty::named(&next),
                        2 => Ty::nn(Ty::list(Ty::nn(Ty::named(&next)))),
                        3 => Ty::list(Ty::named(&next)),
                        _ => Ty::nn(Ty::named("Int")),
                    }
                } else {
                    Ty::nn(Ty::named(&next))
                };
                let mut t = TypeDef::new(&names[i], Kind::Input);
                t.input_fields.push(ArgDef { name: "v".into(), ty: Ty::named("Int"), default: None, desc: None, deprecated: None });
                t.input_fields.push(ArgDef { name: "n".into(), ty, default: None, desc: None, deprecated: None });
                sch.types.insert(names[i].clone(), t);
            }
            let label = ["unbroken", "nullable-link", "list-link", "nullable-list-link", "no-link"][broken];
            Some(format!("input-cycle/len{}{}/{}", k, if local { "-not-through-first" } else { "" }, label))
        }
    }
}

// ---------------------------------------------------------------------------------------------------------------
// running one case

const INTROSPECTION: &str = "query IntrospectionQuery { __schema { description queryType { name } mutationType { name } subscriptionType { name } \
  types { ...FullType } directives { name description isRepeatable locations args(includeDeprecated: true) { ...InputValue } } } } \
  fragment FullType on __Type { kind name description specifiedByURL fields(includeDeprecated: true) { name description args(includeDeprecated: true) { ...InputValue } \
  type { ...TypeRef } isDeprecated deprecationReason } inputFields(includeDeprecated: true) { ...InputValue } interfaces { ...TypeRef } \
  enumValues(includeDeprecated: true) { name description isDeprecated deprecationReason } possibleTypes { ...TypeRef } } \
  fragment InputValue on __InputValue { name description type { ...TypeRef } defaultValue isDeprecated deprecationReason } \
  fragment TypeRef on __Type { kind name ofType { kind name ofType { kind name ofType { kind name ofType { kind name ofType { kind name ofType { kind name ofType { kind name } } } } } } } }";

fn render(label: &str, sch: &Sch) -> String {
    format!(
        "operator: {}\nroots: query={} mutation={} subscription={}\nschema: {}",
        label,
        sch.query,
        sch.mutation.as_deref().unwrap_or("-"),
        sch.subscription.as_deref().unwrap_or("-"),
        show_sch(sch)
    )
}

/// introspection, SDL export and generated requests against a schema that built; Err = a panic (or a failing
/// introspection request)
fn exercise(schema: &Schema, sch: &Sch, s: &mut dyn Src, reference_valid: bool, n_queries: usize) -> Result<u32, String> {
    let resp = catch(|| vcore::det::block_on(schema.execute(INTROSPECTION))).map_err(|p| format!("introspection query panicked: {}", p))?;
    if !resp.errors.is_empty() {
        return Err(format!("introspection query answered with errors: {:?}", resp.errors.iter().map(|e| e.message.clone()).collect::<Vec<_>>()));
    }
    let sdl = catch(|| schema.sdl()).map_err(|p| format!("sdl() panicked: {}", p))?;
    if sdl.is_empty() {
        return Err("sdl() is empty".into());
    }
    let mut ran = 0;
    if !reference_valid {
        // documents are generated from the `Sch`; for a type system the reference rejects the generator has no contract
        return Ok(ran);
    }
    let mut cfg = TypedCfg::default();
    cfg.ops = vec![OpKind::Query, OpKind::Query, OpKind::Mutation];
    for _ in 0..n_queries {
        let mut td = gen_typed_doc(sch, s, &cfg);
        let text = print_plain(&mut td.doc);
        catch(|| vcore::det::block_on(schema.execute(request(&text, &td.vars, td.op_name.as_deref())))).map_err(|p| format!("request panicked: {}\nquery: {}", p, text))?;
        ran += 1;
    }
    if sch.subscription.is_some() {
        let mut scfg = TypedCfg::default();
        scfg.ops = vec![OpKind::Subscription];
        let mut td = gen_typed_doc(sch, s, &scfg);
        let text = print_plain(&mut td.doc);
        catch(|| vcore::det::block_on(schema.execute_stream(request(&text, &td.vars, td.op_name.as_deref())).collect::<Vec<_>>())).map_err(|p| format!("subscription panicked: {}\nquery: {}", p, text))?;
        ran += 1;
    }
    Ok(ran)
}

fn judge(ctx_open: &[bool; NF], label: &str, sch: &Sch, s: &mut dyn Src, n_queries: usize) -> Case {
    let rendered = render(label, sch);
    // don't-care class: a cycle that exists only if fields with default values count as links
    if input_cycles(sch, false) != input_cycles(sch, true) {
        return Case::discard("input cycle through a defaulted field");
    }
    let violations = validate(sch, &TsQuirks::default());
    let valid = violations.is_empty();
    let world = if valid { gen_world(sch, s, &WorldCfg { null_composite_items: false, ..WorldCfg::default() }) } else { World::default() };
    let rt = Rt::new(world);
    let built = match catch(|| build_dynamic(sch, &rt, |b| b)) {
        Ok(b) => b,
        Err(p) => return Case::fail(rendered, format!("SchemaBuilder::finish panicked: {} (reference: {})", p, show_violations(&violations))),
    };
    let mut case = match (&built, valid) {
        (Ok(_), true) | (Err(_), false) => Case::pass(rendered.clone()),
        _ => {
            // does the deviation equal what a set of OPEN findings predicts? smallest set first
            let open: Vec<usize> = (0..NF).filter(|i| ctx_open[*i]).collect();
            let mut best: Option<Vec<usize>> = None;
            for mask in 1u32..(1 << open.len()) {
                let set: Vec<usize> = open.iter().enumerate().filter(|(k, _)| mask & (1 << k) != 0).map(|(_, i)| *i).collect();
                if best.as_ref().map_or(false, |b| b.len() <= set.len()) {
                    continue;
                }
                let mut q = TsQuirks::default();
                for i in &set {
                    (FINDINGS[*i].1)(&mut q);
                }
                if validate(sch, &q).is_empty() == built.is_ok() {
                    best = Some(set);
                }
            }
            match best {
                Some(set) => Case::known(rendered.clone(), set.iter().map(|i| FINDINGS[*i].0.to_string()).collect()),
                None => Case::fail(
                    rendered.clone(),
                    match &built {
                        Ok(_) => format!("finish() is Ok but the type system is invalid: {}", show_violations(&violations)),
                        Err(e) => format!("finish() fails with \"{}\" but the reference validator finds no violation", e.0),
                    },
                ),
            }
        }
    };
    let mut ran = 0;
    if let Ok(schema) = &built {
        match exercise(schema, sch, s, valid, n_queries) {
            Ok(n) => ran = n,
            Err(why) => case = Case::fail(rendered, why),
        }
    }
    let mut rules: Vec<&str> = violations.iter().map(|v| v.rule).collect();
    rules.sort();
    rules.dedup();
    case = case.class(format!("op:{}", label)).class(if valid { "reference:valid" } else { "reference:invalid" }).class(if built.is_ok() { "finish:ok" } else { "finish:err" });
    for r in &rules {
        case = case.class(format!("rule:{}", r));
    }
    case = case.class_if(rules.len() == 1, "single-rule-violation").class_if(ran > 0, "queried");
    case.nontrivial = true;
    case
}

fn show_violations(v: &[Violation]) -> String {
    if v.is_empty() {
        return "valid".into();
    }
    v.iter().map(|x| format!("{} ({})", x.rule, x.at)).collect::<Vec<_>>().join("; ")
}

fn sch_cfg() -> SchCfg {
    SchCfg { subscription: true, ..SchCfg::default() }
}

/// a few draws taken BEFORE the schema is generated and replayed first by the operator, so that the choice of the
/// operator does not collapse to "the simplest one" whenever a short choice vector is used up by `gen_sch`
struct Planned<'a> {
    head: Vec<u32>,
    pos: usize,
    tail: &'a mut dyn Src,
}
impl<'a> Src for Planned<'a> {
    fn raw(&mut self) -> u32 {
        if self.pos < self.head.len() {
            self.pos += 1;
            self.head[self.pos - 1]
        } else {
            self.tail.raw()
        }
    }
    fn used(&self) -> usize {
        self.tail.used()
    }
    fn exhausted(&self) -> bool {
        self.tail.exhausted()
    }
}

fn one(open: &[bool; NF], allow: &Allow, s: &mut dyn Src, mutated: bool, n_queries: usize) -> Case {
    let head: Vec<u32> = if mutated { (0..12).map(|_| s.raw()).collect() } else { vec![] };
    let mut sch = gen_sch(s, &sch_cfg());
    let label = if mutated {
        match mutate(&mut Planned { head, pos: 0, tail: &mut *s }, &mut sch, allow) {
            Some(l) => l,
            None => return Case::discard("operator not applicable"),
        }
    } else {
        "none".to_string()
    };
    judge(open, &label, &sch, s, n_queries)
}

/// hand-written regression cases: (name, SDL, expected verdict of the reference)
const WITNESSES: [(&str, &str, bool); 17] = [
    ("nonnull-dropped", "type Query implements I { f: Int } interface I { f: Int! }", false),
    ("nonnull-added", "type Query implements I { f: Int! } interface I { f: Int }", true),
    ("list-item-nonnull-added", "type Query implements I { f: [Int!] } interface I { f: [Int] }", true),
    ("object-for-interface", "type Query { o: O } type O implements I { f: O } interface I { f: I }", true),
    ("member-for-union", "type Query { o: O } type O implements I { f: O } interface I { f: U } union U = O", true),
    ("interface-for-object", "type Query { o: O } type O implements I { f: I } interface I { f: O }", false),
    ("extra-required-argument", "type Query implements I { f(a: Int, x: Int!): Int } interface I { f(a: Int): Int }", false),
    ("extra-optional-argument", "type Query implements I { f(a: Int, x: Int, y: Int! = 1): Int } interface I { f(a: Int): Int }", true),
    ("missing-nullable-argument", "type Query implements I { f: Int } interface I { f(a: Int): Int }", false),
    ("argument-nonnull-added", "type Query implements I { f(a: Int!): Int } interface I { f(a: Int): Int }", false),
    ("interface-implements-unknown", "type Query implements I { f: Int } interface I implements Nope { f: Int }", false),
    ("parent-interface-not-declared", "type Query implements J { f: Int } interface I { f: Int } interface J implements I { f: Int }", false),
    ("empty-union", "type Query { u: U } union U", false),
    ("subscription-root-missing", "schema { query: Query subscription: Nope } type Query { f: Int }", false),
    ("subscription-field-of-input-type", "type Query { f: Int } type Subscription { s: In } input In { v: Int }", false),
    ("subscription-argument-of-interface-type", "type Query { f: Int } type Subscription { s(a: I): Int } interface I { f: Int }", false),
    ("indirect-required-input-cycle", "type Query { f(a: A): Int } input A { b: B! } input B { c: C! } input C { a: A! }", false),
];

pub fn run(ctx: &mut Ctx) {
    ctx.rule = "gen_sch type systems (<=12 types + what an operator adds) with zero or one mutation operator (root types, field/argument/input-field type category or unknown, missing \
                interface field, implementing field type in both variance directions, missing/additional/retyped arguments, implements of unknown or non-interface types, undeclared parent \
                interface, union members, object without fields, cycles of required input fields and their broken neighbours); verdict of finish() compared with the reference \
                validator; accepted schemas answer the full introspection query (without errors), sdl() and generated requests without panicking. Every case is non-trivial; \
                distinct by rendered (operator, schema)"
        .into();
    ctx.assume("only the rules the property lists are decided: names beginning with `__`, duplicate names, enum values, oneOf field rules, `interface implements itself`, interfaces / input objects without fields and identical root types never occur in the domain");
    ctx.assume("'object without fields' and 'union without members' are counted as rules of the property (spec §3.6 / §3.8 Type Validation item 1) although its parenthesis does not name them");
    ctx.assume("required input field = non-null, no default value; a cycle that only exists through a field WITH a default value is a don't-care class (October 2021 does not mention defaults) and is discarded");
    ctx.assume("the subscription root is registered as dynamic::Subscription and is not referenced by other types (the dynamic API has no other way to express it)");
    ctx.assume("a panic inside finish() is reported as a failure for valid and invalid type systems alike");
    ctx.assume("requests are generated only for type systems the reference accepts (the document generator needs a valid Sch); wrongly accepted ones are still introspected and exported");
    let mut open = [false; NF];
    for (i, (id, _)) in FINDINGS.iter().enumerate() {
        open[i] = ctx.open(id);
        if open[i] {
            ctx.excluded(id);
        }
    }
    // explicit witnesses
    let t0 = std::time::Instant::now();
    for (name, sdl, expect_valid) in WITNESSES.iter() {
        let sch = from_sdl_text(sdl).expect("witness SDL");
        let got = validate(&sch, &TsQuirks::default()).is_empty();
        if got != *expect_valid {
            ctx.check_case("witnesses", Case::fail(format!("witness {}: {}", name, sdl), "HARNESS: the reference validator disagrees with the hand-derived verdict"), json!(null));
            continue;
        }
        let mut src = vcore::src::VecSrc::new(&[]);
        let c = judge(&open, &format!("witness:{}", name), &sch, &mut src, 1);
        ctx.check_case("witnesses", c, json!({"sdl": sdl}));
    }
    ctx.enumerated("witnesses", WITNESSES.len() as u64, true, t0);

    let mut main_allow = Allow { on: [true; NF] };
    for i in 0..NF {
        main_allow.on[i] = !open[i];
    }
    let n = ctx.tier.pick(5_000, 150_000);
    ctx.stream("valid", n, 700, |s| one(&open, &main_allow, s, false, 3));
    ctx.stream("mutated", n * 4, 700, |s| one(&open, &main_allow, s, true, 2));
    if open.iter().any(|o| *o) {
        let probe_allow = Allow { on: [true; NF] };
        ctx.stream("probe-findings", n, 700, |s| one(&open, &probe_allow, s, true, 1));
    }
    ctx.floor("reference:valid", 100);
    ctx.floor("reference:invalid", 100);
    ctx.floor("single-rule-violation", 100);
    ctx.floor("queried", 100);
}
