//! C07 — built-in scalar types accept exactly their domain and round-trip.
//!
//! Observed at the public trait API: `InputType::parse(Some(value) | None)` and `InputType::to_value`.
//! The oracle is a per-type domain predicate evaluated in i128 / on IEEE bits (`Model::expect`), written from
//! the Rust type's value set and the GraphQL input-coercion rules, never from the crate's range checks.
use async_graphql::{Enum, InputType, Name, Number, Pos, Value, ID};
use indexmap::IndexMap;
use std::cell::Cell;
use std::fmt::Debug;
use std::num::{
    NonZeroI16, NonZeroI32, NonZeroI64, NonZeroI8, NonZeroIsize, NonZeroU16, NonZeroU32, NonZeroU64, NonZeroU8, NonZeroUsize,
};
use std::time::Instant;
use vcore::drive::catch;
use vcore::gens::{gen_char, gen_f64_finite, gen_i64, gen_string};
use vcore::{Case, Ctx, Src};

/// f32 accepts finite numbers whose nearest f32 is infinite (result ±inf)
const F1: &str = "C07-F1";
/// NaN / ±inf serialize to null, which does not coerce back
const F2: &str = "C07-F2";

#[derive(Enum, Copy, Clone, Eq, PartialEq, Debug)]
enum Color {
    Red,
    Green,
    DarkBlue,
    #[graphql(name = "custom_NAME")]
    Renamed,
}
/// documented naming rule of `#[derive(Enum)]`: SCREAMING_SNAKE_CASE unless renamed
const COLOR: [(&str, Color); 4] = [("RED", Color::Red), ("GREEN", Color::Green), ("DARK_BLUE", Color::DarkBlue), ("custom_NAME", Color::Renamed)];

/// item names that are prefixes of one another
#[derive(Enum, Copy, Clone, Eq, PartialEq, Debug)]
enum Pfx {
    #[graphql(name = "A")]
    A,
    #[graphql(name = "AB")]
    Ab,
    #[graphql(name = "ABC")]
    Abc,
}
const PFX: [(&str, Pfx); 3] = [("A", Pfx::A), ("AB", Pfx::Ab), ("ABC", Pfx::Abc)];

/// what is offered to `parse`: `None` = undefined
type Offer = Option<Value>;

enum Expect<T> {
    /// the value denotes exactly this Rust value
    Accept(T),
    /// the value denotes no value of the type
    Reject,
    /// class the statement leaves open: an error, or one of these values
    Either(Vec<T>),
    /// class the statement leaves open and for which no exact value is defined: no demand
    Open,
}

#[derive(Clone, Copy)]
struct Flags {
    f1: bool,
    f2: bool,
}

trait Model: InputType + Clone + Debug + 'static {
    const NAME: &'static str;
    fn expect(o: &Offer) -> Expect<Self>;
    fn same(&self, o: &Self) -> bool;
    /// integer types: the value of the type that equals `n` (exact arithmetic), if there is one
    fn from_i128(_n: i128) -> Option<Self> {
        None
    }
    /// f32 only: the offered finite number rounds to an infinite f32
    fn overflows(_o: &Offer) -> Option<Self> {
        None
    }
    fn non_finite(&self) -> bool {
        false
    }
}

/// integer denoted by a number that is written without fraction / exponent
fn num_int(n: &Number) -> Option<i128> {
    if n.is_f64() {
        None
    } else if let Some(i) = n.as_i64() {
        Some(i as i128)
    } else {
        n.as_u64().map(|u| u as i128)
    }
}

fn int_expect<T: Model>(o: &Offer) -> Expect<T> {
    match o {
        Some(Value::Number(n)) => match num_int(n) {
            Some(i) => match T::from_i128(i) {
                Some(x) => Expect::Accept(x),
                None => Expect::Reject,
            },
            None => {
                let f = n.as_f64().unwrap();
                // integral floats are the open class (5.0 offered to Int); an integral float outside the
                // domain, or a fractional one, denotes no value of the type under any reading
                if f.fract() == 0.0 && f.abs() < 1e30 {
                    match T::from_i128(f as i128) {
                        Some(x) => Expect::Either(vec![x]),
                        None => Expect::Reject,
                    }
                } else {
                    Expect::Reject
                }
            }
        },
        _ => Expect::Reject,
    }
}

macro_rules! int_model {
    ($($t:ty),*) => {$(
        impl Model for $t {
            const NAME: &'static str = stringify!($t);
            fn expect(o: &Offer) -> Expect<Self> { int_expect::<Self>(o) }
            fn same(&self, o: &Self) -> bool { self == o }
            fn from_i128(n: i128) -> Option<Self> { <$t>::try_from(n).ok() }
        }
    )*};
}
macro_rules! nz_model {
    ($($t:ident / $p:ty),*) => {$(
        impl Model for $t {
            const NAME: &'static str = stringify!($t);
            fn expect(o: &Offer) -> Expect<Self> { int_expect::<Self>(o) }
            fn same(&self, o: &Self) -> bool { self == o }
            fn from_i128(n: i128) -> Option<Self> { <$p>::try_from(n).ok().and_then(<$t>::new) }
        }
    )*};
}
int_model!(i8, u8, i16, u16, i32, u32, i64, u64, isize, usize);
nz_model!(NonZeroI8 / i8, NonZeroU8 / u8, NonZeroI16 / i16, NonZeroU16 / u16, NonZeroI32 / i32, NonZeroU32 / u32,
          NonZeroI64 / i64, NonZeroU64 / u64, NonZeroIsize / isize, NonZeroUsize / usize);

impl Model for f64 {
    const NAME: &'static str = "f64";
    fn expect(o: &Offer) -> Expect<Self> {
        match o {
            Some(Value::Number(n)) => match num_int(n) {
                // Float input coercion accepts integers; one that f64 cannot hold exactly is open (nearest or error)
                Some(i) => {
                    let f = i as f64;
                    if f as i128 == i {
                        Expect::Accept(f)
                    } else {
                        Expect::Either(vec![f])
                    }
                }
                None => Expect::Accept(n.as_f64().unwrap()),
            },
            _ => Expect::Reject,
        }
    }
    fn same(&self, o: &Self) -> bool {
        self.to_bits() == o.to_bits() || (self.is_nan() && o.is_nan())
    }
    fn non_finite(&self) -> bool {
        !self.is_finite()
    }
}
impl Model for f32 {
    const NAME: &'static str = "f32";
    fn expect(o: &Offer) -> Expect<Self> {
        match o {
            Some(Value::Number(n)) => match num_int(n) {
                Some(i) => {
                    let direct = i as f32;
                    if direct as i128 == i && direct.is_finite() {
                        Expect::Accept(direct)
                    } else {
                        Expect::Either(vec![direct, (i as f64) as f32])
                    }
                }
                None => {
                    let f = n.as_f64().unwrap();
                    let r = f as f32; // IEEE round-to-nearest-even, overflow to infinity
                    if r.is_infinite() {
                        Expect::Reject // no finite f32 is near this number
                    } else if (r as f64).to_bits() == f.to_bits() {
                        Expect::Accept(r)
                    } else {
                        Expect::Either(vec![r]) // not an f32 value; rounding it is the open class
                    }
                }
            },
            _ => Expect::Reject,
        }
    }
    fn same(&self, o: &Self) -> bool {
        self.to_bits() == o.to_bits() || (self.is_nan() && o.is_nan())
    }
    fn overflows(o: &Offer) -> Option<Self> {
        match o {
            Some(Value::Number(n)) if n.is_f64() => {
                let r = n.as_f64().unwrap() as f32;
                if r.is_infinite() {
                    Some(r)
                } else {
                    None
                }
            }
            _ => None,
        }
    }
    fn non_finite(&self) -> bool {
        !self.is_finite()
    }
}
impl Model for bool {
    const NAME: &'static str = "bool";
    fn expect(o: &Offer) -> Expect<Self> {
        match o {
            Some(Value::Boolean(b)) => Expect::Accept(*b),
            _ => Expect::Reject,
        }
    }
    fn same(&self, o: &Self) -> bool {
        self == o
    }
}
impl Model for String {
    const NAME: &'static str = "String";
    fn expect(o: &Offer) -> Expect<Self> {
        match o {
            Some(Value::String(s)) => Expect::Accept(s.clone()),
            _ => Expect::Reject,
        }
    }
    fn same(&self, o: &Self) -> bool {
        self == o
    }
}
impl Model for char {
    const NAME: &'static str = "char";
    fn expect(o: &Offer) -> Expect<Self> {
        match o {
            Some(Value::String(s)) => {
                let mut it = s.chars();
                match (it.next(), it.next()) {
                    (Some(c), None) => Expect::Accept(c),
                    _ => Expect::Reject,
                }
            }
            _ => Expect::Reject,
        }
    }
    fn same(&self, o: &Self) -> bool {
        self == o
    }
}
impl Model for ID {
    const NAME: &'static str = "ID";
    fn expect(o: &Offer) -> Expect<Self> {
        match o {
            Some(Value::String(s)) => Expect::Accept(ID(s.clone())),
            Some(Value::Number(n)) => match num_int(n) {
                Some(i) if i >= i64::MIN as i128 && i <= i64::MAX as i128 => Expect::Accept(ID(i.to_string())),
                Some(i) => Expect::Either(vec![ID(i.to_string())]),
                None => {
                    let f = n.as_f64().unwrap();
                    if f.fract() == 0.0 {
                        Expect::Open
                    } else {
                        Expect::Reject
                    }
                }
            },
            _ => Expect::Reject,
        }
    }
    fn same(&self, o: &Self) -> bool {
        self.0 == o.0
    }
}
fn enum_expect<T: Copy>(o: &Offer, items: &[(&str, T)]) -> Expect<T> {
    let find = |s: &str| items.iter().find(|(n, _)| *n == s).map(|(_, v)| *v);
    match o {
        Some(Value::Enum(n)) => match find(n.as_str()) {
            Some(v) => Expect::Accept(v),
            None => Expect::Reject,
        },
        // a string is how an enum arrives in JSON variables, but is not an enum literal: open when it names an item
        Some(Value::String(s)) => match find(s) {
            Some(v) => Expect::Either(vec![v]),
            None => Expect::Reject,
        },
        _ => Expect::Reject,
    }
}
impl Model for Color {
    const NAME: &'static str = "Color";
    fn expect(o: &Offer) -> Expect<Self> {
        enum_expect(o, &COLOR)
    }
    fn same(&self, o: &Self) -> bool {
        self == o
    }
}
impl Model for Pfx {
    const NAME: &'static str = "Pfx";
    fn expect(o: &Offer) -> Expect<Self> {
        enum_expect(o, &PFX)
    }
    fn same(&self, o: &Self) -> bool {
        self == o
    }
}

fn render(o: &Offer) -> String {
    match o {
        None => "<undefined>".into(),
        Some(v) => v.to_string(),
    }
}

fn kind(o: &Offer) -> &'static str {
    match o {
        None => "undefined",
        Some(Value::Null) => "null",
        Some(Value::Number(n)) if n.is_f64() => "float",
        Some(Value::Number(_)) => "int",
        Some(Value::String(_)) => "string",
        Some(Value::Boolean(_)) => "boolean",
        Some(Value::Enum(_)) => "enum",
        Some(Value::List(_)) => "list",
        Some(Value::Object(_)) => "object",
        Some(Value::Binary(_)) => "binary",
    }
}

/// one coercion: offer `o` to `T`, compare with the model
fn offer<T: Model>(o: &Offer, fl: Flags) -> Case {
    let text = format!("{} <- {}", T::NAME, render(o));
    let exp = T::expect(o);
    let got = match catch(|| T::parse(o.clone())) {
        Ok(r) => r.map_err(|e| e.into_server_error(Pos::default()).message),
        Err(p) => return Case::fail(text, format!("parse panicked: {}", p)),
    };
    let k = kind(o);
    let (label, nontrivial) = match &exp {
        Expect::Accept(_) => (format!("{}:accept", k), false),
        Expect::Reject => (format!("{}:reject", k), true),
        Expect::Either(_) | Expect::Open => (format!("{}:open-class", k), true),
    };
    let c = match (exp, got) {
        (Expect::Accept(x), Ok(y)) if x.same(&y) => Case::pass(text),
        (Expect::Accept(x), Ok(y)) => Case::fail(text, format!("accepted as {:?}, the value denotes {:?}", y, x)),
        (Expect::Accept(x), Err(e)) => Case::fail(text, format!("rejected ({}), the value denotes {:?}", e, x)),
        (Expect::Reject, Err(_)) => Case::pass(text),
        (Expect::Reject, Ok(y)) => match T::overflows(o) {
            Some(q) if fl.f1 && q.same(&y) => Case::known(text, vec![F1.into()]),
            _ => Case::fail(text, format!("accepted as {:?}, the value denotes no value of {}", y, T::NAME)),
        },
        (Expect::Either(_), Err(_)) | (Expect::Open, _) => Case::pass(text),
        (Expect::Either(xs), Ok(y)) => {
            if xs.iter().any(|x| x.same(&y)) {
                Case::pass(text)
            } else {
                Case::fail(text, format!("accepted as {:?}, but if accepted it must be {:?}", y, xs))
            }
        }
    };
    c.nontrivial(nontrivial).class(label)
}

/// round trip: parse(to_value(x)) == x
fn rt<T: Model>(x: &T, fl: Flags) -> Case {
    let text = format!("{} roundtrip {:?}", T::NAME, x);
    let r = catch(|| {
        let v = x.to_value();
        let back = T::parse(Some(v.clone())).map_err(|e| e.into_server_error(Pos::default()).message);
        (v, back)
    });
    let c = match r {
        Err(p) => Case::fail(text, format!("panicked: {}", p)),
        Ok((_, Ok(y))) if x.same(&y) => Case::pass(text),
        Ok((v, Ok(y))) => Case::fail(text, format!("serialized as {}, which coerces to {:?}", v, y)),
        Ok((v, Err(e))) => {
            if fl.f2 && x.non_finite() && v == Value::Null {
                Case::known(text, vec![F2.into()])
            } else {
                Case::fail(text, format!("serialized as {}, which is rejected: {}", v, e))
            }
        }
    };
    c.nontrivial(true).class("roundtrip")
}

struct Ty {
    name: &'static str,
    offer: fn(&Offer, Flags) -> Case,
    /// round-trip the value of the type equal to this integer, if any
    rt_int: fn(i128, Flags) -> Option<Case>,
}
fn ty<T: Model>() -> Ty {
    Ty { name: T::NAME, offer: offer::<T>, rt_int: |n, fl| T::from_i128(n).map(|x| rt::<T>(&x, fl)) }
}
fn small_types() -> Vec<Ty> {
    vec![ty::<i8>(), ty::<u8>(), ty::<i16>(), ty::<u16>(), ty::<NonZeroI8>(), ty::<NonZeroU8>(), ty::<NonZeroI16>(), ty::<NonZeroU16>()]
}
fn wide_types() -> Vec<Ty> {
    vec![
        ty::<i32>(), ty::<u32>(), ty::<i64>(), ty::<u64>(), ty::<isize>(), ty::<usize>(),
        ty::<NonZeroI32>(), ty::<NonZeroU32>(), ty::<NonZeroI64>(), ty::<NonZeroU64>(), ty::<NonZeroIsize>(), ty::<NonZeroUsize>(),
    ]
}
fn other_types() -> Vec<Ty> {
    vec![ty::<f32>(), ty::<f64>(), ty::<bool>(), ty::<String>(), ty::<char>(), ty::<ID>(), ty::<Color>(), ty::<Pfx>()]
}

fn int_value(n: i128) -> Option<Value> {
    if n >= 0 {
        u64::try_from(n).ok().map(|u| Value::Number(Number::from(u)))
    } else {
        i64::try_from(n).ok().map(|i| Value::Number(Number::from(i)))
    }
}
fn float_value(f: f64) -> Value {
    Value::Number(Number::from_f64(f).expect("finite"))
}

/// every integer boundary of every width, its neighbours, and values only a float can carry
fn boundaries() -> Vec<i128> {
    let mut out = vec![];
    for k in 0..=64u32 {
        for d in -3..=3i128 {
            out.push((1i128 << k) + d);
            out.push(-(1i128 << k) + d);
        }
    }
    let mut p = 1i128;
    for _ in 0..20 {
        out.push(p);
        out.push(-p);
        out.push(p + 1);
        out.push(p - 1);
        p *= 10;
    }
    out.extend([(1i128 << 53) + 1, (1 << 24) + 1, (1 << 64) + 2048, -(1 << 63) - 2048, 1 << 100]);
    out.sort();
    out.dedup();
    out
}

fn f64_classes() -> Vec<f64> {
    let f32max = f32::MAX as f64;
    let half_ulp = 2f64.powi(127 - 24); // half an f32 ulp at the top binade
    let mut v = vec![
        0.0, -0.0, 5e-324, -5e-324, f64::MIN_POSITIVE, 2.2250738585072009e-308, f64::EPSILON, 0.1, -0.1, 0.5, 1.5, -1.5, 2.5, 1.0, -1.0, 3.0, 127.0, 128.0,
        -128.0, -129.0, 255.0, 256.0, 32767.0, 32768.0, 65535.0, 65536.0, 2147483647.0, 2147483648.0, -2147483648.0, -2147483649.0, 4294967295.0,
        4294967296.0, 127.5, 255.5, 9007199254740992.0, 9007199254740994.0, 9223372036854775808.0, -9223372036854775808.0, 18446744073709551616.0,
        1e19, 1e21, 1e300, -1e300, f64::MAX, f64::MIN,
        // f32 classes: subnormal / smallest normal / exact / top of range / first value that rounds to infinity
        1e-45, 1.401298464324817e-45, 1e-46, 1.1754943508222875e-38, 1e-39, 16777216.0, 16777217.0, f32max, -f32max,
        f32max + half_ulp / 2.0, f32max + half_ulp, -(f32max + half_ulp), f32max + half_ulp * 2.0, 2f64.powi(128), 3.5e38, -3.5e38, 1e39,
    ];
    // the f64 just below the round-to-infinity midpoint still rounds to f32::MAX
    v.push(f64::from_bits((f32max + half_ulp).to_bits() - 1));
    v
}

fn obj(pairs: &[(&str, Value)]) -> Value {
    let mut m = IndexMap::new();
    for (k, v) in pairs {
        m.insert(Name::new(*k), v.clone());
    }
    Value::Object(m)
}

/// values of every GraphQL kind (and undefined), including near misses for each scalar
fn kind_offers() -> Vec<Offer> {
    let i = |n: i64| Value::Number(Number::from(n));
    let s = |t: &str| Value::String(t.to_string());
    let e = |t: &str| Value::Enum(Name::new(t));
    let mut v: Vec<Offer> = vec![None, Some(Value::Null), Some(Value::Boolean(true)), Some(Value::Boolean(false))];
    for n in [0, 1, -1, 5, 255, 256, 65536] {
        v.push(Some(i(n)));
    }
    for f in [0.0, -0.0, 1.0, 1.5, -1.0, 5.0, 1e300] {
        v.push(Some(float_value(f)));
    }
    for t in ["", "a", "ab", "0", "1", "-1", "1.5", "true", "false", "null", "é", "😀", "e\u{301}", " ", "a ", "RED", "GREEN", "DARK_BLUE", "custom_NAME", "red", "Red", "RE", "REDX", "DarkBlue", "DARKBLUE", "CUSTOM_NAME", "Renamed", "RENAMED", "A", "AB", "ABC", "ABCD", "a", "Ab", "B"] {
        v.push(Some(s(t)));
    }
    for t in ["RED", "GREEN", "DARK_BLUE", "custom_NAME", "red", "Red", "RE", "R", "REDX", "RED_", "DarkBlue", "DARKBLUE", "DARK", "CUSTOM_NAME", "Renamed", "RENAMED", "A", "AB", "ABC", "ABCD", "ABD", "a", "Ab", "B", "BA", "x", "_"] {
        v.push(Some(e(t)));
    }
    for l in [vec![], vec![i(1)], vec![i(0)], vec![s("a")], vec![s("1")], vec![Value::Boolean(true)], vec![e("RED")], vec![e("A")], vec![float_value(1.5)], vec![Value::Null], vec![Value::List(vec![i(1)])], vec![i(1), i(2)]] {
        v.push(Some(Value::List(l)));
    }
    for o in [obj(&[]), obj(&[("a", i(1))]), obj(&[("value", i(1))]), obj(&[("RED", e("RED"))]), obj(&[("a", s("a"))])] {
        v.push(Some(o));
    }
    v
}

fn gen_number(s: &mut dyn Src, bounds: &[i128]) -> Value {
    match s.weighted(&[3, 3, 2, 3, 2, 2]) {
        0 => Value::Number(Number::from(gen_i64(s))),
        1 => {
            // a boundary of some width, +- a small delta, as an integer when a Number can carry it
            let b = bounds[s.choose(bounds.len())] + s.range(-2, 2) as i128;
            int_value(b).unwrap_or_else(|| float_value(b as f64))
        }
        2 => Value::Number(Number::from(match s.choose(3) {
            0 => i64::MAX as u64 + 1 + s.choose(4) as u64,
            1 => u64::MAX - s.choose(4) as u64,
            _ => s.u64(),
        })),
        3 => {
            // integral float at / next to a boundary
            let b = bounds[s.choose(bounds.len())] + s.range(-2, 2) as i128;
            float_value(b as f64)
        }
        4 => {
            // fractional float next to a small boundary
            let b = [0i64, 1, -1, 127, 128, -128, 255, 32767, 65535, 2147483647, -2147483648][s.choose(11)];
            float_value(b as f64 + [0.5, -0.5, 0.25, 1e-9][s.choose(4)])
        }
        _ => float_value(gen_f64_finite(s)),
    }
}

pub fn run(ctx: &mut Ctx) {
    ctx.rule = "InputType::parse / to_value of every built-in scalar mapping (i8..u64, isize, usize, their NonZero forms, f32, f64, bool, String, \
                char, ID, two derived enums). Streams: every integer in -70000..=70000 offered to the eight 8/16-bit types (exhaustive), every \
                value of those types round-tripped, width boundaries +-3 (as integers and as integral floats) and float classes offered to \
                every type, every ASCII character and random Unicode, values of every GraphQL kind (and undefined) offered to every type, \
                random boundary-dense numbers for the 32/64-bit types. Non-trivial = the model says reject, or the value is in an open \
                class, or the case is a round trip; distinct by type + rendered value"
        .into();
    ctx.assume("open class (either an error, or exactly the integer): integral floats (5.0, -0.0, 2^63 as float) offered to integer types");
    ctx.assume("open class (either an error, or exactly the decimal string): integers beyond the i64 range offered to ID; integral floats offered to ID carry no demand at all");
    ctx.assume("open class (either an error, or exactly the item): a String that spells an enum item name offered to an enum (that is how enums arrive in JSON variables); a String that spells no item must be rejected");
    ctx.assume("open class (either an error, or the correctly rounded value): integers that f64 / f32 cannot hold exactly, and finite non-f32 numbers offered to f32 whose nearest f32 is finite");
    ctx.assume("numbers are serde_json numbers without arbitrary precision: integers outside i64::MIN..=u64::MAX can only be offered as floats; NaN / infinity cannot be offered at all, they occur only as Rust values in the round-trip direction");
    ctx.assume("Value::Binary is not a GraphQL value kind and is not offered");
    ctx.assume("usize / isize are 64 bits wide on the build target");
    ctx.assume("only the trait API is observed; the registry-level `is_valid` pre-check of strict validation (shared by every type named Int) is outside this check");
    let fl = Flags { f1: ctx.open(F1), f2: ctx.open(F2) };
    let small = small_types();
    let wide = wide_types();
    let other = other_types();
    let bounds = boundaries();

    // ---- 1. exhaustive: every integer in -70000..=70000 to the 8/16-bit types; every value round-tripped
    let t0 = Instant::now();
    let mut n_ex = 0u64;
    let reach = 70_000i128;
    for t in &small {
        // by increasing magnitude, so that the first failing case is the smallest
        for m in 0..=reach {
            for n in if m == 0 { vec![0] } else { vec![m, -m] } {
                n_ex += 1;
                if ctx.check_case("small-int-exhaustive", (t.offer)(&int_value(n), fl), serde_json::json!({"type": t.name, "n": n as i64})) {
                    return;
                }
                if let Some(c) = (t.rt_int)(n, fl) {
                    n_ex += 1;
                    if ctx.check_case("small-int-exhaustive", c, serde_json::json!({"type": t.name, "roundtrip": n as i64})) {
                        return;
                    }
                }
            }
        }
    }
    ctx.enumerated("small-int-exhaustive", n_ex, true, t0);
    ctx.exhaustive = Some(true);

    // ---- 2. every GraphQL kind (and undefined) to every type
    let t0 = Instant::now();
    let mut n_k = 0u64;
    let kinds = kind_offers();
    for t in small.iter().chain(&wide).chain(&other) {
        for o in &kinds {
            if fl.f1 && t.name == "f32" && f32::overflows(o).is_some() {
                ctx.excluded(F1);
                continue;
            }
            n_k += 1;
            if ctx.check_case("kinds", (t.offer)(o, fl).class("kinds"), serde_json::json!({"type": t.name})) {
                return;
            }
        }
    }
    ctx.enumerated("kinds", n_k, true, t0);

    // ---- 3. width boundaries (integer and integral-float form) and float classes to every type
    let t0 = Instant::now();
    let mut n_b = 0u64;
    let fclasses = f64_classes();
    for t in small.iter().chain(&wide).chain(&other) {
        let mut offers: Vec<Value> = vec![];
        for b in &bounds {
            offers.extend(int_value(*b));
            offers.push(float_value(*b as f64));
            offers.push(float_value(*b as f64 + 0.5));
        }
        offers.extend(fclasses.iter().map(|f| float_value(*f)));
        for v in offers {
            let o = Some(v);
            if fl.f1 && t.name == "f32" && f32::overflows(&o).is_some() {
                ctx.excluded(F1);
                continue;
            }
            n_b += 1;
            if ctx.check_case("boundaries", (t.offer)(&o, fl).class("boundaries"), serde_json::json!({"type": t.name})) {
                return;
            }
        }
        for b in &bounds {
            if let Some(c) = (t.rt_int)(*b, fl) {
                n_b += 1;
                if ctx.check_case("boundaries", c, serde_json::json!({"type": t.name})) {
                    return;
                }
            }
        }
    }
    ctx.enumerated("boundaries", n_b, true, t0);

    // ---- 4. every ASCII character: alone, doubled, followed by a combining mark; to every type; round trips
    let t0 = Instant::now();
    let mut n_c = 0u64;
    for cp in 0u32..128 {
        let c = char::from_u32(cp).unwrap();
        for s in [c.to_string(), format!("{c}{c}"), format!("{c}\u{301}")] {
            let o = Some(Value::String(s));
            for t in small.iter().chain(&wide).chain(&other) {
                n_c += 1;
                if ctx.check_case("ascii", (t.offer)(&o, fl).class("ascii"), serde_json::json!({"type": t.name, "codepoint": cp})) {
                    return;
                }
            }
        }
        for case in [rt(&c, fl), rt(&c.to_string(), fl), rt(&ID(c.to_string()), fl)] {
            n_c += 1;
            if ctx.check_case("ascii", case, serde_json::json!({"codepoint": cp})) {
                return;
            }
        }
    }
    // round trips of the finite value sets and of the float classes
    let mut cases = vec![rt(&true, fl), rt(&false, fl), rt(&String::new(), fl), rt(&ID(String::new()), fl), rt(&ID("18446744073709551616".into()), fl), rt(&ID("1.0".into()), fl)];
    cases.extend(COLOR.iter().map(|(_, v)| rt(v, fl)));
    cases.extend(PFX.iter().map(|(_, v)| rt(v, fl)));
    for f in &fclasses {
        cases.push(rt(f, fl));
        let g = *f as f32;
        if g.is_finite() {
            cases.push(rt(&g, fl));
        }
    }
    for case in cases {
        n_c += 1;
        if ctx.check_case("ascii", case, serde_json::Value::Null) {
            return;
        }
    }
    ctx.enumerated("ascii", n_c, true, t0);

    // ---- 5. known-finding probes (the constructs the streams above and below leave out while a finding is open)
    let f32t = ty::<f32>();
    for f in [3.5e38, -3.5e38, 1e39, 1e300, -1e300, f64::MAX, f32::MAX as f64 + 2f64.powi(103), 2f64.powi(128)] {
        if ctx.check_case("probe-f32-overflow", (f32t.offer)(&Some(float_value(f)), fl).class("f32:beyond-range"), serde_json::json!({"value": f})) {
            return;
        }
    }
    let nan_payload = f64::from_bits(0x7ff8_0000_0000_1234);
    for case in [rt(&f64::NAN, fl), rt(&-f64::NAN, fl), rt(&nan_payload, fl), rt(&f64::INFINITY, fl), rt(&f64::NEG_INFINITY, fl), rt(&f32::NAN, fl), rt(&f32::INFINITY, fl), rt(&f32::NEG_INFINITY, fl)] {
        if ctx.check_case("probe-non-finite-roundtrip", case.class("float:non-finite"), serde_json::Value::Null) {
            return;
        }
    }

    // ---- 6. random: boundary-dense numbers to the 32/64-bit integer types, floats and ID
    let n = ctx.tier.pick(600_000, 12_500_000);
    let numeric: Vec<Ty> = wide_types().into_iter().chain([ty::<f32>(), ty::<f64>(), ty::<ID>(), ty::<i16>(), ty::<NonZeroU8>()]).collect();
    let skipped = Cell::new(0u64);
    ctx.stream("wide-numbers", n, 8, |s| {
        let t = &numeric[s.choose(numeric.len())];
        let mut o = Some(gen_number(s, &bounds));
        if fl.f1 && t.name == "f32" && f32::overflows(&o).is_some() {
            skipped.set(skipped.get() + 1);
            o = Some(float_value(1.5));
        }
        (t.offer)(&o, fl).class("random-number")
    });
    for _ in 0..skipped.get() {
        ctx.excluded(F1);
    }
    if ctx.violations() > 0 {
        return;
    }

    // random integer round trips for the wide types
    ctx.stream("wide-roundtrip", n / 2, 6, |s| {
        let t = &numeric[s.choose(12)];
        let v: i128 = match s.choose(3) {
            0 => gen_i64(s) as i128,
            1 => bounds[s.choose(bounds.len())] + s.range(-2, 2) as i128,
            _ => s.u64() as i128,
        };
        match (t.rt_int)(v, fl) {
            Some(c) => c,
            // not a value of the drawn type: offer it instead (must be rejected)
            None => (t.offer)(&int_value(v).or_else(|| Some(float_value(v as f64))), fl).class("random-number"),
        }
    });
    if ctx.violations() > 0 {
        return;
    }

    // random float round trips (every bit pattern class); non-finite ones are C07-F2's construct
    let skipped = Cell::new(0u64);
    ctx.stream("float-roundtrip", n / 2, 4, |s| {
        if s.bool() {
            let mut f = match s.choose(3) {
                0 => gen_f64_finite(s),
                _ => f64::from_bits(s.u64()),
            };
            if fl.f2 && !f.is_finite() {
                skipped.set(skipped.get() + 1);
                f = f64::from_bits(f.to_bits() & !(1u64 << 62));
            }
            rt(&f, fl).class_if(!f.is_finite(), "float:non-finite").class_if(f.is_finite() && !f.is_normal() && f != 0.0, "float:subnormal")
        } else {
            let mut f = match s.choose(3) {
                0 => gen_f64_finite(s) as f32,
                _ => f32::from_bits(s.raw()),
            };
            if fl.f2 && !f.is_finite() {
                skipped.set(skipped.get() + 1);
                f = f32::from_bits(f.to_bits() & !(1u32 << 30));
            }
            rt(&f, fl).class_if(!f.is_finite(), "float:non-finite").class_if(f.is_finite() && !f.is_normal() && f != 0.0, "float:subnormal")
        }
    });
    for _ in 0..skipped.get() {
        ctx.excluded(F2);
    }
    if ctx.violations() > 0 {
        return;
    }

    // ---- 7. random Unicode: single scalars and strings to char / String / ID / enums / a few non-string types
    let texty: Vec<Ty> = vec![ty::<char>(), ty::<String>(), ty::<ID>(), ty::<Color>(), ty::<Pfx>(), ty::<bool>(), ty::<i32>(), ty::<f64>()];
    ctx.stream("unicode", n / 2, 24, |s| {
        let text = match s.choose(4) {
            0 => gen_char(s).to_string(),
            1 => gen_string(s, 4),
            2 => {
                // an enum item name, possibly damaged by one edit
                let base = ["RED", "GREEN", "DARK_BLUE", "custom_NAME", "A", "AB", "ABC"][s.choose(7)].to_string();
                let mut cs: Vec<char> = base.chars().collect();
                match s.choose(4) {
                    0 => {}
                    1 => {
                        cs.pop();
                    }
                    2 => cs.push(gen_char(s)),
                    _ => {
                        let i = s.choose(cs.len());
                        cs[i] = cs[i].to_ascii_lowercase();
                    }
                }
                cs.into_iter().collect()
            }
            _ => loop {
                // uniformly drawn scalar value
                if let Some(c) = char::from_u32(s.range(0, 0x10ffff) as u32) {
                    break c.to_string();
                }
            },
        };
        let nchars = text.chars().count();
        let t = &texty[s.choose(texty.len())];
        // enum-kind offers need a valid GraphQL name
        let is_name = !text.is_empty() && text.chars().enumerate().all(|(i, c)| c == '_' || c.is_ascii_alphabetic() || (i > 0 && c.is_ascii_digit()));
        let o = if is_name && s.bool() { Some(Value::Enum(Name::new(&text))) } else { Some(Value::String(text.clone())) };
        let c = (t.offer)(&o, fl);
        c.class_if(nchars == 1 && !text.is_ascii(), "char:single-non-ascii").class_if(nchars > 1, "char:multi").class_if(nchars == 0, "char:empty")
    });
    if ctx.violations() > 0 {
        return;
    }
    ctx.stream("unicode-roundtrip", n / 4, 24, |s| match s.choose(3) {
        0 => rt(&gen_char(s), fl),
        1 => rt(&gen_string(s, 6), fl),
        _ => rt(&ID(gen_string(s, 6)), fl),
    });

    ctx.floor("int:accept", 100_000);
    ctx.floor("int:reject", 100_000);
    ctx.floor("float:open-class", 1_000);
    ctx.floor("float:reject", 5_000);
    ctx.floor("string:reject", 5_000);
    ctx.floor("enum:reject", 500);
    ctx.floor("enum:accept", 50);
    ctx.floor("undefined:reject", 20);
    ctx.floor("roundtrip", 200_000);
    ctx.floor("char:single-non-ascii", 2_000);
    ctx.floor("char:multi", 2_000);
    ctx.floor("float:subnormal", 50);
}
