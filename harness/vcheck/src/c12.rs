//! C12 — no client input can crash, overflow the stack or hang the server.
//! Cases run in a CHILD process of this binary, each on a thread with a 2 MiB stack (tokio's worker default); panics
//! are caught in the child, aborts (stack overflow) are seen by the parent through the child's exit status and a
//! marker file naming the case that was running.
use async_graphql::http::{MultipartOptions, WebSocket, WsMessage};
use async_graphql::*;
use futures_util::stream::{self, StreamExt};
use std::io::Write;
use vcore::{Case, Ctx, Src};

#[derive(Enum, Copy, Clone, Eq, PartialEq)]
enum Kind {
    A,
    B,
}
#[derive(InputObject)]
struct Deep {
    n: Option<i32>,
    s: Option<String>,
    k: Option<Kind>,
    id: Option<ID>,
    f: Option<f64>,
    child: Option<Box<Deep>>,
    list: Option<Vec<Deep>>,
    json: Option<Json<serde_json::Value>>,
    file: Option<Upload>,
}
#[derive(OneofObject)]
enum Either {
    N(i32),
    S(String),
    D(Deep),
}
struct Query;
#[Object]
impl Query {
    async fn int(&self, x: Option<i32>, y: Option<i64>, z: Option<u8>) -> i32 {
        x.unwrap_or(0).wrapping_add(y.unwrap_or(0) as i32).wrapping_add(z.unwrap_or(0) as i32)
    }
    async fn float(&self, x: Option<f64>, y: Option<f32>) -> f64 {
        x.unwrap_or(0.0) + y.unwrap_or(0.0) as f64
    }
    async fn text(&self, x: Option<String>, id: Option<ID>, c: Option<char>, b: Option<bool>) -> String {
        format!("{:?}{:?}{:?}{:?}", x, id.map(|i| i.0), c, b)
    }
    async fn kind(&self, x: Option<Kind>, xs: Option<Vec<Option<Kind>>>) -> i32 {
        x.map(|_| 1).unwrap_or(0) + xs.map(|v| v.len() as i32).unwrap_or(0)
    }
    async fn deep(&self, x: Option<Deep>, xs: Option<Vec<Vec<Option<Deep>>>>) -> i32 {
        x.map(|_| 1).unwrap_or(0) + xs.map(|v| v.len() as i32).unwrap_or(0)
    }
    async fn either(&self, x: Option<Either>) -> bool {
        x.is_some()
    }
    async fn json(&self, x: Option<Json<serde_json::Value>>) -> Json<serde_json::Value> {
        x.unwrap_or(Json(serde_json::Value::Null))
    }
    async fn me(&self) -> Query {
        Query
    }
    async fn list(&self) -> Vec<Query> {
        vec![Query, Query]
    }
}
struct Mutation;
#[Object]
impl Mutation {
    async fn upload(&self, ctx: &Context<'_>, file: Option<Upload>, files: Option<Vec<Upload>>, d: Option<Deep>) -> i32 {
        let mut n = 0;
        if let Some(f) = file {
            n += f.value(ctx).map(|v| v.filename.len() as i32).unwrap_or(-1);
        }
        for f in files.unwrap_or_default() {
            n += f.value(ctx).map(|v| v.filename.len() as i32).unwrap_or(-1);
        }
        fn walk(ctx: &Context<'_>, d: &Deep) -> i32 {
            let mut n = 0;
            if let Some(f) = &d.file {
                n += f.value(ctx).map(|v| v.filename.len() as i32).unwrap_or(-1);
            }
            if let Some(c) = &d.child {
                n += walk(ctx, c);
            }
            for c in d.list.iter().flatten() {
                n += walk(ctx, c);
            }
            n
        }
        if let Some(d) = d {
            n += walk(ctx, &d);
        }
        n
    }
}
struct Sub;
#[Subscription]
impl Sub {
    async fn ticks(&self, n: Option<i32>) -> impl futures_util::Stream<Item = i32> {
        stream::iter(0..n.unwrap_or(2).clamp(0, 3))
    }
}
type U = Schema<Query, Mutation, Sub>;

// ---------------------------------------------------------------- input generators
const QUERIES: [&str; 14] = [
    "{ int(x: 1, y: 2, z: 3) float(x: 1.5) }",
    "query Q($a: Int = 3, $d: Deep, $k: [Kind]) { int(x: $a) deep(x: $d) kind(xs: $k) me { me { list { int } } } }",
    "mutation M($f: Upload, $fs: [Upload!], $d: Deep) { upload(file: $f, files: $fs, d: $d) }",
    "subscription S($n: Int) { ticks(n: $n) }",
    "{ text(x: \"a\\u00e9\\n\", id: 5, c: \"x\", b: true) json(x: {a: [1, 2.5, \"s\", null, {b: true}]}) }",
    "query A { ...F } fragment F on Query { me { ...G } } fragment G on Query { int ... on Query { float } }",
    "{ either(x: {n: 1}) e2: either(x: {d: {child: {child: {list: [{n: 1}]}}}}) }",
    "{ __schema { types { name fields { name args { name defaultValue } } } } __type(name: \"Deep\") { inputFields { name } } }",
    "query($v: [[Deep]]) { deep(xs: $v) @skip(if: false) @include(if: true) }",
    "{ kind(x: A, xs: [A, B, null]) }",
    "query Q { a: int b: int c: int } query R { float }",
    "{ int(x: 2147483647, y: 9223372036854775807, z: 255) float(x: 1e308, y: 3.4e38) }",
    "{ list { list { list { list { int } } } } }",
    "{ deep(x: {json: {a: {b: {c: [[[1]]]}}}, file: \"#__graphql_file__:0\"}) }",
];
const SNIPPETS: [&str; 44] = [
    "{", "}", "[", "]", "(", ")", "$", "@", ":", "!", "...", "\"", "\"\"\"", "\\", "\\u", "\\uD800", "#", ",", "\n", "\r", "\u{feff}", "0", "-", "1e999", "99999999999999999999999", "1.", ".5", "null", "true",
    "on", "query", "fragment", "mutation", "#__graphql_file__:", "#__graphql_file__:x", "#__graphql_file__:99999999999999999999", "#__graphql_file__:7", "__typename", "__schema", "\u{0}", "\u{7f}", "é", "😀", "@skip(if: $x)",
];

fn mutate_text(s: &mut dyn Src, base: &str) -> String {
    let mut cs: Vec<char> = base.chars().collect();
    for _ in 0..s.choose(4) {
        let len = cs.len();
        let at = s.choose(len + 1);
        match s.choose(6) {
            0 if len > 0 => {
                cs.remove(at.min(len - 1));
            }
            1 | 2 => {
                for (k, c) in SNIPPETS[s.choose(SNIPPETS.len())].chars().enumerate() {
                    cs.insert((at + k).min(cs.len()), c);
                }
            }
            3 if len > 1 => {
                let i = at.min(len - 2);
                cs.swap(i, i + 1);
            }
            4 if len > 0 => {
                let i = at.min(len - 1);
                let l = 1 + s.choose(8.min(len - i));
                let span: Vec<char> = cs[i..i + l].to_vec();
                let reps = 1 + s.choose(4);
                for _ in 0..reps {
                    for (k, c) in span.iter().enumerate() {
                        cs.insert(i + k, *c);
                    }
                }
            }
            _ if len > 0 => {
                let i = at.min(len - 1);
                let l = 1 + s.choose(6.min(len - i));
                cs.drain(i..i + l);
            }
            _ => {}
        }
    }
    cs.into_iter().collect()
}

fn gen_json(s: &mut dyn Src, depth: usize) -> serde_json::Value {
    use serde_json::Value as J;
    match s.choose(if depth == 0 { 7 } else { 10 }) {
        0 => J::Null,
        1 => J::Bool(s.bool()),
        2 => J::from(vcore::gens::gen_i64(s)),
        3 => J::from(s.u64()),
        4 => serde_json::Number::from_f64(vcore::gens::gen_f64_finite(s)).map(J::Number).unwrap_or(J::Null),
        5 => J::String(vcore::gens::gen_string(s, 6)),
        6 => J::String(SNIPPETS[s.choose(SNIPPETS.len())].to_string()),
        7 => J::Array((0..s.choose(4)).map(|_| gen_json(s, depth - 1)).collect()),
        _ => {
            let mut m = serde_json::Map::new();
            for _ in 0..s.choose(4) {
                let k = ["n", "s", "k", "id", "f", "child", "list", "json", "file", "d", "a", "", "__proto__", "é"][s.choose(14)];
                m.insert(k.to_string(), gen_json(s, depth - 1));
            }
            J::Object(m)
        }
    }
}

fn nested_json(kind: usize, n: usize) -> String {
    match kind {
        0 => format!("{}{}", "[".repeat(n), "]".repeat(n)),
        _ => format!("{}1{}", "{\"child\":".repeat(n), "}".repeat(n)),
    }
}

/// adversarial families, parameterised by size
fn family(i: usize, n: usize) -> String {
    match i {
        0 => format!("{}int{}", "{me".repeat(n), "}".repeat(n)),
        1 => format!("{{json(x:{}{})}}", "[".repeat(n), "]".repeat(n)),
        2 => format!("{{json(x:{}1{})}}", "{k:".repeat(n), "}".repeat(n)),
        3 => format!("query($a:{}Int{}){{int}}", "[".repeat(n), "]".repeat(n)),
        4 => format!("{{int{}}}", " @skip(if:false)".repeat(n)),
        5 => format!("{{{}}}", "int ".repeat(n)),
        6 => format!("{{text(x:\"{}\")}}", "a".repeat(n)),
        7 => format!("{{{}}}", "a".repeat(n)),
        8 => format!("#{}\n{{int}}", "c".repeat(n)),
        9 => format!("{{float(x:1e{})}}", "9".repeat(n.min(5000))),
        10 => format!("{{int(x:{})}}", "9".repeat(n.min(5000))),
        11 => format!("{{int}}{}", "...".repeat(n)),
        12 => format!("{{...F}} fragment F on Query{{{}...F}}", "me{".repeat(n.min(60)) + &"}".repeat(0)),
        13 => format!("{{ {} }}", "... on Query { ".repeat(n) + "int" + &" }".repeat(n)),
        14 => format!("{{text(x:\"{}\")}}", "\\u0041".repeat(n)),
        15 => format!("{{text(x:\"\"\"{}\"\"\")}}", "\n  a".repeat(n)),
        16 => format!("{{deep(x:{}{{n:1}}{})}}", "{child:".repeat(n), "}".repeat(n)),
        17 => format!("{{deep(xs:{}{})}}", "[".repeat(n), "]".repeat(n)),
        18 => "(".repeat(n),
        19 => format!("{{int(x:{}1)}}", "-".repeat(n)),
        20 => format!("query Q{}{{int}}", "($a:Int)".repeat(n.min(3))),
        _ => format!("{}", "\"".repeat(n)),
    }
}
const FAMILIES: usize = 22;

// ---------------------------------------------------------------- executing one input (in the child, on a small stack)
type Job = Box<dyn FnOnce() -> Result<String, String> + Send + 'static>;
static WORKER: std::sync::OnceLock<std::sync::Mutex<std::sync::mpsc::Sender<(Job, std::sync::mpsc::Sender<Result<String, String>>)>>> = std::sync::OnceLock::new();

/// Run `f` on the persistent worker thread whose stack is 2 MiB (a fresh thread per case costs several
/// milliseconds here: per-thread hasher seeding and stack mapping dominate). Panics are caught on the worker; a
/// stack overflow still aborts the whole (child) process, which is what the parent watches for.
fn on_small_stack<F: FnOnce() -> Result<String, String> + Send + 'static>(f: F) -> Result<String, String> {
    let tx = WORKER.get_or_init(|| {
        let (tx, rx) = std::sync::mpsc::channel::<(Job, std::sync::mpsc::Sender<Result<String, String>>)>();
        std::thread::Builder::new()
            .stack_size(2 << 20)
            .spawn(move || {
                while let Ok((job, back)) = rx.recv() {
                    let r = match vcore::drive::catch(job) {
                        Ok(r) => r,
                        Err(p) => Err(format!("panic: {}", p)),
                    };
                    let _ = back.send(r);
                }
            })
            .expect("worker thread");
        std::sync::Mutex::new(tx)
    });
    let (btx, brx) = std::sync::mpsc::channel();
    tx.lock().unwrap().send((Box::new(f), btx)).map_err(|e| e.to_string())?;
    brx.recv().map_err(|e| format!("worker died: {}", e))?
}

fn work_bound(size: usize) -> u64 {
    10_000 + 64 * (size as u64) * (size as u64)
}

fn run_request(schema: &U, req: Request, size: usize) -> Result<String, String> {
    async_graphql::verif_hooks::WORK.store(0, std::sync::atomic::Ordering::Relaxed);
    let schema = schema.clone();
    on_small_stack(move || {
        let resp = vcore::det::block_on(schema.execute(req));
        let w = async_graphql::verif_hooks::WORK.load(std::sync::atomic::Ordering::Relaxed);
        if w > work_bound(size) {
            return Err(format!("checking work {} exceeds the generous bound for {} bytes (no progress guarantee)", w, size));
        }
        Ok(if resp.errors.is_empty() { "ok".into() } else { "errors".into() })
    })
}

fn marker_path() -> std::path::PathBuf {
    std::path::PathBuf::from(std::env::var("VERIF_C12_MARKER").unwrap_or_else(|_| "/dev/shm/verif-c12-marker".into()))
}
fn mark(stream: &str, rendered: &str) {
    if let Ok(mut f) = std::fs::File::create(marker_path()) {
        let _ = f.write_all(format!("{}\n{}", stream, rendered).as_bytes());
    }
}

fn outcome(stream: &str, rendered: String, r: Result<String, String>, passed_first_layer: bool) -> Case {
    match r {
        Ok(cls) => Case::pass(rendered).nontrivial(passed_first_layer).class(format!("{}:{}", stream, cls)).class_if(passed_first_layer, "passes-first-decoding-layer"),
        Err(e) => Case::fail(rendered, e),
    }
}

fn multipart_body(s: &mut dyn Src, boundary: &str) -> Vec<u8> {
    let mut b = Vec::new();
    let ops = if s.bool() {
        serde_json::json!({"query": QUERIES[2], "variables": {"f": null, "fs": [null, null], "d": {"file": null, "child": {"file": null}}}}).to_string()
    } else {
        gen_json(s, 3).to_string()
    };
    let map = match s.choose(4) {
        0 => serde_json::json!({"0": ["variables.f"], "1": ["variables.fs.0", "variables.d.child.file"]}).to_string(),
        1 => serde_json::json!({"0": ["variables.nope", "variables.fs.9", "0.variables.f", "variables.f.x.y"]}).to_string(),
        2 => gen_json(s, 3).to_string(),
        _ => serde_json::json!({"0": ["variables.f", "variables.f"], "9": ["variables.f"]}).to_string(),
    };
    let mut parts: Vec<(String, Option<String>, Vec<u8>)> = vec![("operations".into(), None, ops.into_bytes()), ("map".into(), None, map.into_bytes())];
    for i in 0..s.choose(4) {
        parts.push((i.to_string(), Some(vcore::gens::gen_string(s, 5)), vcore::gens::gen_string(s, 20).into_bytes()));
    }
    if s.chance(1, 3) {
        let i = s.choose(parts.len());
        let j = s.choose(parts.len());
        parts.swap(i, j);
    }
    for (name, file, content) in parts {
        b.extend_from_slice(format!("--{}\r\n", boundary).as_bytes());
        match file {
            Some(f) => b.extend_from_slice(format!("Content-Disposition: form-data; name=\"{}\"; filename=\"{}\"\r\nContent-Type: text/plain\r\n\r\n", name, f.replace(['"', '\r', '\n'], "_")).as_bytes()),
            None => b.extend_from_slice(format!("Content-Disposition: form-data; name=\"{}\"\r\n\r\n", name).as_bytes()),
        }
        b.extend_from_slice(&content);
        b.extend_from_slice(b"\r\n");
    }
    b.extend_from_slice(format!("--{}--\r\n", boundary).as_bytes());
    // byte-level damage
    for _ in 0..s.choose(3) {
        if b.is_empty() {
            break;
        }
        let at = s.choose(b.len());
        match s.choose(3) {
            0 => {
                b.truncate(at);
            }
            1 => b[at] = s.choose(256) as u8,
            _ => {
                b.insert(at, b"-\r\n\";= "[s.choose(7)]);
            }
        }
    }
    b
}

fn ws_frames(s: &mut dyn Src) -> Vec<Vec<u8>> {
    let n = s.choose(8);
    (0..n)
        .map(|_| {
            let t = ["connection_init", "start", "subscribe", "stop", "complete", "ping", "pong", "connection_terminate", "nope", ""][s.choose(10)];
            let base = match s.choose(5) {
                0 => serde_json::json!({"type": t, "id": "1", "payload": {"query": QUERIES[s.choose(QUERIES.len())], "variables": gen_json(s, 2)}}).to_string(),
                1 => serde_json::json!({"type": t, "payload": gen_json(s, 3)}).to_string(),
                2 => serde_json::json!({"type": t, "id": gen_json(s, 1), "payload": {"query": mutate_text(s, QUERIES[3])}}).to_string(),
                3 => gen_json(s, 3).to_string(),
                _ => vcore::gens::gen_string(s, 12),
            };
            let mut b = mutate_text(s, &base).into_bytes();
            if s.chance(1, 6) && !b.is_empty() {
                let at = s.choose(b.len());
                b[at] = 0xff;
            }
            b
        })
        .collect()
}

/// all streams; runs inside the child process
pub fn run_child(ctx: &mut Ctx) {
    ctx.rule = "schema with every built-in input type (Int widths, Float, String, char, Boolean, ID, enum, recursive input object, oneOf, Json, Upload, lists) plus subscriptions; inputs: grammar-aware and \
                character-level mutations of query text, adversarial size families (deep nesting of selection sets / lists / objects / types / inline fragments, long tokens, huge numbers, escapes, cycles), \
                random and forged variables (upload markers), operation names, extensions, GET query strings, JSON bodies and batches, multipart bodies with byte damage, websocket frames. Each case runs on a \
                2 MiB-stack thread in a child process: it must return (response or error), not panic, not abort, and stay below a generous checking-work bound. Non-trivial = the input passes the first decoding layer \
                (parses as a document / JSON / multipart / websocket message); distinct by input".into();
    ctx.assume("stack budget 2 MiB per case (tokio worker default); nesting in JSON is bounded by serde_json's own recursion limit (client JSON never reaches the library deeper than 128)");
    ctx.assume("'stops making progress' is decided by the deterministic work counter (verif-hooks) against 10000 + 64*size^2 and by the parent's watchdog (exit 2, never a violation); the fragment fan-out family is C11's subject and not generated here");
    let schema: U = Schema::build(Query, Mutation, Sub).finish();
    let n = ctx.tier.pick(100_000, 3_000_000);

    // adversarial families at growing sizes
    let sizes: Vec<usize> = ctx.tier.pick(vec![8, 63, 64, 65, 66, 200, 2_000, 20_000], vec![8, 63, 64, 65, 66, 200, 2_000, 20_000, 200_000, 1_000_000]);
    for fam in 0..FAMILIES {
        for &sz in &sizes {
            let text = family(fam, sz);
            let rendered = format!("family {} size {}: {}", fam, sz, vcore::drive::truncate(&text, 120));
            mark("families", &rendered);
            let parses = async_graphql::parser::parse_query(&text).is_ok() || text.len() < 100_000 && false;
            let r = run_request(&schema, Request::new(text.clone()), text.len());
            let c = outcome("families", rendered, r, parses).class(format!("family-{}", fam));
            if ctx.check_case("families", c, serde_json::json!({"family": fam, "size": sz})) {
                return;
            }
        }
    }
    // the nesting families behind text that a scanner must skip exactly as the grammar does: comments ended by
    // LF / CR / CRLF / end of input, brackets and '#' inside strings and block strings, escaped quotes, BOM
    const DECOR: [&str; 14] = [
        "#c\n", "#c\r", "#c\r\n", "#{{{{\r", "#\"\r", "#\"\"\"\r", "\u{feff}#}\r",
        "query A{text(x:\"#\")} ", "query A{text(x:\"\\\"#{[(\")} ", "query A{text(x:\"\"\"\"#\"\"\")} ", "query A{text(x:\"\"\"\\\"\"\"#\"\"\")} ", "query A{text(x:\"\\\\\")} #\r",
        "query A{text(x:\"\")} #\"\r", ",,,#\r,",
    ];
    for (d, decor) in DECOR.iter().enumerate() {
        for fam in [0usize, 1, 2, 3, 13, 16, 17, 18] {
            for &sz in &[200usize, 300, 20_000] {
                let text = format!("{}{}", decor, family(fam, sz));
                let rendered = format!("decoration {} family {} size {}: {}", d, fam, sz, vcore::drive::truncate(&text, 120));
                mark("decorated-families", &rendered);
                let parses = async_graphql::parser::parse_query(&text).is_ok();
                let r = run_request(&schema, Request::new(text.clone()), text.len());
                let c = outcome("decorated-families", rendered, r, parses).class(format!("decoration-{}", d));
                if ctx.check_case("decorated-families", c, serde_json::json!({"decoration": d, "family": fam, "size": sz})) {
                    return;
                }
            }
        }
    }
    // nested JSON variables at the parser's depth limit
    for kind in 0..2 {
        for depth in [10usize, 126, 127, 128, 129, 1_000, 100_000] {
            let body = format!("{{\"query\":\"query($d: Deep, $v: [[Deep]]) {{ deep(x: $d, xs: $v) }}\",\"variables\":{{\"{}\":{}}}}}", if kind == 0 { "v" } else { "d" }, nested_json(kind, depth));
            let rendered = format!("json body with variables nested {} deep (kind {})", depth, kind);
            mark("json-depth", &rendered);
            let schema2 = schema.clone();
            let size = body.len();
            let r = on_small_stack(move || {
                let req = vcore::det::block_on(async_graphql::http::receive_json(futures_util::io::Cursor::new(body.into_bytes())));
                match req {
                    Err(_) => Ok("rejected".into()),
                    Ok(req) => {
                        let _ = vcore::det::block_on(schema2.execute(req));
                        Ok("decoded".to_string())
                    }
                }
            });
            let _ = size;
            let decoded = matches!(&r, Ok(c) if c == "decoded");
            if ctx.check_case("json-depth", outcome("json-depth", rendered, r, decoded), serde_json::json!({"depth": depth})) {
                return;
            }
        }
    }

    ctx.stream("query-text", n, 120, |s| {
        let base = QUERIES[s.choose(QUERIES.len())];
        let text = mutate_text(s, base);
        let vars = if s.bool() { gen_json(s, 4) } else { serde_json::json!({"f": SNIPPETS[33 + s.choose(4)], "fs": [SNIPPETS[33 + s.choose(4)]], "d": {"file": SNIPPETS[33 + s.choose(4)], "list": [{"file": "#__graphql_file__:3"}]}, "a": gen_json(s, 1), "n": gen_json(s, 1)}) };
        let mut req = Request::new(text.clone()).variables(Variables::from_json(vars.clone()));
        if s.chance(1, 3) {
            req = req.operation_name(["Q", "M", "S", "A", "R", "", "é"][s.choose(7)]);
        }
        if s.chance(1, 4) {
            req.extensions.insert("persistedQuery".into(), Value::from_json(gen_json(s, 2)).unwrap_or_default());
        }
        let rendered = format!("query: {}\nvariables: {}", text, vars);
        mark("query-text", &rendered);
        let parses = async_graphql::parser::parse_query(&text).is_ok();
        outcome("query-text", rendered, run_request(&schema, req, text.len()), parses)
    });

    ctx.stream("batch-and-get", n / 3, 160, |s| {
        let k = s.choose(3);
        let rendered;
        let r;
        let mut first_layer = false;
        match k {
            0 => {
                // GET query string
                let qi = s.choose(QUERIES.len());
                let q = mutate_text(s, QUERIES[qi]);
                let qs = format!("query={}&operationName={}&variables={}&extensions={}", pct(&q, s), pct(&vcore::gens::gen_string(s, 4), s), pct(&gen_json(s, 3).to_string(), s), pct(&gen_json(s, 2).to_string(), s));
                let qs = mutate_text(s, &qs);
                rendered = format!("GET ?{}", qs);
                mark("batch-and-get", &rendered);
                let schema2 = schema.clone();
                let qs2 = qs.clone();
                let res = on_small_stack(move || match async_graphql::http::parse_query_string(&qs2) {
                    Err(_) => Ok("rejected".into()),
                    Ok(req) => {
                        let _ = vcore::det::block_on(schema2.execute(req));
                        Ok("decoded".to_string())
                    }
                });
                first_layer = matches!(&res, Ok(c) if c == "decoded");
                r = res;
            }
            1 => {
                // JSON body / batch with damage
                let mut items = vec![];
                for _ in 0..1 + s.choose(3) {
                    let qi = s.choose(QUERIES.len());
                    let q = mutate_text(s, QUERIES[qi]);
                    let (a, b, c) = (gen_json(s, 0), gen_json(s, 3), gen_json(s, 2));
                    items.push(serde_json::json!({"query": q, "operationName": a, "variables": b, "extensions": c}));
                }
                let body = if s.bool() { serde_json::Value::Array(items).to_string() } else { items[0].to_string() };
                let body = mutate_text(s, &body);
                rendered = format!("POST json {}", body);
                mark("batch-and-get", &rendered);
                let schema2 = schema.clone();
                let b2 = body.clone();
                let res = on_small_stack(move || match vcore::det::block_on(async_graphql::http::receive_batch_body(Some("application/json"), futures_util::io::Cursor::new(b2.into_bytes()), MultipartOptions::default())) {
                    Err(_) => Ok("rejected".into()),
                    Ok(req) => {
                        let _ = vcore::det::block_on(schema2.execute_batch(req));
                        Ok("decoded".to_string())
                    }
                });
                first_layer = matches!(&res, Ok(c) if c == "decoded");
                r = res;
            }
            _ => {
                let boundary = ["X", "--X", "a b", "0123456789012345678901234567890123456789012345678901234567890123456789"][s.choose(4)];
                let body = multipart_body(s, boundary);
                let ct = if s.chance(1, 8) { "multipart/form-data".to_string() } else { format!("multipart/form-data; boundary={}", boundary) };
                rendered = format!("POST {} {}", ct, String::from_utf8_lossy(&body));
                mark("batch-and-get", &rendered);
                let schema2 = schema.clone();
                let opts = MultipartOptions::default().max_file_size(if s.bool() { 8 } else { 1 << 20 }).max_num_files(1 + s.choose(3));
                let res = on_small_stack(move || match vcore::det::block_on(async_graphql::http::receive_batch_body(Some(ct), futures_util::io::Cursor::new(body), opts)) {
                    Err(_) => Ok("rejected".into()),
                    Ok(req) => {
                        let _ = vcore::det::block_on(schema2.execute_batch(req));
                        Ok("decoded".to_string())
                    }
                });
                first_layer = matches!(&res, Ok(c) if c == "decoded");
                r = res;
            }
        }
        outcome("transport", rendered, r, first_layer).class(["get", "json", "multipart"][k])
    });

    ctx.stream("websocket", n / 3, 200, |s| {
        let frames = ws_frames(s);
        let proto = if s.bool() { async_graphql::http::WebSocketProtocols::GraphQLWS } else { async_graphql::http::WebSocketProtocols::SubscriptionsTransportWS };
        let rendered = format!("{:?} frames: {:?}", proto, frames.iter().map(|f| String::from_utf8_lossy(f).to_string()).collect::<Vec<_>>());
        mark("websocket", &rendered);
        let schema2 = schema.clone();
        let r = on_small_stack(move || {
            // Driven the way an executor drives a task: polled again right after every item, after `Pending` only
            // when its waker was invoked. All frames are ready from the start, so a connection that goes to sleep
            // unwoken while frames are unread has stopped making progress.
            use std::sync::atomic::{AtomicBool, AtomicUsize, Ordering::SeqCst};
            struct Flag(AtomicBool);
            impl futures_util::task::ArcWake for Flag {
                fn wake_by_ref(a: &std::sync::Arc<Self>) {
                    a.0.store(true, SeqCst);
                }
            }
            let total = frames.len();
            let read = std::sync::Arc::new(AtomicUsize::new(0));
            let read2 = read.clone();
            let input = stream::iter(frames).inspect(move |_| {
                read2.fetch_add(1, SeqCst);
            });
            let mut ws = Box::pin(WebSocket::new(schema2, input, proto));
            let flag = std::sync::Arc::new(Flag(AtomicBool::new(false)));
            let waker = futures_util::task::waker(flag.clone());
            let mut cx = std::task::Context::from_waker(&waker);
            let mut out: Vec<WsMessage> = vec![];
            let mut spins = 0;
            while out.len() < 64 {
                match futures_util::Stream::poll_next(ws.as_mut(), &mut cx) {
                    std::task::Poll::Ready(Some(m)) => out.push(m),
                    std::task::Poll::Ready(None) => break,
                    std::task::Poll::Pending => {
                        if flag.0.swap(false, SeqCst) {
                            spins += 1;
                            if spins > 100_000 {
                                return Err("the connection keeps waking itself without producing anything (100000 polls)".into());
                            }
                            continue;
                        }
                        let unread = total - read.load(SeqCst);
                        if unread > 0 {
                            return Err(format!("the connection is pending and nothing will wake it, with {} of {} client frames unread (lost wake-up: it stopped making progress)", unread, total));
                        }
                        break;
                    }
                }
            }
            Ok(if out.iter().any(|m| matches!(m, WsMessage::Text(_))) { "answered".into() } else { "closed-or-silent".into() })
        });
        let fl = matches!(&r, Ok(c) if c == "answered");
        outcome("websocket", rendered, r, fl)
    });
}

fn pct(t: &str, s: &mut dyn Src) -> String {
    let mut out = String::new();
    for b in t.bytes() {
        if b.is_ascii_alphanumeric() && !s.chance(1, 10) {
            out.push(b as char);
        } else {
            out.push_str(&format!("%{:02X}", b));
        }
    }
    out
}

/// parent: run the child, relay its verdict, turn an abort into a violation naming the case from the marker file
pub fn run(ctx: &mut Ctx) {
    let marker = format!("/dev/shm/verif-c12-marker-{}", std::process::id());
    std::env::set_var("VERIF_C12_MARKER", &marker);
    let tier = ctx.tier.name().to_string();
    let mut args = vec![tier];
    if let Some(r) = &ctx.replay {
        args.push("--replay".into());
        args.push(r.display().to_string());
    }
    let timeout = std::time::Duration::from_secs(ctx.tier.pick(900, 7200));
    let out = match vcore::child::run_child("c12", &args, b"", timeout) {
        Ok(o) => o,
        Err(e) => {
            println!("INCONCLUSIVE: cannot start child: {}", e);
            std::process::exit(2);
        }
    };
    print!("{}", String::from_utf8_lossy(&out.stdout));
    let last = std::fs::read_to_string(&marker).unwrap_or_default();
    let _ = std::fs::remove_file(&marker);
    if out.timed_out {
        println!("INCONCLUSIVE: C12 child exceeded the watchdog; last case: {}", vcore::drive::truncate(&last, 300));
        std::process::exit(2);
    }
    match (out.code, out.signal) {
        (Some(c), _) => std::process::exit(c),
        (None, sig) => {
            // the child was killed: stack overflow / abort while running the marked case
            let mut lines = last.splitn(2, '\n');
            let stream = lines.next().unwrap_or("?").to_string();
            let case = lines.next().unwrap_or("").to_string();
            ctx.rule = "see child".into();
            let c = Case::fail(case, format!("the process was killed by signal {:?} while handling this input (stack overflow / abort); stderr: {}", sig, vcore::drive::truncate(&String::from_utf8_lossy(&out.stderr), 400)));
            ctx.check_case(&format!("{}-abort", stream), c.clone(), serde_json::json!({"signal": sig}));
            // evidence needs at least two distinct non-trivial cases to be well-formed
            ctx.check_case("abort-marker", Case::pass("child aborted; see violation").nontrivial(true), serde_json::Value::Null);
        }
    }
}
