//! C24 — multipart uploads bind files exactly as mapped and respect limits.
//!
//! Bodies follow the GraphQL multipart request specification (parts `operations`, `map`, then the files) and are
//! written by the module's own writer. The oracle is a reference binding model over the *generated* structure:
//! which variable positions each file is mapped to, which map entries have no file part, which file parts exceed
//! `max_file_size`, how many file parts there are against `max_num_files`. An accepted request is checked by
//! executing a schema with an `Upload`-typed argument on the value found at every mapped position.
use async_graphql::http::{receive_batch_body, MultipartOptions};
use async_graphql::{BatchRequest, Context, EmptySubscription, Name, Object, Request, Schema, SimpleObject, Upload, Value as GValue, Variables};
use futures_util::io::AsyncRead;
use indexmap::IndexMap;
use serde_json::{Map, Value};
use std::io::{Read, Seek, SeekFrom};
use std::pin::Pin;
use std::task::{Context as TaskCx, Poll};
use vcore::det::block_on;
use vcore::gens::*;
use vcore::src::fnv1a;
use vcore::{Case, Ctx, Src};

// ---------------------------------------------------------------------------------------------------------
// probe schema: reads the upload bound to an `Upload`-typed argument

#[derive(SimpleObject)]
struct Info {
    filename: String,
    content_type: Option<String>,
    hex: String,
}
struct NoQuery;
#[Object]
impl NoQuery {
    async fn ok(&self) -> bool {
        true
    }
}
/// uploads are only allowed on mutations
struct UpMutation;
#[Object]
impl UpMutation {
    async fn up(&self, ctx: &Context<'_>, f: Option<Upload>) -> async_graphql::Result<Option<Info>> {
        let f = match f {
            None => return Ok(None),
            Some(f) => f,
        };
        let mut v = f.value(ctx)?;
        let mut data = vec![];
        // the whole file, whatever the handle's current position is
        v.content.seek(SeekFrom::Start(0))?;
        v.content.read_to_end(&mut data)?;
        Ok(Some(Info { filename: v.filename, content_type: v.content_type, hex: hex(&data) }))
    }
}
type UpSchema = Schema<NoQuery, UpMutation, EmptySubscription>;

fn hex(b: &[u8]) -> String {
    let mut s = String::with_capacity(b.len() * 2);
    for x in b {
        s.push_str(&format!("{:02x}", x));
    }
    s
}

// ---------------------------------------------------------------------------------------------------------
// own JSON and multipart/form-data writers

#[derive(Clone, Copy)]
struct JStyle {
    ws: bool,
    esc_non_ascii: bool,
    esc_slash: bool,
}
fn json_str(x: &str, st: JStyle, out: &mut String) {
    out.push('"');
    for c in x.chars() {
        match c {
            '"' => out.push_str("\\\""),
            '\\' => out.push_str("\\\\"),
            '\n' => out.push_str("\\n"),
            '\r' => out.push_str("\\r"),
            '\t' => out.push_str("\\t"),
            '/' if st.esc_slash => out.push_str("\\/"),
            c if (c as u32) < 0x20 => out.push_str(&format!("\\u{:04x}", c as u32)),
            c if (c as u32) >= 0x7f && st.esc_non_ascii => {
                let mut b = [0u16; 2];
                for u in c.encode_utf16(&mut b) {
                    out.push_str(&format!("\\u{:04X}", u));
                }
            }
            c => out.push(c),
        }
    }
    out.push('"');
}

fn json_text(v: &Value, st: JStyle, out: &mut String) {
    let sp = if st.ws { " " } else { "" };
    match v {
        Value::Null => out.push_str("null"),
        Value::Bool(b) => out.push_str(if *b { "true" } else { "false" }),
        Value::Number(n) => out.push_str(&n.to_string()),
        Value::String(x) => json_str(x, st, out),
        Value::Array(a) => {
            out.push('[');
            for (i, x) in a.iter().enumerate() {
                if i > 0 {
                    out.push(',');
                    out.push_str(sp);
                }
                json_text(x, st, out);
            }
            out.push(']');
        }
        Value::Object(m) => {
            out.push('{');
            out.push_str(sp);
            for (i, (k, x)) in m.iter().enumerate() {
                if i > 0 {
                    out.push(',');
                    out.push_str(if st.ws { "\n  " } else { "" });
                }
                json_str(k, st, out);
                out.push(':');
                out.push_str(sp);
                json_text(x, st, out);
            }
            out.push_str(sp);
            out.push('}');
        }
    }
}

struct Part {
    name: String,
    filename: Option<String>,
    content_type: Option<String>,
    data: Vec<u8>,
}

#[derive(Clone, Copy)]
struct MpStyle {
    preamble: bool,
    trailing_crlf: bool,
}

/// own multipart/form-data writer (RFC 7578 / RFC 2046)
fn write_multipart(boundary: &str, parts: &[Part], st: MpStyle) -> Vec<u8> {
    let mut out = vec![];
    if st.preamble {
        out.extend_from_slice(b"preamble text\r\n");
    }
    for p in parts {
        out.extend_from_slice(format!("--{}\r\n", boundary).as_bytes());
        out.extend_from_slice(format!("Content-Disposition: form-data; name=\"{}\"", p.name).as_bytes());
        if let Some(f) = &p.filename {
            out.extend_from_slice(format!("; filename=\"{}\"", f).as_bytes());
        }
        out.extend_from_slice(b"\r\n");
        if let Some(ct) = &p.content_type {
            out.extend_from_slice(format!("Content-Type: {}\r\n", ct).as_bytes());
        }
        out.extend_from_slice(b"\r\n");
        out.extend_from_slice(&p.data);
        out.extend_from_slice(b"\r\n");
    }
    out.extend_from_slice(format!("--{}--", boundary).as_bytes());
    if st.trailing_crlf {
        out.extend_from_slice(b"\r\n");
    }
    out
}

// ---------------------------------------------------------------------------------------------------------
// the generated structure

#[derive(Clone, Debug, PartialEq)]
enum Seg {
    Key(String),
    Idx(usize),
}
#[derive(Clone, Debug)]
struct Slot {
    req: usize,
    path: Vec<Seg>,
}
impl Slot {
    /// the path as the specification writes it (`variables.a.0.b`, batch: `<i>.variables.a.0.b`)
    fn spelled(&self, batch: bool) -> String {
        let mut p = if batch { format!("{}.variables", self.req) } else { "variables".to_string() };
        for s in &self.path {
            match s {
                Seg::Key(k) => p.push_str(&format!(".{}", k)),
                Seg::Idx(i) => p.push_str(&format!(".{}", i)),
            }
        }
        p
    }
}

struct FileSpec {
    field: String,
    filename: String,
    ctype: Option<String>,
    data: Vec<u8>,
    /// positions this file is mapped to (all exist in `variables` and hold null)
    slots: Vec<Slot>,
    /// additional mapped paths that resolve to nothing (don't-care)
    unresolvable: Vec<String>,
    /// listed in `map`
    in_map: bool,
    /// a file part is sent
    sent: bool,
}

#[derive(Clone, Copy, Debug)]
struct ReaderMode {
    /// bytes handed out per read (0 = everything)
    chunk: usize,
    /// return Pending (self-waking) between reads
    pending: bool,
}

struct Spec {
    batch: bool,
    vars: Vec<Map<String, Value>>,
    files: Vec<FileSpec>,
    /// order in which the sent file parts follow `operations` and `map`
    order: Vec<usize>,
    boundary: String,
    ops_ct: bool,
    style: MpStyle,
    js: JStyle,
    mfs: Option<usize>,
    mnf: Option<usize>,
    reader: ReaderMode,
}

// includes object keys that look like list indexes (a path segment is an index only when the current value is a list)
const KEYS: [&str; 11] = ["file", "files", "0", "input", "a", "2024", "doc", "list", "meta", "x1", "7"];

fn gen_vars_value(s: &mut dyn Src, depth: usize, req: usize, path: &mut Vec<Seg>, slots: &mut Vec<Slot>) -> Value {
    let k = if depth == 0 { s.weighted(&[5, 1]) } else { s.weighted(&[6, 1, 2, 2]) };
    match k {
        0 => {
            slots.push(Slot { req, path: path.clone() });
            Value::Null
        }
        1 => match s.choose(3) {
            0 => Value::String(gen_string(s, 4)),
            1 => Value::from(s.range(-5, 5)),
            _ => Value::Bool(s.bool()),
        },
        2 => {
            let n = 1 + s.choose(3);
            let mut l = vec![];
            for i in 0..n {
                path.push(Seg::Idx(i));
                l.push(gen_vars_value(s, depth - 1, req, path, slots));
                path.pop();
            }
            Value::Array(l)
        }
        _ => Value::Object(gen_vars_obj(s, depth - 1, req, path, slots, 2)),
    }
}

fn gen_vars_obj(s: &mut dyn Src, depth: usize, req: usize, path: &mut Vec<Seg>, slots: &mut Vec<Slot>, max: usize) -> Map<String, Value> {
    let n = 1 + s.choose(max);
    let mut m = Map::new();
    let start = s.choose(KEYS.len());
    for i in 0..n {
        let key = if s.chance(1, 6) { format!("{}{}", gen_name(s, 4), i) } else { KEYS[(start + i) % KEYS.len()].to_string() };
        if m.contains_key(&key) {
            continue; // keys stay distinct
        }
        path.push(Seg::Key(key.clone()));
        let v = gen_vars_value(s, depth, req, path, slots);
        path.pop();
        m.insert(key, v);
    }
    m
}

fn gen_filename(s: &mut dyn Src) -> String {
    let n = 1 + s.choose(10);
    (0..n)
        .map(|_| match s.weighted(&[8, 3, 2, 2]) {
            0 => (b'a' + s.choose(26) as u8) as char,
            1 => *pick(s, &['.', '-', '_', ' ', '(', ')', '+', ',']),
            2 => (b'0' + s.choose(10) as u8) as char,
            _ => *pick(s, &['é', '日', 'ж', 'ß', '😀']),
        })
        .collect()
}

/// File content of exactly `len` bytes built from a bounded number of draws: a drawn pattern (text, CR / LF / dash
/// runs, header look-alikes, near-misses of the delimiter) cycled to length, or pseudo-random bytes expanded from one
/// drawn seed.
fn gen_data(s: &mut dyn Src, len: usize, boundary: &str) -> Vec<u8> {
    let mut d: Vec<u8> = Vec::with_capacity(len);
    match s.choose(4) {
        0 => d.extend((0..len).map(|i| b'a' + (i % 26) as u8)),
        1 => {
            let mut x = s.u64() | 1;
            for _ in 0..len {
                x = x.wrapping_mul(6364136223846793005).wrapping_add(1442695040888963407);
                d.push((x >> 56) as u8);
            }
        }
        _ => {
            let mut pat: Vec<u8> = vec![];
            for _ in 0..1 + s.choose(12) {
                match s.choose(12) {
                    0 => pat.extend_from_slice(b"\r\n"),
                    1 => pat.extend_from_slice(b"--"),
                    2 => pat.extend_from_slice(b"\r\n--"),
                    3 => pat.push(b'\r'),
                    4 => pat.push(b'\n'),
                    5 => pat.push(b'-'),
                    6 => pat.extend_from_slice(b"\0\xff\xfe"),
                    7 => pat.extend_from_slice(b"Content-Disposition: form-data; name=\"map\"\r\n\r\n{}"),
                    8 => {
                        // near-miss of the delimiter: CRLF "--" and all but the last character of the boundary
                        pat.extend_from_slice(b"\r\n--");
                        pat.extend_from_slice(&boundary.as_bytes()[..boundary.len() - 1]);
                        pat.push(b'!');
                    }
                    9 => pat.extend_from_slice(gen_string(s, 6).as_bytes()),
                    _ => pat.push(s.raw() as u8),
                }
            }
            d.extend(pat.iter().cycle().take(len));
        }
    }
    if boundary.len() <= d.len() && d.windows(boundary.len()).any(|w| w == boundary.as_bytes()) {
        // the boundary must not occur in a part: fall back to a filler of the same length
        d = vec![b'x'; len];
    }
    d
}

fn operations_json(sp: &Spec) -> String {
    let one = |v: &Map<String, Value>| {
        let mut t = String::from("{\"query\":");
        json_str("mutation($f: Upload) { up(f: $f) }", sp.js, &mut t);
        t.push_str(",\"variables\":");
        json_text(&Value::Object(v.clone()), sp.js, &mut t);
        t.push('}');
        t
    };
    if sp.batch {
        format!("[{}]", sp.vars.iter().map(one).collect::<Vec<_>>().join(","))
    } else {
        one(&sp.vars[0])
    }
}

fn map_json(sp: &Spec) -> String {
    let mut m = Map::new();
    for f in sp.files.iter().filter(|f| f.in_map) {
        let mut paths: Vec<Value> = f.slots.iter().map(|p| Value::String(p.spelled(sp.batch))).collect();
        paths.extend(f.unresolvable.iter().map(|p| Value::String(p.clone())));
        m.insert(f.field.clone(), Value::Array(paths));
    }
    let mut t = String::new();
    json_text(&Value::Object(m), sp.js, &mut t);
    t
}

fn body(sp: &Spec) -> Vec<u8> {
    let mut parts = vec![
        Part { name: "operations".into(), filename: None, content_type: if sp.ops_ct { Some("application/json".into()) } else { None }, data: operations_json(sp).into_bytes() },
        Part { name: "map".into(), filename: None, content_type: None, data: map_json(sp).into_bytes() },
    ];
    for i in &sp.order {
        let f = &sp.files[*i];
        parts.push(Part { name: f.field.clone(), filename: Some(f.filename.clone()), content_type: f.ctype.clone(), data: f.data.clone() });
    }
    write_multipart(&sp.boundary, &parts, sp.style)
}

/// `exclude_f1`: the constructs of C24-F1 (more file parts than max_num_files; both limits set with a body longer
/// than their product) are excluded by construction.
fn gen_spec(s: &mut dyn Src, exclude_f1: bool) -> Spec {
    // shape decisions first, so that short choice vectors still vary them
    let batch = s.choose(3) != 0;
    let nreq = if batch { 1 + s.choose(3) } else { 1 };
    let nfiles = s.weighted(&[1, 3, 4, 4, 3, 2]);
    let numeric_fields = s.choose(3) != 0;
    let reader = match s.choose(4) {
        0 | 1 => ReaderMode { chunk: 0, pending: false },
        2 => ReaderMode { chunk: *pick(s, &[2048usize, 1, 7, 64, 1000, 3000]), pending: false },
        _ => ReaderMode { chunk: *pick(s, &[2048usize, 5, 64, 1000]), pending: true },
    };
    let mfs_delta = match s.choose(3) {
        0 => None,
        _ => Some(*pick(s, &[0usize, 1, 17, 100, 1900, 2048, 4500])),
    };
    let (mnf_kind, mnf_extra) = (s.choose(6), s.choose(40));
    let js = JStyle { ws: s.chance(1, 3), esc_non_ascii: s.chance(1, 3), esc_slash: false };
    // with a reader that pends, the bytes after the close delimiter may never be requested: none are sent
    let style = MpStyle { preamble: s.chance(1, 5), trailing_crlf: s.bool() && !reader.pending };
    let ops_ct = s.bool();
    let size_draws: Vec<(usize, usize)> = (0..nfiles).map(|_| (s.weighted(&[2, 6, 3, 3, 2, 1]), s.choose(3000))).collect();
    let order_draws: Vec<u32> = (0..nfiles).map(|_| s.raw()).collect();
    // variables with their upload positions
    let mut slots = vec![];
    let mut vars = vec![];
    for r in 0..nreq {
        let mut path = vec![];
        vars.push(gen_vars_obj(s, 3, r, &mut path, &mut slots, 3));
    }
    // files and the assignment of positions to files (a position belongs to at most one file)
    let mut files: Vec<FileSpec> = (0..nfiles)
        .map(|i| FileSpec {
            field: if numeric_fields { format!("{}", i) } else { format!("{}{}", *pick(s, &["file", "f.", "upload-", "Ж", "blob_"]), i) },
            filename: gen_filename(s),
            ctype: match s.choose(5) {
                0 => None,
                1 => Some("text/plain".into()),
                2 => Some("application/octet-stream".into()),
                3 => Some("image/png".into()),
                _ => Some("text/plain; charset=utf-8".into()),
            },
            data: vec![],
            slots: vec![],
            unresolvable: vec![],
            in_map: false,
            sent: true,
        })
        .collect();
    if nfiles > 0 {
        // each position goes to one of the files (weight 3 each) or stays unmapped (weight 1, last alternative)
        let mut w = vec![3u32; nfiles];
        w.push(1);
        for sl in &slots {
            let t = s.weighted(&w);
            if t < nfiles {
                files[t].slots.push(sl.clone());
            }
        }
    }
    for f in files.iter_mut() {
        f.in_map = !f.slots.is_empty();
        if !f.in_map {
            // a file nothing is mapped to: mostly dropped, sometimes sent as a file part outside the map
            f.sent = s.chance(1, 4);
            continue;
        }
        if s.chance(1, 10) {
            // mapped paths that resolve to nothing (don't-care)
            let p = match s.choose(6) {
                0 => "variables.nosuch".to_string(),
                1 => "variables".to_string(),
                2 => "nosuch.path".to_string(),
                3 => format!("{}.99", f.slots[0].spelled(batch)),
                4 => (if batch { "variables.file" } else { "0.variables.file" }).to_string(),
                _ => format!("{}.variables.file", nreq + s.choose(3)),
            };
            f.unresolvable.push(p);
        }
        if s.chance(1, 12) {
            f.sent = false; // map entry without a file part
        }
    }
    let boundary: String = {
        let n = 6 + s.choose(30);
        (0..n)
            .map(|_| match s.choose(4) {
                0 => (b'a' + s.choose(26) as u8) as char,
                1 => (b'A' + s.choose(26) as u8) as char,
                2 => (b'0' + s.choose(10) as u8) as char,
                _ => *pick(s, &['-', '_']),
            })
            .collect()
    };
    let mut sp = Spec { batch, vars, files, order: vec![], boundary, ops_ct, style, js, mfs: None, mnf: None, reader };
    // order of the file parts
    let mut sent: Vec<usize> = (0..sp.files.len()).filter(|i| sp.files[*i].sent).collect();
    let mut k = 0;
    while !sent.is_empty() {
        let pos = ((order_draws[k] as u64 * sent.len() as u64) >> 32) as usize;
        sp.order.push(sent.remove(pos));
        k += 1;
    }
    // max_file_size: never below the non-file parts (see assumptions); file sizes around it
    let base = operations_json(&sp).len().max(map_json(&sp).len());
    sp.mfs = mfs_delta.map(|d| base + d);
    let boundary = sp.boundary.clone();
    for (i, f) in sp.files.iter_mut().enumerate() {
        if !f.sent {
            continue;
        }
        let (class, extra) = size_draws[i];
        let len = match sp.mfs {
            None => match class {
                0 => 0,
                1 | 2 => 1 + extra % 64,
                3 | 4 => 2046 + extra % 5,
                _ => 3000 + extra,
            },
            Some(l) => match class {
                0 => 0,
                1 => 1 + extra % l.min(80),
                2 => l,
                3 => l - 1,
                4 => l + 1,
                _ => l + 2 + extra,
            },
        };
        f.data = gen_data(s, len, &boundary);
    }
    let nparts = sp.order.len();
    sp.mnf = if exclude_f1 {
        let need = match sp.mfs {
            Some(l) => (body(&sp).len() + l - 1) / l,
            None => 0,
        };
        match mnf_kind {
            0 | 1 => None,
            k => Some(nparts.max(need) + k % 2),
        }
    } else {
        match mnf_kind {
            0 => None,
            1 => Some(nparts),
            2 => Some(nparts + 1),
            3 => Some(nparts.saturating_sub(1)),
            4 => Some(mnf_extra % 3),
            _ => Some(nparts + 2 + mnf_extra),
        }
    };
    sp
}

// ---------------------------------------------------------------------------------------------------------
// execution and oracle

struct ChunkReader<'a> {
    data: &'a [u8],
    pos: usize,
    mode: ReaderMode,
    ready: bool,
}
impl<'a> AsyncRead for ChunkReader<'a> {
    fn poll_read(mut self: Pin<&mut Self>, cx: &mut TaskCx<'_>, buf: &mut [u8]) -> Poll<std::io::Result<usize>> {
        if self.mode.pending && !self.ready {
            self.ready = true;
            cx.waker().wake_by_ref();
            return Poll::Pending;
        }
        self.ready = false;
        let left = self.data.len() - self.pos;
        let want = if self.mode.chunk == 0 { left } else { left.min(self.mode.chunk) };
        let n = want.min(buf.len());
        let p = self.pos;
        buf[..n].copy_from_slice(&self.data[p..p + n]);
        self.pos += n;
        Poll::Ready(Ok(n))
    }
}

fn render(sp: &Spec, body_len: usize) -> String {
    let files: Vec<String> = sp
        .files
        .iter()
        .map(|f| {
            format!(
                "{{field={:?} filename={:?} type={:?} len={} fnv={:016x} head={:?} in_map={} sent={}}}",
                f.field,
                f.filename,
                f.ctype,
                f.data.len(),
                fnv1a(&f.data),
                String::from_utf8_lossy(&f.data[..f.data.len().min(16)]),
                f.in_map,
                f.sent
            )
        })
        .collect();
    format!(
        "operations={} map={} files=[{}] part order={:?} boundary={:?} max_file_size={:?} max_num_files={:?} reader={:?} preamble={} trailing_crlf={} body_len={}",
        operations_json(sp),
        map_json(sp),
        files.join(", "),
        sp.order,
        sp.boundary,
        sp.mfs,
        sp.mnf,
        sp.reader,
        sp.style.preamble,
        sp.style.trailing_crlf,
        body_len
    )
}

fn walk<'a>(vars: &'a Variables, path: &[Seg]) -> Option<&'a GValue> {
    let mut cur = match &path[0] {
        Seg::Key(k) => vars.get(&Name::new(k))?,
        Seg::Idx(_) => return None,
    };
    for s in &path[1..] {
        cur = match (cur, s) {
            (GValue::Object(o), Seg::Key(k)) => o.get(&Name::new(k))?,
            (GValue::List(l), Seg::Idx(i)) => l.get(*i)?,
            _ => return None,
        };
    }
    Some(cur)
}

fn set_null(v: &mut Map<String, Value>, path: &[Seg]) {
    let mut cur = match &path[0] {
        Seg::Key(k) => match v.get_mut(k) {
            Some(x) => x,
            None => return,
        },
        Seg::Idx(_) => return,
    };
    for s in &path[1..] {
        let next = match (cur, s) {
            (Value::Object(o), Seg::Key(k)) => o.get_mut(k),
            (Value::Array(l), Seg::Idx(i)) => l.get_mut(*i),
            _ => None,
        };
        cur = match next {
            Some(x) => x,
            None => return,
        };
    }
    *cur = Value::Null;
}

/// Check an accepted request against the binding model; Err(reason) on the first deviation.
fn check_bindings(sp: &Spec, schema: &UpSchema, decoded: BatchRequest) -> Result<(), String> {
    let mut reqs: Vec<Request> = match decoded {
        BatchRequest::Single(r) => {
            if sp.batch {
                return Err("a batch was decoded as a single request".into());
            }
            vec![r]
        }
        BatchRequest::Batch(v) => {
            if !sp.batch {
                return Err("a single request was decoded as a batch".into());
            }
            v
        }
    };
    if reqs.len() != sp.vars.len() {
        return Err(format!("{} requests sent, {} decoded", sp.vars.len(), reqs.len()));
    }
    let any_unresolvable = sp.files.iter().any(|f| !f.unresolvable.is_empty());
    for (ri, req) in reqs.iter_mut().enumerate() {
        // (file index, slot) bound in this request
        let bound: Vec<(usize, &Slot)> = sp.files.iter().enumerate().filter(|(_, f)| f.in_map && f.sent).flat_map(|(i, f)| f.slots.iter().filter(|s| s.req == ri).map(move |s| (i, s))).collect();
        // nothing but the mapped positions changed (skipped when the map also lists unresolvable paths: don't-care)
        if !any_unresolvable {
            let mut w = match serde_json::to_value(&req.variables) {
                Ok(Value::Object(m)) => m,
                other => return Err(format!("request {}: variables serialise as {:?}", ri, other)),
            };
            for (_, sl) in &bound {
                set_null(&mut w, &sl.path);
            }
            if w != sp.vars[ri] {
                return Err(format!("request {}: variables outside the mapped positions changed: {}", ri, Value::Object(w)));
            }
        }
        if bound.is_empty() {
            continue;
        }
        // read every mapped position through an Upload-typed argument
        let mut pv = IndexMap::new();
        let mut q = String::from("mutation(");
        let mut sel = String::new();
        for (k, (_, sl)) in bound.iter().enumerate() {
            let v = match walk(&req.variables, &sl.path) {
                Some(v) => v.clone(),
                None => return Err(format!("request {}: position {} vanished", ri, sl.spelled(sp.batch))),
            };
            pv.insert(Name::new(format!("p{}", k)), v);
            q.push_str(&format!("$p{}: Upload ", k));
            sel.push_str(&format!(" p{}: up(f: $p{}) {{ filename contentType hex }}", k, k));
        }
        q.push_str(&format!(") {{{} }}", sel));
        let mut probe = Request::new(q).variables(Variables::from_value(GValue::Object(pv)));
        probe.uploads = std::mem::take(&mut req.uploads);
        let resp = block_on(schema.execute(probe));
        if !resp.errors.is_empty() {
            return Err(format!("request {}: reading the bound uploads failed: {:?}", ri, resp.errors));
        }
        let data = serde_json::to_value(&resp.data).map_err(|e| e.to_string())?;
        for (k, (fi, sl)) in bound.iter().enumerate() {
            let f = &sp.files[*fi];
            let want = serde_json::json!({ "filename": f.filename, "contentType": f.ctype, "hex": hex(&f.data) });
            let got = &data[format!("p{}", k)];
            if *got != want {
                let short = |v: &Value| vcore::drive::truncate(&v.to_string(), 300);
                return Err(format!("request {}: position {} should hold file {:?} ({}), holds {}", ri, sl.spelled(sp.batch), f.field, short(&want), short(got)));
            }
        }
    }
    Ok(())
}

fn evaluate(sp: &Spec, schema: &UpSchema, f1_open: bool) -> Case {
    let bytes = body(sp);
    let text = render(sp, bytes.len());
    let mut opts = MultipartOptions::default();
    if let Some(l) = sp.mfs {
        opts = opts.max_file_size(l);
    }
    if let Some(k) = sp.mnf {
        opts = opts.max_num_files(k);
    }
    let ct = format!("multipart/form-data; boundary={}", sp.boundary);
    let reader = ChunkReader { data: &bytes, pos: 0, mode: sp.reader, ready: false };
    let actual = block_on(receive_batch_body(Some(ct.as_str()), reader, opts));

    // reference model
    let nparts = sp.order.len();
    let missing = sp.files.iter().any(|f| f.in_map && !f.sent);
    let over_size = sp.mfs.map(|l| sp.order.iter().any(|i| sp.files[*i].data.len() > l)).unwrap_or(false);
    let at_size = sp.mfs.map(|l| sp.order.iter().any(|i| sp.files[*i].data.len() == l)).unwrap_or(false);
    let over_count = sp.mnf.map(|k| nparts > k).unwrap_or(false);
    let spec_reject = missing || over_size || over_count;
    // quirk C24-F1: max_num_files is not counted; when both limits are set the whole body must fit their product
    let quirk_reject = missing || over_size || matches!((sp.mfs, sp.mnf), (Some(l), Some(k)) if bytes.len() > l * k);
    let unresolvable = sp.files.iter().any(|f| f.in_map && !f.unresolvable.is_empty());
    let multi_path = sp.files.iter().any(|f| f.in_map && f.sent && f.slots.len() > 1);
    let bound_files = sp.files.iter().filter(|f| f.in_map && f.sent).count();
    let batch_indexed = sp.batch && sp.files.iter().any(|f| f.in_map && f.slots.iter().any(|s| s.req > 0));
    let extra = sp.files.iter().any(|f| f.sent && !f.in_map);
    let permuted = sp.order.windows(2).any(|w| w[0] > w[1]);

    let describe = |e: &async_graphql::ParseRequestError| e.to_string();
    let c = match actual {
        Err(e) => {
            if spec_reject {
                Case::pass(text)
            } else if f1_open && quirk_reject {
                Case::known(text, vec!["C24-F1".into()]).class("F1:within-limits-rejected")
            } else if unresolvable {
                Case::pass(text).class("dont-care:unresolvable-path-rejected")
            } else {
                Case::fail(text, format!("a request within all limits with every mapped file present was rejected: {}", describe(&e)))
            }
        }
        Ok(decoded) => {
            let why = if missing {
                Some("a map entry without a file part was accepted")
            } else if over_size {
                Some("a file larger than max_file_size was accepted")
            } else if over_count {
                Some("more file parts than max_num_files were accepted")
            } else {
                None
            };
            match (why, check_bindings(sp, schema, decoded)) {
                (None, Ok(())) => Case::pass(text),
                (_, Err(b)) => Case::fail(text, b),
                (Some(w), Ok(())) => {
                    if f1_open && !quirk_reject {
                        Case::known(text, vec!["C24-F1".into()]).class("F1:over-count-accepted")
                    } else {
                        Case::fail(text, w)
                    }
                }
            }
        }
    };
    c.nontrivial(spec_reject || (bound_files >= 1 && (bound_files >= 2 || multi_path || sp.batch)))
        .class(if sp.batch { "batch" } else { "single" })
        .class_if(multi_path, "file-with-several-paths")
        .class_if(batch_indexed, "batch-index>0")
        .class_if(missing, "map-entry-without-file")
        .class_if(extra, "extra-file-part")
        .class_if(over_size, "file-over-max-size")
        .class_if(at_size && !over_size, "file-at-max-size")
        .class_if(over_count, "over-max-num-files")
        .class_if(sp.mnf == Some(nparts) && nparts > 0, "at-max-num-files")
        .class_if(permuted, "file-parts-permuted")
        .class_if(unresolvable, "unresolvable-path")
        .class_if(sp.reader.pending, "pending-reader")
        .class_if(!spec_reject && bound_files >= 1, "accepted-with-bindings")
        .class_if(bound_files == 0, "no-file-bound")
}

/// hand-written request: `nfiles` files of `len` bytes mapped to variables.f0, variables.f1, …
fn witness(nfiles: usize, len: usize, mfs: Option<usize>, mnf: Option<usize>) -> Spec {
    let mut vars = Map::new();
    let files = (0..nfiles)
        .map(|i| {
            vars.insert(format!("f{}", i), Value::Null);
            FileSpec {
                field: format!("{}", i),
                filename: format!("{}.txt", i),
                ctype: Some("text/plain".into()),
                data: vec![b'a' + i as u8; len],
                slots: vec![Slot { req: 0, path: vec![Seg::Key(format!("f{}", i))] }],
                unresolvable: vec![],
                in_map: true,
                sent: true,
            }
        })
        .collect();
    Spec {
        batch: false,
        vars: vec![vars],
        files,
        order: (0..nfiles).collect(),
        boundary: "----verifBoundary".into(),
        ops_ct: false,
        style: MpStyle { preamble: false, trailing_crlf: true },
        js: JStyle { ws: false, esc_non_ascii: false, esc_slash: false },
        mfs,
        mnf,
        reader: ReaderMode { chunk: 0, pending: false },
    }
}

pub fn run(ctx: &mut Ctx) {
    ctx.rule = "generated multipart/form-data bodies per the GraphQL multipart request spec: single or batch (1..3) operations whose variables hold null at upload \
                positions nested in objects / lists to depth 3; 0..4 files each mapped to any number of distinct positions (batch-indexed paths in batches), map \
                entries without file part, file parts outside the map, file parts in any order after operations and map, file sizes 0 / small / limit-1 / limit / \
                limit+1 / larger, max_file_size and max_num_files absent or around the sizes and the number of file parts, body delivered whole / in chunks / with \
                pending reads. non-trivial = the model rejects the request, or >=1 file is bound and (>=2 files bound, or a file has several paths, or it is a batch)"
        .into();
    ctx.assume("part order: operations, map, then the file parts (any order among themselves), as the multipart request spec prescribes");
    ctx.assume("every file part has a distinct field name and a filename; every mapped position is a null leaf of `variables` and belongs to at most one file (prefix-free)");
    ctx.assume("file names use letters, digits, . - _ space ( ) + , and a few non-ASCII letters (no quote, backslash, semicolon, =); field names are [A-Za-z0-9._-] plus one Cyrillic letter");
    ctx.assume("max_file_size is never smaller than the operations and map parts (whether the file size limit may apply to non-file parts is unspecified; it does here)");
    ctx.assume("a file part counts towards max_num_files whether or not the map lists it; its size is checked against max_file_size likewise");
    ctx.assume("don't-care: map paths that resolve to nothing in `variables` (unknown key, index past the end, missing `variables.` prefix, batch index out of range or missing) — \
                the request may be rejected, or accepted with all other bindings as mapped");
    ctx.assume("only rejection (Err) is required for violations of limits / missing files, not a particular error variant");
    ctx.assume("the bytes of a bound upload are the content of UploadValue.content read from offset 0 (handles obtained from one upload share a file position)");

    let f1_open = ctx.open("C24-F1");
    if f1_open {
        // generator switch: the main stream never exceeds max_num_files and, with both limits set, chooses
        // max_num_files so that the body fits max_file_size * max_num_files
        ctx.excluded("C24-F1");
    }
    let schema: UpSchema = Schema::build(NoQuery, UpMutation, EmptySubscription).finish();

    // regression witnesses of C24-F1
    let ws = [
        ("max_num_files=1 alone, 2 files", witness(2, 10, None, Some(1))),
        ("max_num_files=1, max_file_size=1000, 2 files of 10 bytes", witness(2, 10, Some(1000), Some(1))),
        ("max_num_files=1, max_file_size=300, 1 file of 300 bytes", witness(1, 300, Some(300), Some(1))),
        ("max_num_files=2, max_file_size=300, 2 files of 300 bytes", witness(2, 300, Some(300), Some(2))),
        ("max_num_files=0, max_file_size=300, no file", witness(0, 0, Some(300), Some(0))),
        ("no limits, 3 files", witness(3, 10, None, None)),
        ("max_num_files=3, 3 files", witness(3, 10, None, Some(3))),
        ("max_file_size=300, file of 301 bytes", witness(1, 301, Some(300), None)),
    ];
    for (name, sp) in ws.iter() {
        let c = evaluate(sp, &schema, f1_open);
        if ctx.check_case("witness", c, serde_json::json!({ "witness": name })) {
            return;
        }
    }

    let n = ctx.tier.pick(6_000u32, 250_000);
    let sc = schema.clone();
    ctx.stream("bind", n, 1024, move |s| {
        let sp = gen_spec(s, f1_open);
        evaluate(&sp, &sc, f1_open)
    });
    // the whole domain including the constructs of C24-F1 (identical to `bind` once the finding is closed)
    let sc = schema.clone();
    ctx.stream("limits-probe", ctx.tier.pick(2_500, 100_000), 1024, move |s| {
        let sp = gen_spec(s, false);
        evaluate(&sp, &sc, f1_open)
    });

    ctx.floor("accepted-with-bindings", 1_000);
    ctx.floor("file-with-several-paths", 300);
    ctx.floor("batch-index>0", 300);
    ctx.floor("map-entry-without-file", 100);
    ctx.floor("extra-file-part", 100);
    ctx.floor("file-over-max-size", 150);
    ctx.floor("file-at-max-size", 150);
    ctx.floor("over-max-num-files", 100);
    ctx.floor("file-parts-permuted", 300);
}
