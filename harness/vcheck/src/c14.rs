//! C14 — reported source positions are exact 1-based line/column numbers (LF, CRLF and lone CR each end a line;
//! columns count Unicode scalar values). Oracle: the printer's own position table.
use crate::agconv;
use crate::c13::{gen_printed_exec, Excl};
use async_graphql::{EmptyMutation, EmptySubscription, Object, Schema};
use async_graphql_parser::parse_query;
use vcore::{Case, Ctx, Src};
use vgql::ast::*;
use vgql::print::{Printer, Style};

/// byte offset of a (line, col) under the specification's line-terminator rule
fn offset_of(text: &str, pos: Pos) -> Option<usize> {
    let (mut line, mut col) = (1u32, 1u32);
    let mut prev_cr = false;
    for (i, c) in text.char_indices() {
        if c == '\n' && prev_cr {
            prev_cr = false;
            continue; // second half of CRLF belongs to the terminator; no token starts here
        }
        if line == pos.line && col == pos.col {
            return Some(i);
        }
        match c {
            '\r' => {
                line += 1;
                col = 1;
                prev_cr = true;
            }
            '\n' => {
                line += 1;
                col = 1;
                prev_cr = false;
            }
            _ => {
                col += 1;
                prev_cr = false;
            }
        }
    }
    if line == pos.line && col == pos.col {
        return Some(text.len());
    }
    None
}

/// what precedes the checked position: classes for the non-triviality rule
fn context_classes(text: &str, upto: usize) -> (bool, bool, bool) {
    let pre = &text[..upto];
    let bytes = pre.as_bytes();
    let mut lone_cr = false;
    let mut crlf = false;
    for i in 0..bytes.len() {
        if bytes[i] == b'\r' {
            if i + 1 < bytes.len() && bytes[i + 1] == b'\n' {
                crlf = true;
            } else if i + 1 < text.len() && text.as_bytes()[i + 1] == b'\n' {
                crlf = true;
            } else {
                lone_cr = true;
            }
        }
    }
    (lone_cr, crlf, !pre.is_ascii())
}

struct Obj;
#[Object]
impl Obj {
    async fn ok(&self) -> i32 {
        1
    }
    // the idiom that captures the error at the (nullable) field itself
    async fn fail(&self) -> Option<async_graphql::Result<i32>> {
        Some(Err("boom".into()))
    }
    async fn obj(&self) -> Option<Obj> {
        Some(Obj)
    }
    async fn list(&self) -> Vec<Obj> {
        vec![Obj, Obj]
    }
    async fn arg(&self, x: Option<i32>) -> Option<i32> {
        x
    }
}
struct Query;
#[Object]
impl Query {
    async fn ok(&self) -> i32 {
        1
    }
    // the idiom that captures the error at the (nullable) field itself
    async fn fail(&self) -> Option<async_graphql::Result<i32>> {
        Some(Err("boom".into()))
    }
    async fn obj(&self) -> Option<Obj> {
        Some(Obj)
    }
    async fn list(&self) -> Vec<Obj> {
        vec![Obj, Obj]
    }
    async fn arg(&self, x: Option<i32>) -> Option<i32> {
        x
    }
}

/// Generate a document over the mini schema. Returns the doc plus, per planted problem, (kind, path-ish label).
/// kind: "unknown-field" (validation), "fail" (execution error at a nullable field), "bad-arg" (validation, at the
/// argument value)
fn gen_schema_doc(s: &mut dyn Src, plant_validation: bool) -> (Doc, Vec<(&'static str, Vec<String>)>) {
    // returns selection set + list of planted (kind, key path)
    fn sel(s: &mut dyn Src, depth: usize, path: &mut Vec<String>, planted: &mut Vec<(&'static str, Vec<String>)>, plant_validation: bool, used: &mut u32) -> SelSet {
        let n = 1 + s.choose(3);
        let mut items = vec![];
        for _ in 0..n {
            *used += 1;
            let key = format!("k{}", *used);
            let k = s.weighted(&[4, 3, 3, 2, 2]);
            let mut f = match k {
                0 => Field::new("ok"),
                1 => Field::new("fail"),
                2 if depth > 0 => Field::new("obj"),
                3 if depth > 0 => Field::new("list"),
                _ => Field::new("arg"),
            };
            f.alias = Some(Name::new(key.clone()));
            path.push(key);
            match f.name.s.as_str() {
                "fail" => planted.push(("fail", path.clone())),
                "obj" | "list" => {
                    // execution errors below a list are reported once per item: keep planted paths without indices
                    // and compare locations only (see check)
                    f.sel = sel(s, depth - 1, path, planted, plant_validation, used);
                }
                "arg" => {
                    if plant_validation && s.chance(1, 3) {
                        f.args.push((Name::new("x"), PVal::new(Val::Str("notint".into()))));
                        planted.push(("bad-arg", path.clone()));
                    } else if s.bool() {
                        f.args.push((Name::new("x"), PVal::new(Val::Int("7".into()))));
                    }
                }
                _ => {}
            }
            path.pop();
            items.push(Selection::Field(f));
        }
        if plant_validation && s.chance(1, 4) {
            *used += 1;
            let key = format!("k{}", *used);
            let mut f = Field::new("nope");
            f.alias = Some(Name::new(key.clone()));
            path.push(key);
            planted.push(("unknown-field", path.clone()));
            path.pop();
            items.push(Selection::Field(f));
        }
        SelSet::new(items)
    }
    let mut planted = vec![];
    let mut used = 0;
    let sel = sel(s, 3, &mut vec![], &mut planted, plant_validation, &mut used);
    let doc = Doc { defs: vec![Def::Op(OpDef { pos: Pos::default(), explicit: s.bool(), kind: OpKind::Query, name: None, vars: vec![], directives: vec![], sel })] };
    (doc, planted)
}

fn find_field<'a>(sel: &'a SelSet, path: &[String]) -> Option<&'a Field> {
    for it in &sel.items {
        if let Selection::Field(f) = it {
            if f.key() == path[0] {
                if path.len() == 1 {
                    return Some(f);
                }
                return find_field(&f.sel, &path[1..]);
            }
        }
    }
    None
}

pub fn run(ctx: &mut Ctx) {
    ctx.rule = "documents printed with random trivia (LF/CRLF/lone CR, tabs, commas, BOMs, comments, non-ASCII) before every token; every Positioned node of the \
                parsed tree, every validation/execution error location on a mini schema, and the syntax-error position of one illegal character inserted at a token \
                boundary must equal the printer's (line, column) table. Non-trivial = a lone CR, a CRLF or a non-ASCII scalar precedes a checked token; distinct by text".into();
    ctx.assume("operation and fragment NAME positions are not checked (async-graphql keeps those names as map keys without a position); nested values inside lists/objects carry no positions");
    ctx.assume("syntax-error oracle: one `?` (never legal outside strings/comments) is inserted exactly at the start of a token; the reported start must be that position");
    let ex = Excl::none();
    let f1 = ctx.open("C14-F1"); // lone CR in AST/validation/execution positions
    let f2 = ctx.open("C14-F2"); // lone CR in syntax error positions
    let n = ctx.tier.pick(20_000, 600_000);
    let schema = Schema::new(Query, EmptyMutation, EmptySubscription);

    // --- (a) tree positions
    let tree_case = |s: &mut dyn Src, lone_cr: bool| -> Case {
        let mut p = {
            let cfg = vgql::gendoc::GenCfg::default();
            let mut doc = vgql::gendoc::gen_exec_doc(s, &cfg);
            let mut st = crate::c13::style(s, ex);
            st.lone_cr = lone_cr;
            let mut pr = Printer::new(st);
            pr.doc(&mut doc);
            (pr.out.clone(), doc, pr.n_lone_cr, pr.n_crlf)
        };
        let text = std::mem::take(&mut p.0);
        let ad = match parse_query(&text) {
            Ok(d) => d,
            Err(_) => return Case::discard("does-not-parse (C13's subject)"),
        };
        let mut gen = p.1.clone();
        normalize_defs(&mut gen);
        let want = positions(&gen);
        let got = positions(&agconv::doc(&ad));
        if want.len() != got.len() {
            return Case::discard("tree-shape differs (C13's subject)");
        }
        let mut checked = 0;
        let mut nontrivial = false;
        for ((lw, pw), (lg, pg)) in want.iter().zip(got.iter()) {
            if lw != lg {
                return Case::discard("tree-shape differs (C13's subject)");
            }
            if (lw.starts_with("op<") || lw.starts_with("frag<")) && lw.ends_with(">.name") {
                continue;
            }
            checked += 1;
            if let Some(off) = offset_of(&text, *pw) {
                let (a, b, c) = context_classes(&text, off);
                nontrivial |= a || b || c;
            }
            if pw != pg {
                return Case::fail(text.clone(), format!("node {}: expected {}:{} got {}:{}", lw, pw.line, pw.col, pg.line, pg.col));
            }
        }
        Case::pass(text)
            .nontrivial(nontrivial)
            .class("tree")
            .class_if(p.2 > 0, "tree-lone-cr")
            .class_if(p.3 > 0, "tree-crlf")
            .class_if(checked > 30, "tree-30+positions")
    };
    if f1 {
        ctx.excluded("C14-F1");
    }
    ctx.stream("tree", n, 400, |s| tree_case(s, !f1));
    if f1 {
        // probe: the construct of the open finding
        ctx.stream("tree-probe-lone-cr", 300, 400, |s| {
            let c = tree_case(s, true);
            match &c.verdict {
                vcore::Verdict::Fail(_) if c.text.contains('\r') => Case::known(c.text.clone(), vec!["C14-F1".into()]),
                _ => c,
            }
        });
    }

    // --- (b) validation and execution error locations
    let exec_case = |s: &mut dyn Src, plant_validation: bool, lone_cr: bool| -> Case {
        let (mut doc, planted) = gen_schema_doc(s, plant_validation);
        let mut st = Style::fuzzy(s);
        st.lone_cr = lone_cr;
        let mut pr = Printer::new(st);
        pr.doc(&mut doc);
        let text = pr.out.clone();
        let resp = vcore::det::block_on(schema.execute(text.as_str()));
        let Def::Op(op) = &doc.defs[0] else { unreachable!() };
        let has_validation = planted.iter().any(|(k, _)| *k != "fail");
        let mut want: Vec<(u32, u32)> = vec![];
        for (kind, path) in &planted {
            let f = find_field(&op.sel, path).unwrap();
            match *kind {
                "unknown-field" => want.push((f.pos.line, f.pos.col)),
                // "the token it refers to": the argument (its name) and its value are both defensible; the value's
                // position is normalised to the name's when the implementation reports the name
                "bad-arg" => {
                    let name_pos = (f.args[0].0.pos.line, f.args[0].0.pos.col);
                    let val_pos = (f.args[0].1.pos.line, f.args[0].1.pos.col);
                    let reported_name = resp.errors.iter().any(|e| e.locations.iter().any(|l| (l.line as u32, l.column as u32) == name_pos));
                    want.push(if reported_name { name_pos } else { val_pos });
                }
                _ => {
                    if !has_validation {
                        // one error per execution of the field: under a list parent it runs once per item
                        let mult = path[..path.len() - 1]
                            .iter()
                            .enumerate()
                            .map(|(i, _)| find_field(&op.sel, &path[..=i]).map_or(1, |pf| if pf.name.s == "list" { 2 } else { 1 }))
                            .product::<usize>();
                        for _ in 0..mult {
                            want.push((f.pos.line, f.pos.col));
                        }
                    }
                }
            }
        }
        let mut got: Vec<(u32, u32)> = vec![];
        for e in &resp.errors {
            if e.locations.is_empty() {
                return Case::fail(text, format!("error without location: {}", e.message));
            }
            for l in &e.locations {
                got.push((l.line as u32, l.column as u32));
            }
        }
        want.sort();
        got.sort();
        let nontrivial = text.contains('\r') || !text.is_ascii();
        let c = if want == got {
            Case::pass(text)
        } else {
            Case::fail(text, format!("error locations: expected {:?} got {:?} (errors: {:?})", want, got, resp.errors.iter().map(|e| e.message.clone()).collect::<Vec<_>>()))
        };
        c.nontrivial(nontrivial)
            .class(if has_validation { "validation-errors" } else { "execution-errors" })
            .class_if(planted.is_empty(), "no-errors")
    };
    ctx.stream("validation-locations", n / 4, 300, |s| exec_case(s, true, !f1));
    ctx.stream("execution-locations", n / 4, 300, |s| exec_case(s, false, !f1));
    if f1 {
        ctx.stream("locations-probe-lone-cr", 200, 300, |s| {
            let pv = s.bool();
            let c = exec_case(s, pv, true);
            match &c.verdict {
                vcore::Verdict::Fail(_) if c.text.contains('\r') => Case::known(c.text.clone(), vec!["C14-F1".into()]),
                _ => c,
            }
        });
    }

    // --- (c) syntax error position
    let syntax_case = |s: &mut dyn Src, lone_cr: bool| -> Case {
        let cfg = vgql::gendoc::GenCfg::default();
        let mut doc = vgql::gendoc::gen_exec_doc(s, &cfg);
        let mut st = crate::c13::style(s, ex);
        st.lone_cr = lone_cr;
        let mut pr = Printer::new(st);
        pr.doc(&mut doc);
        let text = pr.out.clone();
        let ps = positions(&doc);
        if ps.is_empty() {
            return Case::discard("no positions");
        }
        let (label, pos) = ps[s.choose(ps.len())].clone();
        let off = match offset_of(&text, pos) {
            Some(o) => o,
            None => return Case::fail(text, format!("HARNESS: position {:?} of {} not found in text", pos, label)),
        };
        let mut bad = text.clone();
        bad.insert(off, '?');
        let (a, b, c) = context_classes(&text, off);
        match parse_query(&bad) {
            Ok(_) => Case::fail(bad, "document with an illegal character accepted".to_string()),
            Err(e) => {
                let got = e.positions().next();
                match got {
                    Some(g) if (g.line as u32, g.column as u32) == (pos.line, pos.col) => Case::pass(bad).nontrivial(a || b || c).class("syntax"),
                    Some(g) => Case::fail(bad, format!("syntax error reported at {}:{}, the illegal character is at {}:{} (before {})", g.line, g.column, pos.line, pos.col, label)),
                    None => Case::fail(bad, "syntax error without position".to_string()),
                }
            }
        }
    };
    if f2 {
        ctx.excluded("C14-F2");
    }
    ctx.stream("syntax", n / 2, 400, |s| syntax_case(s, !f2));
    if f2 {
        ctx.stream("syntax-probe-lone-cr", 300, 400, |s| {
            let c = syntax_case(s, true);
            match &c.verdict {
                vcore::Verdict::Fail(_) if c.text.contains('\r') => Case::known(c.text.clone(), vec!["C14-F2".into()]),
                _ => c,
            }
        });
    }
    let _ = gen_printed_exec;
}
