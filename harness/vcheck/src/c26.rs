//! C26 — multipart/mixed subscription bodies are well framed.
//!
//! `create_multipart_mixed_stream` is driven with a harness-controlled input stream (`vcore::det::Chan`) and a
//! manual heartbeat timer. A script is a sequence of events {response arrives, timer fires, input ends}, each
//! followed by 0, k or "until pending" polls of the body stream. The oracle is an independent RFC 2046
//! multipart reader (boundary `graphql`) plus a comparison of the parts with what the harness fed in.
use async_graphql::http::create_multipart_mixed_stream;
use async_graphql::runtime::Timer;
use async_graphql::{ErrorExtensionValues, Name, PathSegment, Pos, Response, ServerError, Value as GValue};
use bytes::Bytes;
use futures_util::future::BoxFuture;
use futures_util::stream::BoxStream;
use futures_util::task::noop_waker;
use indexmap::IndexMap;
use serde_json::Value as Json;
use std::future::Future;
use std::pin::Pin;
use std::sync::{Arc, Mutex};
use std::task::{Context, Poll};
use std::time::{Duration, Instant};
use vcore::det::Chan;
use vcore::gens::*;
use vcore::{json, Case, Ctx, Src};

// ---------------------------------------------------------------------------------------------------------
// manual timer: every `delay()` arms a new generation at once (vcore::det::Gates registers a gate only on the
// first poll, and `select!` may not poll the timer branch at all); `fire()` completes the armed generation.

#[derive(Default)]
struct TimerState {
    armed: u64,
    fired: u64,
}
#[derive(Clone, Default)]
struct ManualTimer(Arc<Mutex<TimerState>>);
struct Delay {
    timer: ManualTimer,
    generation: u64,
}
impl Timer for ManualTimer {
    fn delay(&self, _: Duration) -> BoxFuture<'static, ()> {
        let mut s = self.0.lock().unwrap();
        s.armed += 1;
        Box::pin(Delay { timer: self.clone(), generation: s.armed })
    }
}
impl Future for Delay {
    type Output = ();
    fn poll(self: Pin<&mut Self>, _: &mut Context<'_>) -> Poll<()> {
        // the harness polls explicitly after every event, so no waker is kept
        if self.timer.0.lock().unwrap().fired >= self.generation {
            Poll::Ready(())
        } else {
            Poll::Pending
        }
    }
}
impl ManualTimer {
    /// complete the armed delay; false if it has already fired and no new delay was requested since
    fn fire(&self) -> bool {
        let mut s = self.0.lock().unwrap();
        if s.fired < s.armed {
            s.fired = s.armed;
            true
        } else {
            false
        }
    }
    /// a delay has completed and the stream has not asked for the next one yet
    fn fired_unconsumed(&self) -> bool {
        let s = self.0.lock().unwrap();
        s.armed > 0 && s.fired == s.armed
    }
}

// ---------------------------------------------------------------------------------------------------------
// independent multipart/mixed reader (RFC 2046 §5.1.1, boundary "graphql")

const DASH_BOUNDARY: &[u8] = b"--graphql";
const DELIMITER: &[u8] = b"\r\n--graphql";

struct Part {
    headers: Vec<(String, String)>,
    body: Vec<u8>,
}

fn find(hay: &[u8], needle: &[u8], from: usize) -> Option<usize> {
    if hay.len() < needle.len() {
        return None;
    }
    (from..=hay.len() - needle.len()).find(|i| &hay[*i..*i + needle.len()] == needle)
}

/// multipart-body := [preamble CRLF] dash-boundary padding CRLF body-part *(delimiter padding CRLF body-part)
///                   close-delimiter padding [CRLF epilogue]
/// Accepted here: empty preamble, no epilogue (the statement wants the closing delimiter to be last).
fn read_multipart(buf: &[u8]) -> Result<Vec<Part>, String> {
    let mut pos = 0;
    if buf.starts_with(b"\r\n") {
        pos = 2;
    }
    if !buf[pos..].starts_with(DASH_BOUNDARY) {
        return Err(format!("body does not start with the dash-boundary (offset {})", pos));
    }
    let mut parts = vec![];
    loop {
        pos += DASH_BOUNDARY.len();
        if buf[pos..].starts_with(b"--") {
            pos += 2;
            while pos < buf.len() && (buf[pos] == b' ' || buf[pos] == b'\t') {
                pos += 1;
            }
            let rest = &buf[pos..];
            if rest.is_empty() || rest == b"\r\n" {
                return Ok(parts);
            }
            return Err(format!("{} bytes after the closing delimiter: {:?}", rest.len(), String::from_utf8_lossy(&rest[..rest.len().min(60)])));
        }
        while pos < buf.len() && (buf[pos] == b' ' || buf[pos] == b'\t') {
            pos += 1;
        }
        if !buf[pos..].starts_with(b"\r\n") {
            return Err(format!("boundary line at offset {} is not terminated by CRLF", pos));
        }
        pos += 2;
        let mut headers = vec![];
        loop {
            let eol = find(buf, b"\r\n", pos).ok_or_else(|| format!("unterminated header line at offset {}", pos))?;
            let line = &buf[pos..eol];
            pos = eol + 2;
            if line.is_empty() {
                break;
            }
            let line = std::str::from_utf8(line).map_err(|_| "header line is not UTF-8".to_string())?;
            let (name, value) = line.split_once(':').ok_or_else(|| format!("header line without colon: {:?}", line))?;
            if name.is_empty() || !name.bytes().all(|b| b.is_ascii_graphic()) {
                return Err(format!("bad header name {:?}", name));
            }
            headers.push((name.to_ascii_lowercase(), value.trim().to_string()));
        }
        let end = find(buf, DELIMITER, pos).ok_or_else(|| format!("part starting at offset {} is not followed by a delimiter", pos))?;
        parts.push(Part { headers, body: buf[pos..end].to_vec() });
        pos = end + 2;
    }
}

/// A body that is still open is well framed so far if appending the closing delimiter makes it a complete
/// multipart body (the CRLF that precedes a delimiter may or may not have been sent yet).
fn read_open_multipart(buf: &[u8]) -> Result<Vec<Part>, String> {
    if buf.is_empty() {
        return Ok(vec![]);
    }
    let mut a = buf.to_vec();
    a.extend_from_slice(b"--graphql--\r\n");
    match read_multipart(&a) {
        Ok(p) => Ok(p),
        Err(e1) => {
            let mut b = buf.to_vec();
            b.extend_from_slice(b"\r\n--graphql--\r\n");
            read_multipart(&b).map_err(|_| e1)
        }
    }
}

enum PartKind {
    Heartbeat,
    Payload(Json),
}

fn classify(p: &Part) -> Result<PartKind, String> {
    let ct = p.headers.iter().find(|(n, _)| n == "content-type").map(|(_, v)| v.as_str());
    match ct {
        Some(v) if v.split(';').next().unwrap_or("").trim().eq_ignore_ascii_case("application/json") => {}
        other => return Err(format!("part content-type is {:?}, not application/json", other)),
    }
    let v: Json = serde_json::from_slice(&p.body).map_err(|e| format!("part body is not JSON ({}): {:?}", e, String::from_utf8_lossy(&p.body[..p.body.len().min(120)])))?;
    if v == json!({}) {
        Ok(PartKind::Heartbeat)
    } else {
        Ok(PartKind::Payload(v))
    }
}

/// (payload parts, number of heartbeat parts)
fn split_parts(parts: &[Part]) -> Result<(Vec<Json>, usize), String> {
    let mut payloads = vec![];
    let mut hb = 0;
    for p in parts {
        match classify(p)? {
            PartKind::Heartbeat => hb += 1,
            PartKind::Payload(v) => payloads.push(v),
        }
    }
    Ok((payloads, hb))
}

// ---------------------------------------------------------------------------------------------------------
// scripts

#[derive(Clone, Copy, PartialEq, Debug)]
enum Act {
    Resp,
    Tick,
    End,
}
#[derive(Clone, Copy, PartialEq, Debug)]
enum Polls {
    N(u8),
    All,
}
#[derive(Clone, Copy, Debug)]
struct Step {
    act: Act,
    polls: Polls,
}

fn render_script(steps: &[Step]) -> String {
    let mut out = String::new();
    for (i, st) in steps.iter().enumerate() {
        if i > 0 {
            out.push(' ');
        }
        out.push(match st.act {
            Act::Resp => 'R',
            Act::Tick => 'T',
            Act::End => 'E',
        });
        match st.polls {
            Polls::N(0) => {}
            Polls::N(k) => out.push_str(&format!("+{}", k)),
            Polls::All => out.push('!'),
        }
    }
    out
}

struct Outcome {
    /// None = the property holds on this run
    failure: Option<String>,
    /// the body stream finished during the script (before the implicit tail)
    finished_by_script: bool,
    responses: usize,
    ticks: usize,
    heartbeats: usize,
    both_pending: bool,
    heartbeat_first: bool,
    response_first: bool,
    partial_polls: bool,
    body_len: usize,
}

fn json_of(r: &Response) -> Json {
    // through text, like a client would read it (floats take the same parser path as the observed parts)
    serde_json::from_slice(&serde_json::to_vec(r).expect("harness responses are serializable")).unwrap()
}

fn short(v: &Json) -> String {
    vcore::drive::truncate(&v.to_string(), 160)
}

/// one session: the stream under test, what was fed in and what came out
struct Session<'a> {
    chan: Chan<Response>,
    timer: ManualTimer,
    stream: BoxStream<'a, Bytes>,
    body: Vec<u8>,
    finished: bool,
    expected: Vec<Json>,
    ticks: usize,
    ended: bool,
    /// a completed delay that the stream had not consumed when the end of input became visible (or that
    /// completed afterwards) may be lost: `select!` is free to take the end-of-input branch first
    tick_may_be_lost: bool,
    input_since_quiet: bool,
    tick_since_quiet: bool,
    parts_at_quiet: usize,
    done: Vec<Step>,
    out: Outcome,
}

impl<'a> Session<'a> {
    fn new() -> Session<'a> {
        let chan: Chan<Response> = Chan::new();
        let timer = ManualTimer::default();
        let stream = create_multipart_mixed_stream(chan.rx(), timer.clone(), Duration::from_secs(30));
        Session {
            chan,
            timer,
            stream,
            body: vec![],
            finished: false,
            expected: vec![],
            ticks: 0,
            ended: false,
            tick_may_be_lost: false,
            input_since_quiet: false,
            tick_since_quiet: false,
            parts_at_quiet: 0,
            done: vec![],
            out: Outcome {
                failure: None,
                finished_by_script: false,
                responses: 0,
                ticks: 0,
                heartbeats: 0,
                both_pending: false,
                heartbeat_first: false,
                response_first: false,
                partial_polls: false,
                body_len: 0,
            },
        }
    }

    /// poll up to `limit` times; Ok(true) if the stream reported Pending (quiescent)
    fn poll(&mut self, limit: Option<usize>) -> Result<bool, String> {
        let w = noop_waker();
        let mut cx = Context::from_waker(&w);
        let mut n = 0usize;
        loop {
            if self.finished || limit.map_or(false, |l| n >= l) {
                return Ok(false);
            }
            match self.stream.as_mut().poll_next(&mut cx) {
                Poll::Ready(Some(b)) => self.body.extend_from_slice(&b),
                Poll::Ready(None) => self.finished = true,
                Poll::Pending => return Ok(true),
            }
            n += 1;
            if n > 100_000 {
                return Err("body stream produced more than 100000 chunks without becoming pending".into());
            }
        }
    }

    /// one event followed by its polls; Err = property violated
    fn step(&mut self, step: Step, responses: &mut dyn FnMut(usize) -> Response) -> Result<(), String> {
        self.done.push(step);
        match step.act {
            Act::Resp => {
                let r = responses(self.expected.len());
                self.expected.push(json_of(&r));
                self.chan.push(r);
                self.input_since_quiet = true;
            }
            Act::Tick => {
                if self.timer.fire() {
                    self.ticks += 1;
                    self.tick_since_quiet = true;
                    if self.ended {
                        self.tick_may_be_lost = true;
                    }
                }
            }
            Act::End => {
                self.ended = true;
                self.chan.close();
                self.input_since_quiet = true;
                if self.timer.fired_unconsumed() {
                    self.tick_may_be_lost = true;
                }
            }
        }
        let limit = match step.polls {
            Polls::N(k) => Some(k as usize),
            Polls::All => None,
        };
        if limit != Some(0) && self.input_since_quiet && self.tick_since_quiet {
            self.out.both_pending = true;
        }
        if matches!(step.polls, Polls::N(k) if k > 0) {
            self.out.partial_polls = true;
        }
        let quiet = self.poll(limit)?;
        if quiet && !self.finished {
            self.check_open()?;
        }
        Ok(())
    }

    /// safety at a quiescent point: well framed so far, nothing invented, order kept, not closed
    fn check_open(&mut self) -> Result<(), String> {
        let at = render_script(&self.done);
        let parts = read_open_multipart(&self.body).map_err(|e| format!("after [{}]: the open body is not a well-formed multipart prefix: {}; body={:?}", at, e, String::from_utf8_lossy(&self.body[..self.body.len().min(400)])))?;
        let (payloads, hb) = split_parts(&parts).map_err(|e| format!("after [{}]: {}", at, e))?;
        if payloads.len() > self.expected.len() || payloads.iter().zip(&self.expected).any(|(a, b)| a != b) {
            return Err(format!("after [{}]: payload parts {:?} are not a prefix of the responses fed in", at, payloads.iter().map(short).collect::<Vec<_>>()));
        }
        if hb > self.ticks {
            return Err(format!("after [{}]: {} heartbeat parts after only {} timer expiries", at, hb, self.ticks));
        }
        // which of a simultaneously pending response and heartbeat came first (informational)
        if self.input_since_quiet && self.tick_since_quiet && parts.len() >= self.parts_at_quiet + 2 {
            match classify(&parts[self.parts_at_quiet]) {
                Ok(PartKind::Heartbeat) => self.out.heartbeat_first = true,
                Ok(PartKind::Payload(_)) => self.out.response_first = true,
                Err(_) => {}
            }
        }
        self.parts_at_quiet = parts.len();
        self.input_since_quiet = false;
        self.tick_since_quiet = false;
        Ok(())
    }

    /// the complete body against everything that was fed in
    fn check_complete(&mut self) -> Result<(), String> {
        let parts = read_multipart(&self.body).map_err(|e| format!("the complete body is not a well-formed multipart/mixed body: {}; body={:?}", e, String::from_utf8_lossy(&self.body[..self.body.len().min(400)])))?;
        let (payloads, hb) = split_parts(&parts)?;
        self.out.heartbeats = hb;
        if payloads != self.expected {
            let first = payloads.iter().zip(&self.expected).position(|(a, b)| a != b).unwrap_or(payloads.len().min(self.expected.len()));
            return Err(format!(
                "payload parts differ from the responses fed in: {} parts for {} responses, first difference at index {}: got {} want {}",
                payloads.len(),
                self.expected.len(),
                first,
                payloads.get(first).map(short).unwrap_or_else(|| "<missing>".into()),
                self.expected.get(first).map(short).unwrap_or_else(|| "<none>".into())
            ));
        }
        if hb > self.ticks {
            return Err(format!("{} heartbeat parts for {} timer expiries", hb, self.ticks));
        }
        if hb + (self.tick_may_be_lost as usize) < self.ticks {
            return Err(format!("{} heartbeat parts for {} timer expiries ({} may be pre-empted by the end of input)", hb, self.ticks, self.tick_may_be_lost as usize));
        }
        Ok(())
    }
}

/// Runs the script (events after the body stream has finished are not executed), then ends the input if the
/// script did not, drains the stream and checks the complete body.
fn run_script(steps: &[Step], responses: &mut dyn FnMut(usize) -> Response) -> Outcome {
    let mut s = Session::new();
    let mut res = Ok(());
    for st in steps {
        if s.finished || (s.ended && st.act != Act::Tick) {
            break;
        }
        res = s.step(*st, responses);
        if res.is_err() {
            break;
        }
    }
    s.out.finished_by_script = s.finished;
    if res.is_ok() && !s.finished {
        if !s.ended {
            res = s.step(Step { act: Act::End, polls: Polls::All }, responses);
        } else {
            res = s.poll(None).map(|_| ());
        }
        if res.is_ok() && !s.finished {
            res = Err("the body stream did not finish after the input ended".into());
        }
    }
    if res.is_ok() {
        res = s.check_complete();
    }
    s.out.failure = res.err();
    s.out.responses = s.expected.len();
    s.out.ticks = s.ticks;
    s.out.body_len = s.body.len();
    s.out
}

fn to_case(text: String, o: &Outcome) -> Case {
    let c = match &o.failure {
        None => Case::pass(text),
        Some(w) => Case::fail(text, w.clone()),
    };
    c.nontrivial(o.responses >= 1 && o.ticks >= 1)
        .class_if(o.responses >= 2, "responses>=2")
        .class_if(o.ticks >= 2, "ticks>=2")
        .class_if(o.both_pending, "tick-and-input-pending-at-a-poll")
        .class_if(o.heartbeat_first, "simultaneous:heartbeat-first")
        .class_if(o.response_first, "simultaneous:response-first")
        .class_if(o.failure.is_none() && o.heartbeats < o.ticks, "tick-pre-empted-by-end")
        .class_if(o.partial_polls, "partial-polls")
        .class_if(o.finished_by_script, "finished-by-script")
        .class_if(o.responses == 0, "no-response")
}

// ---------------------------------------------------------------------------------------------------------
// response contents

const NASTY: [&str; 12] = [
    "\r\n--graphql",
    "\r\n--graphql--\r\n",
    "--graphql",
    "\r\n--graphql\r\nContent-Type: application/json\r\n\r\n{}\r\n",
    "\r\n\r\n",
    "\n--graphql--",
    "\"}\r\n--graphql--\r\n",
    "\u{2028}\u{2029}\u{85}",
    "\\r\\n--graphql",
    "é中😀\u{10ffff}",
    "\0\u{1}\u{7f}",
    "{}",
];

fn gen_text(s: &mut dyn Src) -> String {
    match s.weighted(&[4, 3, 2]) {
        0 => gen_string(s, 10),
        1 => pick(s, &NASTY).to_string(),
        _ => format!("{}{}{}", gen_string(s, 4), pick(s, &NASTY), gen_string(s, 4)),
    }
}

fn gen_gvalue(s: &mut dyn Src, depth: usize) -> GValue {
    let k = if depth == 0 { s.weighted(&[1, 2, 5, 1, 1]) } else { s.weighted(&[1, 2, 5, 1, 1, 3, 4]) };
    match k {
        0 => GValue::Null,
        1 => {
            if s.bool() {
                GValue::from(gen_i64(s))
            } else {
                GValue::from(gen_f64_finite(s))
            }
        }
        2 => GValue::String(gen_text(s)),
        3 => GValue::Boolean(s.bool()),
        4 => GValue::Enum(Name::new(gen_name(s, 5))),
        5 => {
            let n = s.choose(4);
            GValue::List((0..n).map(|_| gen_gvalue(s, depth - 1)).collect())
        }
        _ => {
            let n = s.choose(4);
            let mut m = IndexMap::new();
            for _ in 0..n {
                // response keys are aliases in practice, but nothing stops a resolver returning any JSON object
                let key = if s.chance(1, 4) { gen_text(s) } else { gen_name(s, 5) };
                m.insert(Name::new(key), gen_gvalue(s, depth - 1));
            }
            GValue::Object(m)
        }
    }
}

fn gen_response(s: &mut dyn Src) -> Response {
    let mut r = Response::new(gen_gvalue(s, 3));
    let nerr = s.weighted(&[6, 2, 1]);
    for _ in 0..nerr {
        let mut e = ServerError::new(gen_text(s), if s.bool() { Some(Pos { line: 1 + s.choose(9), column: 1 + s.choose(40) }) } else { None });
        let np = s.choose(3);
        for _ in 0..np {
            e.path.push(if s.bool() { PathSegment::Field(gen_text(s)) } else { PathSegment::Index(s.choose(5)) });
        }
        if s.chance(1, 3) {
            let mut x = ErrorExtensionValues::default();
            x.set(gen_text(s), gen_gvalue(s, 1));
            e.extensions = Some(x);
        }
        r.errors.push(e);
    }
    let next = s.weighted(&[6, 2, 1]);
    for _ in 0..next {
        r = r.extension(gen_text(s), gen_gvalue(s, 1));
    }
    r
}

/// fixed contents for the enumerated interleavings (index = position of the response in the script)
fn fixed_response(i: usize) -> Response {
    match i % 7 {
        0 => Response::new(GValue::from_json(json!({"n": 0, "s": "plain"})).unwrap()),
        1 => Response::new(GValue::from_json(json!({"s": "\r\n--graphql\r\nContent-Type: application/json\r\n\r\n{}\r\n"})).unwrap()),
        2 => Response::from_errors(vec![ServerError::new("\r\n--graphql--\r\n", Some(Pos { line: 1, column: 2 }))]),
        3 => Response::new(GValue::Null),
        4 => Response::new(GValue::from_json(json!({"é中😀": ["\u{2028}", "\n--graphql", 1.5, null, true]})).unwrap()).extension("\r\n--graphql", GValue::String("--graphql--".into())),
        5 => Response::new(GValue::from_json(json!({})).unwrap()),
        _ => Response::new(GValue::from_json(json!({"deep": {"a": [{"b": "\r"}, {"c": "\n"}], "d": "\\r\\n--graphql"}})).unwrap()),
    }
}

// ---------------------------------------------------------------------------------------------------------

fn enumerate(ctx: &mut Ctx, max_events: usize) -> bool {
    // depth-first over all event sequences; an event is (R|T|E) x (no poll | one poll | poll until pending).
    // No R and no second E after E; a prefix after which the body stream has finished is not extended (a
    // finished stream is never polled again, so every extension behaves like the prefix).
    let t0 = Instant::now();
    let polls = [Polls::N(0), Polls::N(1), Polls::All];
    let mut stack: Vec<Vec<Step>> = vec![vec![]];
    let mut n = 0u64;
    while let Some(script) = stack.pop() {
        let ended = script.iter().any(|s| s.act == Act::End);
        let o = run_script(&script, &mut |i| fixed_response(i));
        n += 1;
        let text = format!("interleaving [{}]", render_script(&script));
        let c = to_case(text, &o).class("enumerated");
        if c.is_fail() {
            // greedy one-event-removal minimisation, then report the small script
            let mut small = script.clone();
            loop {
                let cand = (0..small.len()).map(|i| {
                    let mut t = small.clone();
                    t.remove(i);
                    t
                });
                match cand.into_iter().find(|t| run_script(t, &mut |i| fixed_response(i)).failure.is_some()) {
                    Some(t) => small = t,
                    None => break,
                }
            }
            let o = run_script(&small, &mut |i| fixed_response(i));
            let c = to_case(format!("interleaving [{}]", render_script(&small)), &o).class("enumerated");
            ctx.check_case("interleavings", c, json!({"script": render_script(&small), "found_as": render_script(&script)}));
            ctx.enumerated("interleavings", n, false, t0);
            return true;
        }
        ctx.check_case("interleavings", c, Json::Null);
        if script.len() >= max_events || o.finished_by_script {
            continue;
        }
        for act in [Act::Resp, Act::Tick, Act::End] {
            if ended && act != Act::Tick {
                continue;
            }
            for p in polls {
                let mut next = script.clone();
                next.push(Step { act, polls: p });
                stack.push(next);
            }
        }
    }
    ctx.enumerated("interleavings", n, true, t0);
    false
}

pub fn run(ctx: &mut Ctx) {
    ctx.rule = "event scripts over {response arrives, heartbeat timer fires, input ends}, each event followed by 0 / k / until-pending polls of the \
                body stream (the stream is finally drained after an implicit end of input); all scripts up to the bound with fixed nasty contents, \
                random longer scripts with random contents (CR/LF, `--graphql`, part headers, unicode in values, keys, error messages, paths, extensions); \
                non-trivial = at least one response and at least one effective timer expiry; distinct by script (and contents)"
        .into();
    ctx.assume("the consumer polls the body stream explicitly (spurious polls are legal); wake-up behaviour is not part of the statement and not checked");
    ctx.assume("a timer expiry while the previous expiry has not been consumed by the stream is the same expiry (one delay future, one heartbeat)");
    ctx.assume("futures::select! picks among simultaneously ready branches at random: any order of a simultaneously pending response and heartbeat is accepted, and a heartbeat whose delay completed while the end of input was already visible may be omitted");
    ctx.assume("a part is a heartbeat iff its JSON body is the empty object; a serialized Response always has a `data` member, so no response is `{}`");
    ctx.assume("payload comparison is JSON-value equality (with key order) between the part body and the response's serde_json text, both read by the same JSON parser");
    ctx.assume("multipart reader: RFC 2046 grammar with an empty preamble and no epilogue; an open body is well framed if appending the closing delimiter (with or without its leading CRLF) completes it");
    ctx.assume("responses are JSON-serializable (no Binary values); serialization failure is outside the domain");
    ctx.assume("the consumer does not drop the body stream before it finishes");

    // reader self-test: the oracle must reject what the statement forbids (guards against a vacuous reader)
    let good = b"--graphql\r\nContent-Type: application/json\r\n\r\n{\"data\":1}\r\n--graphql\r\ncontent-type: application/json; charset=utf-8\r\n\r\n{}\r\n--graphql--\r\n";
    let bad: [&[u8]; 6] = [
        b"--graphql\r\nContent-Type: application/json\r\n\r\n{\"data\":1}--graphql--\r\n",
        b"--graphql\r\nContent-Type: application/json\r\n\r\n{\"data\":1}\r\n--graphql--\r\n--graphql--\r\n",
        b"--graphql\r\nContent-Type: application/json\r\n\r\n{\"data\":1}\r\n",
        b"--graphql\r\nContent-Type: application/json\r\n{\"data\":1}\r\n--graphql--\r\n",
        b"--graphql\r\nContent-Type: application/json\r\n\r\n{\"data\":1}\r\n--graphql--\r\n--graphql\r\nContent-Type: application/json\r\n\r\n{}\r\n",
        b"--graphqlX\r\nContent-Type: application/json\r\n\r\n{}\r\n--graphql--\r\n",
    ];
    let ok = matches!(read_multipart(good).and_then(|p| split_parts(&p)), Ok((ref p, 1)) if p.len() == 1);
    let c = if ok && bad.iter().all(|b| read_multipart(b).and_then(|p| split_parts(&p)).is_err()) {
        Case::pass("reader self-test: 1 good body, 6 malformed bodies")
    } else {
        Case::fail("reader self-test", "the harness's multipart reader accepts a malformed body or rejects a good one")
    };
    if ctx.check_case("reader-selftest", c.class("selftest"), Json::Null) {
        return;
    }

    let bound = ctx.tier.pick(7, 9);
    ctx.note("enumeration_bound_events", json!(bound));
    if enumerate(ctx, bound) {
        return;
    }
    ctx.exhaustive = Some(true);

    let n = ctx.tier.pick(60_000, 1_500_000);
    ctx.stream("random", n, 600, |s| {
        let len = 1 + s.choose(40);
        let mut steps = vec![];
        let mut ended = false;
        for _ in 0..len {
            let act = match s.weighted(&[5, 3, if ended { 0 } else { 1 }]) {
                0 if !ended => Act::Resp,
                0 | 1 => Act::Tick,
                _ => {
                    ended = true;
                    Act::End
                }
            };
            let polls = match s.weighted(&[4, 3, 2, 1, 1]) {
                0 => Polls::All,
                1 => Polls::N(0),
                2 => Polls::N(1),
                3 => Polls::N(2),
                _ => Polls::N(3 + s.choose(4) as u8),
            };
            steps.push(Step { act, polls });
        }
        let nresp = steps.iter().filter(|x| x.act == Act::Resp).count();
        let contents: Vec<Response> = (0..nresp).map(|_| gen_response(s)).collect();
        let rendered: Vec<String> = contents.iter().map(|r| serde_json::to_string(r).unwrap()).collect();
        let mut it = contents.into_iter();
        let o = run_script(&steps, &mut |_| it.next().expect("one content per R step"));
        let text = format!("script [{}] responses {}", render_script(&steps), rendered.join(" | "));
        let special = rendered.iter().any(|r| r.contains("--graphql"));
        to_case(text, &o).class("random").class_if(special, "boundary-text-in-content").class_if(o.body_len > 2000, "body>2000B")
    });

    ctx.floor("tick-and-input-pending-at-a-poll", 1000);
    ctx.floor("tick-pre-empted-by-end", 20);
    ctx.floor("partial-polls", 1000);
    ctx.floor("boundary-text-in-content", 1000);
    ctx.floor("responses>=2", 1000);
}
