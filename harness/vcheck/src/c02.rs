//! C02 — not built yet.
use vcore::Ctx;

pub fn run(_ctx: &mut Ctx) {
    eprintln!("C02: check not built yet");
    std::process::exit(2);
}
