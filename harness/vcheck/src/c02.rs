//! C02 — execution results of dynamic schemas equal the specification's execution algorithm.
use crate::execcmp::*;
use vcore::{Case, Ctx, Src};
use vgql::gensch::*;
use vgql::gentyped::*;
use vgql::print::print_plain;
use vgql::refexec::{execute, Quirks};
use vgql::world::*;
use vschemas::dynbuild::build_dynamic;
use vschemas::rt::Rt;

pub struct DynCase {
    pub text: String,
    pub rendered: String,
    pub stats: DocStats,
}

pub fn typed_cfg(ctx: &Ctx, prop: &str) -> TypedCfg {
    let mut cfg = TypedCfg::default();
    cfg.union_cond_in_object = !ctx.open(&format!("{}-F1", prop));
    cfg.defaulted_directive_vars = !ctx.open("C01-F2");
    cfg.omitted_var_with_arg_default = !ctx.open("C06-F1");
    cfg
}

pub fn run_one(s: &mut dyn Src, tcfg: &TypedCfg, null_leaves: bool, quirks: Quirks, known: &[&str]) -> Case {
    let sch = gen_sch(s, &SchCfg::default());
    let world = gen_world(&sch, s, &WorldCfg { null_composite_items: false, null_for_nonnull_leaves: null_leaves, ..WorldCfg::default() });
    let mut td = gen_typed_doc(&sch, s, tcfg);
    let text = print_plain(&mut td.doc);
    let rendered = format!("schema: {}\nworld: {}\nquery: {}\nvariables: {}", show_sch(&sch), world.show(), text, vars_json(&td.vars));
    let rt = Rt::new(world.clone());
    let schema = match build_dynamic(&sch, &rt, |b| b) {
        Ok(s) => s,
        Err(e) => return Case::fail(rendered, format!("HARNESS: generated schema does not build: {}", e)),
    };
    let want = match execute(&sch, &td.doc, td.op_name.as_deref(), &td.vars, &world, Quirks::default()) {
        Ok(w) => w,
        Err(e) => return Case::fail(rendered, format!("HARNESS: reference executor rejects a generated request: {:?}", e)),
    };
    let resp = vcore::det::block_on(schema.execute(request(&text, &td.vars, td.op_name.as_deref())));
    let st = &td.stats;
    let nontrivial = st.union_cond_in_object + st.interface_cond + st.object_cond > 0 || st.repeated_keys > 0 || st.directive_var > 0;
    let mut c = match compare(&want, &resp) {
        Ok(()) => Case::pass(rendered),
        Err(e) => {
            // does the deviation match the quirks of the open findings exactly?
            let mut attributed = None;
            if quirks != Quirks::default() {
                if let Ok(w2) = execute(&sch, &td.doc, td.op_name.as_deref(), &td.vars, &world, quirks) {
                    if compare(&w2, &resp).is_ok() {
                        attributed = Some(known.iter().map(|k| k.to_string()).collect::<Vec<_>>());
                    }
                }
            }
            match attributed {
                Some(ids) => Case::known(rendered, ids),
                None => Case::fail(rendered, format!("{}; errors reported: {:?}", e, resp.errors.iter().map(|e| e.message.clone()).collect::<Vec<_>>())),
            }
        }
    };
    c.nontrivial = c.nontrivial || nontrivial;
    c.class_if(st.union_cond_in_object > 0, "union-condition-in-object")
        .class_if(st.interface_cond > 0, "interface-condition")
        .class_if(st.nested_fragments >= 2, "nested-fragments>=2")
        .class_if(st.named_fragments > 0, "named-fragment")
        .class_if(st.directive_var_defaulted > 0, "defaulted-directive-variable")
        .class_if(st.directive_var > 0, "directive-variable")
        .class_if(st.repeated_keys > 0, "repeated-key")
        .class_if(st.vars > 0, "variables")
        .class_if(sch.mutation.is_some(), "schema-with-mutation")
        .class_if(world.plain_leaf_lists, "lists-as-plain-value")
        .class_if(want.errors.iter().any(|e| e.what.contains("null for non-null")), "resolver-null-at-non-null-leaf")
        .class_if(want.errors.iter().any(|e| e.what.contains("null for non-null") && matches!(e.path.last(), Some(vgql::refexec::Seg::Idx(_)))), "null-item-in-non-null-item-list")
}

pub fn run(ctx: &mut Ctx) {
    ctx.rule = "random dynamic type systems (<=12 types: objects, interfaces incl. inheritance, unions, enums, custom scalar, input objects incl. oneOf), data worlds valid for \
                them, and type-directed valid documents with variables; response compared with the reference executor (data exactly, errors by path+location). Non-trivial = \
                a fragment with a type condition, a repeated response key, or a variable-driven @skip/@include; distinct by rendered (schema, world, query, variables)".into();
    ctx.note("value_domain", serde_json::json!("resolvers may yield null for a non-null leaf (a field or a list item; the non-null clause of the property) and hand lists of leaves over either as FieldValue::list or as one plain Value::List"));
    ctx.assume("resolvers return values valid for the declared type (built-in scalars are not checked by the dynamic API, so only type-correct values are generated); invalid enum / custom scalar values are C03's fault class");
    ctx.assume("null items inside lists of object/interface/union type are not generated: the dynamic API has no way to return them (FieldValue::NULL at an object position is an object with a null parent value, as the crate's own tests use it)");
    ctx.assume("documents are valid by construction (generator), not filtered by async-graphql's validator");
    let n = ctx.tier.pick(40_000, 1_000_000);
    let main_cfg = typed_cfg(ctx, "C02");
    if ctx.open("C02-F1") {
        ctx.excluded("C02-F1");
    }
    if ctx.open("C01-F2") {
        ctx.excluded("C01-F2");
    }
    let mut ops_cfg = main_cfg.clone();
    ops_cfg.ops = vec![vgql::ast::OpKind::Query, vgql::ast::OpKind::Mutation];
    ctx.stream("dynamic", n, 600, |s| run_one(s, &ops_cfg, false, Quirks::default(), &[]));
    // resolvers that yield null for non-null leaves (fields and list items): the non-null clause. While C04-F1 is open
    // (each occurrence of a repeated response key is executed on its own and the results are merged, so a null
    // propagated to the field by one occurrence is overwritten by the object of another) repeated keys are left out here.
    let mut nn_cfg = ops_cfg.clone();
    if ctx.open("C04-F1") {
        nn_cfg.repeats = false;
        ctx.excluded("C04-F1");
    }
    ctx.stream("dynamic-null-for-non-null", n / 2, 600, |s| run_one(s, &nn_cfg, true, Quirks::default(), &[]));
    // probe stream: constructs of the open findings enabled, deviations must match their quirks exactly
    let f1 = ctx.open("C02-F1");
    if f1 {
        let mut pcfg = TypedCfg::default();
        pcfg.defaulted_directive_vars = main_cfg.defaulted_directive_vars;
        pcfg.omitted_var_with_arg_default = main_cfg.omitted_var_with_arg_default;
        let q = Quirks { union_condition_in_object_dropped: true, ..Quirks::default() };
        ctx.stream("probe-union-condition", n / 8, 600, |s| run_one(s, &pcfg, false, q, &["C02-F1"]));
    }
}
