//! Shared by the execution checks (C01–C05, C22, C30 …): run a request, compare the response with the reference
//! executor's result.
use async_graphql::{PathSegment, Request, Response, Variables};
use indexmap::IndexMap;
use serde_json::Value as J;
use vgql::ast::Pos;
use vgql::coerce::CV;
use vgql::refexec::{show_path, Path, RefOut, Seg};

pub fn vars_json(vars: &IndexMap<String, CV>) -> J {
    J::Object(vars.iter().map(|(k, v)| (k.clone(), v.to_json())).collect())
}

pub fn request(text: &str, vars: &IndexMap<String, CV>, op_name: Option<&str>) -> Request {
    let mut r = Request::new(text).variables(Variables::from_json(vars_json(vars)));
    if let Some(n) = op_name {
        r = r.operation_name(n);
    }
    r
}

pub fn resp_data(resp: &Response) -> J {
    resp.data.clone().into_json().unwrap_or(J::Null)
}

pub fn resp_errors(resp: &Response) -> Vec<(Path, Vec<Pos>, String)> {
    resp.errors
        .iter()
        .map(|e| {
            (
                e.path
                    .iter()
                    .map(|s| match s {
                        PathSegment::Field(f) => Seg::Key(f.clone()),
                        PathSegment::Index(i) => Seg::Idx(*i),
                    })
                    .collect(),
                e.locations.iter().map(|l| Pos { line: l.line as u32, col: l.column as u32 }).collect(),
                e.message.clone(),
            )
        })
        .collect()
}

/// Compare `data` exactly and errors by the C03 rule (see DESIGN §4 C03): every reference error that is not inside
/// a region nulled by propagation must be reported exactly once with its path and location; for every nulled region
/// at least one of the errors that lie in it must be reported; nothing else may be reported, nothing twice.
pub fn compare(r: &RefOut, resp: &Response) -> Result<(), String> {
    let want = r.data.clone().unwrap_or(J::Null);
    let got = resp_data(resp);
    if want != got || serde_json::to_string(&want).unwrap() != serde_json::to_string(&got).unwrap() {
        return Err(format!("data differs: expected {} got {}", want, got));
    }
    compare_errors(r, resp)
}

pub fn compare_errors(r: &RefOut, resp: &Response) -> Result<(), String> {
    let reported = resp_errors(resp);
    let mut matched = vec![false; r.errors.len()];
    for (path, locs, msg) in &reported {
        if locs.is_empty() {
            return Err(format!("error without location at {}: {}", show_path(path), msg));
        }
        let hit = r.errors.iter().enumerate().position(|(i, e)| !matched[i] && &e.path == path && locs.contains(&e.loc));
        match hit {
            Some(i) => matched[i] = true,
            None => {
                let same_path = r.errors.iter().any(|e| &e.path == path);
                return Err(format!(
                    "unexpected error at path {} locations {:?} ({}): {}",
                    show_path(path),
                    locs.iter().map(|l| (l.line, l.col)).collect::<Vec<_>>(),
                    if same_path { "path expected, but reported twice or with another location" } else { "no field failed at this path" },
                    msg
                ));
            }
        }
    }
    for (i, e) in r.errors.iter().enumerate() {
        if matched[i] {
            continue;
        }
        if e.nulled == e.path {
            return Err(format!("missing error for path {} ({})", show_path(&e.path), e.what));
        }
        // inside a nulled region: at least one error of that region must have been reported
        let any = r.errors.iter().enumerate().any(|(j, o)| matched[j] && o.nulled == e.nulled);
        if !any {
            return Err(format!("no error reported for the region nulled at {} (e.g. {} at {})", show_path(&e.nulled), e.what, show_path(&e.path)));
        }
    }
    Ok(())
}
