//! C06 — resolvers receive exactly the spec-coerced argument values.
use async_graphql::*;
use indexmap::IndexMap;
use std::sync::{Arc, Mutex};
use vcore::{Case, Ctx, Src};
use vgql::ast::{self, Def, Doc, Field as QField, Name as QName, OpDef, OpKind, PTy, PVal, Pos, SelSet, Selection, Ty, Val, VarDef};
use vgql::coerce::*;
use vgql::gentyped::{gen_input_literal, literal_to_runtime};
use vgql::print::print_plain;
use vgql::sch::{Kind, Sch};

// ------------------------------------------------------------------ canonical echo of typed values
trait Canon {
    fn canon(&self) -> String;
}
impl Canon for i32 {
    fn canon(&self) -> String {
        self.to_string()
    }
}
impl Canon for f64 {
    fn canon(&self) -> String {
        format!("{:?}", self)
    }
}
impl Canon for String {
    fn canon(&self) -> String {
        format!("{:?}", self)
    }
}
impl Canon for bool {
    fn canon(&self) -> String {
        self.to_string()
    }
}
impl Canon for ID {
    fn canon(&self) -> String {
        format!("{:?}", self.0)
    }
}
impl<T: Canon> Canon for Option<T> {
    fn canon(&self) -> String {
        match self {
            None => "null".into(),
            Some(v) => v.canon(),
        }
    }
}
impl<T: Canon> Canon for MaybeUndefined<T> {
    fn canon(&self) -> String {
        match self {
            MaybeUndefined::Undefined => "undefined".into(),
            MaybeUndefined::Null => "null".into(),
            MaybeUndefined::Value(v) => v.canon(),
        }
    }
}
impl<T: Canon> Canon for Vec<T> {
    fn canon(&self) -> String {
        format!("[{}]", self.iter().map(|x| x.canon()).collect::<Vec<_>>().join(","))
    }
}

#[derive(Enum, Copy, Clone, Eq, PartialEq)]
enum Color {
    Red,
    Green,
    #[graphql(name = "DARK_BLUE")]
    Blue,
}
impl Canon for Color {
    fn canon(&self) -> String {
        match self {
            Color::Red => "RED",
            Color::Green => "GREEN",
            Color::Blue => "DARK_BLUE",
        }
        .into()
    }
}

#[derive(InputObject)]
struct Inner {
    a: i32,
    #[graphql(default = 5)]
    b: i32,
    c: Option<String>,
    m: MaybeUndefined<i32>,
    #[graphql(default_with = "vec![1, 2]")]
    l: Vec<i32>,
}
impl Canon for Inner {
    fn canon(&self) -> String {
        format!("{{a:{},b:{},c:{},m:{},l:{}}}", self.a.canon(), self.b.canon(), self.c.canon(), self.m.canon(), self.l.canon())
    }
}
#[derive(InputObject)]
struct Outer {
    inner: Inner,
    #[graphql(default)]
    list: Vec<i32>,
    opt_inner: Option<Inner>,
    color: Option<Color>,
    #[graphql(default_with = "Color::Green")]
    color_def: Color,
    inners: Option<Vec<Inner>>,
}
impl Canon for Outer {
    fn canon(&self) -> String {
        format!(
            "{{inner:{},list:{},optInner:{},color:{},colorDef:{},inners:{}}}",
            self.inner.canon(),
            self.list.canon(),
            self.opt_inner.canon(),
            self.color.canon(),
            self.color_def.canon(),
            self.inners.canon()
        )
    }
}
#[derive(OneofObject)]
enum One {
    I(i32),
    S(String),
    In(Inner),
    L(Vec<i32>),
}
impl Canon for One {
    fn canon(&self) -> String {
        match self {
            One::I(v) => format!("{{i:{}}}", v.canon()),
            One::S(v) => format!("{{s:{}}}", v.canon()),
            One::In(v) => format!("{{in:{}}}", v.canon()),
            One::L(v) => format!("{{l:{}}}", v.canon()),
        }
    }
}

type Log = Arc<Mutex<Vec<String>>>;
fn echo(ctx: &Context<'_>, s: String) -> String {
    ctx.data_unchecked::<Log>().lock().unwrap().push(s.clone());
    s
}

struct Query;
#[Object]
impl Query {
    async fn int(&self, ctx: &Context<'_>, x: i32) -> String {
        echo(ctx, x.canon())
    }
    async fn int_opt(&self, ctx: &Context<'_>, x: Option<i32>) -> String {
        echo(ctx, x.canon())
    }
    async fn int_def(&self, ctx: &Context<'_>, #[graphql(default = 7)] x: i32) -> String {
        echo(ctx, x.canon())
    }
    async fn int_opt_def(&self, ctx: &Context<'_>, #[graphql(default = 7)] x: Option<i32>) -> String {
        echo(ctx, x.canon())
    }
    async fn int_mu(&self, ctx: &Context<'_>, x: MaybeUndefined<i32>) -> String {
        echo(ctx, x.canon())
    }
    async fn float(&self, ctx: &Context<'_>, x: f64) -> String {
        echo(ctx, x.canon())
    }
    async fn float_opt(&self, ctx: &Context<'_>, x: Option<f64>) -> String {
        echo(ctx, x.canon())
    }
    async fn str(&self, ctx: &Context<'_>, x: String) -> String {
        echo(ctx, x.canon())
    }
    async fn str_opt(&self, ctx: &Context<'_>, x: Option<String>) -> String {
        echo(ctx, x.canon())
    }
    async fn str_def(&self, ctx: &Context<'_>, #[graphql(default = "dflt")] x: String) -> String {
        echo(ctx, x.canon())
    }
    async fn boolean(&self, ctx: &Context<'_>, x: bool) -> String {
        echo(ctx, x.canon())
    }
    async fn bool_opt(&self, ctx: &Context<'_>, x: Option<bool>) -> String {
        echo(ctx, x.canon())
    }
    async fn id(&self, ctx: &Context<'_>, x: ID) -> String {
        echo(ctx, x.canon())
    }
    async fn id_opt(&self, ctx: &Context<'_>, x: Option<ID>) -> String {
        echo(ctx, x.canon())
    }
    async fn color(&self, ctx: &Context<'_>, x: Color) -> String {
        echo(ctx, x.canon())
    }
    async fn color_opt(&self, ctx: &Context<'_>, x: Option<Color>) -> String {
        echo(ctx, x.canon())
    }
    async fn color_def(&self, ctx: &Context<'_>, #[graphql(default_with = "Color::Blue")] x: Color) -> String {
        echo(ctx, x.canon())
    }
    async fn list(&self, ctx: &Context<'_>, x: Vec<i32>) -> String {
        echo(ctx, x.canon())
    }
    async fn list_opt(&self, ctx: &Context<'_>, x: Option<Vec<Option<i32>>>) -> String {
        echo(ctx, x.canon())
    }
    async fn list_def(&self, ctx: &Context<'_>, #[graphql(default_with = "vec![1, 2]")] x: Vec<i32>) -> String {
        echo(ctx, x.canon())
    }
    async fn matrix(&self, ctx: &Context<'_>, x: Vec<Vec<i32>>) -> String {
        echo(ctx, x.canon())
    }
    async fn matrix_opt(&self, ctx: &Context<'_>, x: Option<Vec<Option<Vec<Option<i32>>>>>) -> String {
        echo(ctx, x.canon())
    }
    async fn colors(&self, ctx: &Context<'_>, x: Option<Vec<Color>>) -> String {
        echo(ctx, x.canon())
    }
    async fn inner(&self, ctx: &Context<'_>, x: Inner) -> String {
        echo(ctx, x.canon())
    }
    async fn inner_opt(&self, ctx: &Context<'_>, x: Option<Inner>) -> String {
        echo(ctx, x.canon())
    }
    async fn outer(&self, ctx: &Context<'_>, x: Outer) -> String {
        echo(ctx, x.canon())
    }
    async fn outer_opt(&self, ctx: &Context<'_>, x: Option<Outer>) -> String {
        echo(ctx, x.canon())
    }
    async fn list_inner(&self, ctx: &Context<'_>, x: Vec<Inner>) -> String {
        echo(ctx, x.canon())
    }
    async fn one(&self, ctx: &Context<'_>, x: One) -> String {
        echo(ctx, x.canon())
    }
    async fn one_opt(&self, ctx: &Context<'_>, x: Option<One>) -> String {
        echo(ctx, x.canon())
    }
    async fn ones(&self, ctx: &Context<'_>, x: Option<Vec<One>>) -> String {
        echo(ctx, x.canon())
    }
}

/// positions whose Rust type is MaybeUndefined (absent and null are distinguishable there)
fn is_mu(owner: &str, field: &str) -> bool {
    matches!((owner, field), ("Query.intMu", "x") | ("Inner", "m"))
}

/// canonical echo that the resolver must produce for the reference-coerced value
fn echo_cv(sch: &Sch, ty: &Ty, v: Option<&CV>, mu: bool) -> String {
    let v = match v {
        None => return if mu { "undefined".into() } else { "null".into() },
        Some(CV::Null) => return "null".into(),
        Some(v) => v,
    };
    match ty.nullable() {
        Ty::List(inner) => match v {
            CV::List(items) => format!("[{}]", items.iter().map(|x| echo_cv(sch, inner, Some(x), false)).collect::<Vec<_>>().join(",")),
            other => format!("<not-a-list:{}>", other.show()),
        },
        Ty::Named(n) => match (n.as_str(), v) {
            ("Int", CV::Int(i)) => i.to_string(),
            ("Float", CV::Float(f)) => format!("{:?}", f),
            ("String", CV::Str(s)) | ("ID", CV::Str(s)) => format!("{:?}", s),
            ("Boolean", CV::Bool(b)) => b.to_string(),
            (_, CV::Enum(e)) => e.clone(),
            (_, CV::Obj(o)) => {
                let td = sch.ty(n).unwrap();
                if td.one_of {
                    let (k, x) = o.iter().next().unwrap();
                    let fd = td.input_fields.iter().find(|f| &f.name == k).unwrap();
                    return format!("{{{}:{}}}", k, echo_cv(sch, &fd.ty, Some(x), false));
                }
                let parts: Vec<String> = td.input_fields.iter().map(|f| format!("{}:{}", f.name, echo_cv(sch, &f.ty, o.get(&f.name), is_mu(n, &f.name)))).collect();
                format!("{{{}}}", parts.join(","))
            }
            (_, other) => format!("<unexpected:{}>", other.show()),
        },
        Ty::NonNull(_) => unreachable!(),
    }
}


// ------------------------------------------------------------------ dynamic mirror: untyped accessor echo
/// canonical echo of the RAW value a dynamic resolver is handed, read against the declared type; liberal about
/// representation (enum name as enum or string, integral number for Float, number for ID), strict about structure
/// (list wrapping, defaults present, null vs absent)
fn echo_value(sch: &Sch, ty: &Ty, v: Option<&Value>, mu: bool) -> String {
    let v = match v {
        None => return if mu { "undefined".into() } else { "null".into() },
        Some(Value::Null) => return "null".into(),
        Some(v) => v,
    };
    match ty.nullable() {
        Ty::List(inner) => match v {
            Value::List(items) => format!("[{}]", items.iter().map(|x| echo_value(sch, inner, Some(x), false)).collect::<Vec<_>>().join(",")),
            other => format!("<not-a-list:{}>", other),
        },
        Ty::Named(n) => match (n.as_str(), v) {
            ("Int", Value::Number(x)) if x.is_i64() => x.as_i64().unwrap().to_string(),
            ("Float", Value::Number(x)) => format!("{:?}", x.as_f64().unwrap_or(f64::NAN)),
            ("String", Value::String(s)) => format!("{:?}", s),
            ("ID", Value::String(s)) => format!("{:?}", s),
            ("ID", Value::Number(x)) => format!("{:?}", x.to_string()),
            ("Boolean", Value::Boolean(b)) => b.to_string(),
            (_, Value::Enum(e)) if sch.kind(n) == Some(Kind::Enum) => e.to_string(),
            (_, Value::String(e)) if sch.kind(n) == Some(Kind::Enum) => e.clone(),
            (_, Value::Object(o)) if sch.kind(n) == Some(Kind::Input) => {
                let td = sch.ty(n).unwrap();
                if td.one_of {
                    let parts: Vec<String> = o.iter().map(|(k, x)| format!("{}:{}", k, td.input_fields.iter().find(|f| f.name == k.as_str()).map(|f| echo_value(sch, &f.ty, Some(x), false)).unwrap_or_else(|| "<unknown-field>".into()))).collect();
                    return format!("{{{}}}", parts.join(","));
                }
                let parts: Vec<String> = td.input_fields.iter().map(|f| format!("{}:{}", f.name, echo_value(sch, &f.ty, o.get(f.name.as_str()), is_mu(n, &f.name)))).collect();
                format!("{{{}}}", parts.join(","))
            }
            (_, other) => format!("<unexpected:{}>", other),
        },
        Ty::NonNull(_) => unreachable!(),
    }
}

fn build_dynamic_echo(sch: &Sch, log: Log) -> dynamic::Schema {
    use async_graphql::dynamic::*;
    let arc = Arc::new(sch.clone());
    let mut b = Schema::build("Query", None, None);
    for td in sch.types.values() {
        match td.kind {
            Kind::Enum => {
                let mut e = Enum::new(td.name.clone());
                for v in &td.values {
                    e = e.item(EnumItem::new(v.name.clone()));
                }
                b = b.register(e);
            }
            Kind::Input => {
                let mut io = InputObject::new(td.name.clone());
                for f in &td.input_fields {
                    let mut iv = InputValue::new(f.name.clone(), vschemas::dynbuild::type_ref(&f.ty));
                    if let Some(d) = &f.default {
                        iv = iv.default_value(vschemas::dynbuild::val_to_value(d));
                    }
                    io = io.field(iv);
                }
                if td.one_of {
                    io = io.oneof();
                }
                b = b.register(io);
            }
            Kind::Object if td.name == "Query" => {
                let mut o = Object::new("Query");
                for fd in &td.fields {
                    let ad = fd.args[0].clone();
                    let (arc2, log2, fname, aty) = (arc.clone(), log.clone(), fd.name.clone(), ad.ty.clone());
                    let mut f = Field::new(fd.name.clone(), TypeRef::named_nn(TypeRef::STRING), move |ctx| {
                        let (sch, log, fname, aty) = (arc2.clone(), log2.clone(), fname.clone(), aty.clone());
                        FieldFuture::new(async move {
                            let raw = ctx.args.get("x").map(|a| a.as_value().clone());
                            let e = echo_value(&sch, &aty, raw.as_ref(), is_mu(&format!("Query.{}", fname), "x"));
                            log.lock().unwrap().push(e.clone());
                            Ok(Some(Value::String(e)))
                        })
                    });
                    let mut iv = InputValue::new("x", vschemas::dynbuild::type_ref(&ad.ty));
                    if let Some(d) = &ad.default {
                        iv = iv.default_value(vschemas::dynbuild::val_to_value(d));
                    }
                    f = f.argument(iv);
                    o = o.field(f);
                }
                b = b.register(o);
            }
            _ => {}
        }
    }
    b.finish().expect("dynamic mirror of the input schema builds")
}

// ------------------------------------------------------------------ supplying values
struct Supply<'a> {
    sch: &'a Sch,
    vardefs: Vec<VarDef>,
    provided: IndexMap<String, CV>,
    classes: Vec<&'static str>,
    allow_omitted_var_arg_default: bool,
}

fn random_runtime(s: &mut dyn Src, depth: usize) -> CV {
    match s.choose(if depth == 0 { 6 } else { 8 }) {
        0 => CV::Null,
        1 => CV::Int(vcore::gens::gen_i64(s)),
        2 => CV::Float(s.range(-100, 100) as f64 / 4.0),
        3 => CV::Str(vcore::gens::gen_string(s, 3)),
        4 => CV::Bool(s.bool()),
        5 => CV::Str(["RED", "GREEN", "DARK_BLUE", "Red", "PURPLE"][s.choose(5)].to_string()),
        6 => CV::List((0..s.choose(3)).map(|_| random_runtime(s, depth - 1)).collect()),
        _ => CV::Obj((0..s.choose(3)).map(|_| (["a", "b", "c", "m", "l", "i", "s", "zz"][s.choose(8)].to_string(), random_runtime(s, depth - 1))).collect()),
    }
}
fn random_literal(s: &mut dyn Src, depth: usize) -> Val {
    match s.choose(if depth == 0 { 7 } else { 9 }) {
        0 => Val::Null,
        1 => Val::Int(vcore::gens::gen_i64(s).to_string()),
        2 => Val::Float(format!("{:?}", s.range(-100, 100) as f64 / 4.0)),
        3 => Val::Str(vcore::gens::gen_string(s, 3)),
        4 => Val::Bool(s.bool()),
        5 => Val::Enum(["RED", "GREEN", "DARK_BLUE", "Red", "PURPLE"][s.choose(5)].to_string()),
        6 => Val::Int(s.range(-3, 3).to_string()),
        7 => Val::List((0..s.choose(3)).map(|_| PVal::new(random_literal(s, depth - 1))).collect()),
        _ => {
            let mut fields: Vec<(QName, PVal)> = vec![];
            for _ in 0..s.choose(3) {
                // unknown field names in LITERALS are a validation matter (C09); runtime values keep them
                let k = ["a", "b", "c", "m", "l", "i", "s"][s.choose(7)];
                if fields.iter().all(|(n, _)| n.s != k) {
                    fields.push((QName::new(k), PVal::new(random_literal(s, depth - 1))));
                }
            }
            Val::Obj(fields)
        }
    }
}

impl<'a> Supply<'a> {
    /// a variable usable at a position of type `ty` (declared with that type or its non-null form)
    fn variable(&mut self, s: &mut dyn Src, ty: &Ty, position_tolerates_absent: bool, position_has_default: bool) -> Val {
        let name = format!("v{}", self.vardefs.len());
        let decl = if !ty.is_nn() && s.chance(1, 4) { Ty::nn(ty.clone()) } else { ty.clone() };
        let default = if s.chance(1, 3) {
            // default literals are always of the variable's type: an ill-typed default is a validation matter (C09)
            let lit = gen_input_literal(self.sch, &decl, s, 0);
            let mut pv = PVal::new(lit);
            ast::strip_val(&mut pv);
            self.classes.push("variable-default");
            Some(pv)
        } else {
            None
        };
        // how is it supplied?
        match s.choose(5) {
            0 | 1 => {
                let lit = gen_input_literal(self.sch, &decl, s, 0);
                self.provided.insert(name.clone(), literal_to_runtime(&lit));
            }
            2 => {
                self.provided.insert(name.clone(), random_runtime(s, 2));
                self.classes.push("variable-arbitrary-runtime-value");
            }
            3 => {
                self.provided.insert(name.clone(), CV::Null);
                self.classes.push("variable-explicit-null");
            }
            _ => {
                // omitted; only legal combinations for a VALID document/request are kept valid by the oracle itself
                // (required variable without default -> request error is the expected outcome)
                let mut omit = true;
                if default.is_none() && position_has_default && !self.allow_omitted_var_arg_default {
                    omit = false;
                }
                if omit {
                    self.classes.push("variable-omitted");
                    if default.is_none() && position_has_default {
                        self.classes.push("omitted-variable-meets-argument-default");
                    }
                } else {
                    let lit = gen_input_literal(self.sch, &decl, s, 0);
                    self.provided.insert(name.clone(), literal_to_runtime(&lit));
                }
                let _ = position_tolerates_absent;
            }
        }
        self.vardefs.push(VarDef { pos: Pos::default(), name: QName::new(name.clone()), ty: PTy { pos: Pos::default(), ty: decl }, default, directives: vec![] });
        Val::Var(name)
    }

    /// a value for a position of type `ty`: literal (right or wrong), variable, single value for a list, or a
    /// structure built from nested supplies
    fn value(&mut self, s: &mut dyn Src, ty: &Ty, depth: usize, has_default: bool) -> Val {
        self.value2(s, ty, depth, has_default, true)
    }
    /// `allow_var`: false below a single-value-for-list position (a variable of item type is not allowed in a list
    /// position; variable usage is C09's subject)
    fn value2(&mut self, s: &mut dyn Src, ty: &Ty, depth: usize, has_default: bool, allow_var: bool) -> Val {
        let k = if allow_var { s.weighted(&[6, 3, 1, 2, 3]) } else { s.weighted(&[6, 0, 1, 2, 0]) };
        match k {
            1 => {
                self.classes.push("variable");
                self.variable(s, ty, !ty.is_nn() || has_default, has_default)
            }
            2 => {
                self.classes.push("arbitrary-literal");
                random_literal(s, 2)
            }
            3 if ty.is_list() => {
                // single value where a list is expected
                self.classes.push("single-value-for-list");
                let inner = match ty.nullable() {
                    Ty::List(i) => (**i).clone(),
                    _ => unreachable!(),
                };
                self.value2(s, &inner, depth + 1, false, false)
            }
            4 if depth < 3 => match ty.nullable() {
                Ty::List(inner) => {
                    let n = s.choose(3);
                    Val::List((0..n).map(|_| PVal::new(self.value(s, inner, depth + 1, false))).collect())
                }
                Ty::Named(n) if self.sch.kind(n) == Some(Kind::Input) => {
                    let td = self.sch.ty(n).unwrap().clone();
                    self.classes.push(if td.one_of { "oneof-structured" } else { "input-object-structured" });
                    let mut fields = vec![];
                    if td.one_of {
                        let cnt = *vcore::gens::pick(s, &[1usize, 1, 1, 0, 2]);
                        let start = s.choose(td.input_fields.len());
                        for i in 0..cnt {
                            let f = &td.input_fields[(start + i) % td.input_fields.len()];
                            fields.push((QName::new(f.name.clone()), PVal::new(self.value(s, &f.ty, depth + 1, false))));
                        }
                    } else {
                        for f in &td.input_fields {
                            let required = f.ty.is_nn() && f.default.is_none();
                            if (required && !s.chance(1, 10)) || (!required && s.bool()) {
                                fields.push((QName::new(f.name.clone()), PVal::new(self.value(s, &f.ty, depth + 1, f.default.is_some()))));
                            } else if f.default.is_some() {
                                self.classes.push("input-field-default-applies");
                            }
                        }
                    }
                    Val::Obj(fields)
                }
                _ => gen_input_literal(self.sch, ty, s, 0),
            },
            _ => gen_input_literal(self.sch, ty, s, 0),
        }
    }
}

fn static_case(exec: &dyn Fn(Request, Log) -> Response, sch: &Sch, s: &mut dyn Src, f1_open_excluded: bool, probe_f1: bool) -> Case {
    let q = sch.ty("Query").unwrap();
    let fd = q.fields[s.choose(q.fields.len())].clone();
    let ad = fd.args[0].clone();
    let mut sup = Supply { sch, vardefs: vec![], provided: IndexMap::new(), classes: vec![], allow_omitted_var_arg_default: !f1_open_excluded || probe_f1 };
    let mut field = QField::new(&fd.name);
    field.alias = Some(QName::new("k"));
    if !s.chance(1, 6) {
        let v = sup.value(s, &ad.ty, 0, ad.default.is_some());
        field.args.push((QName::new("x"), PVal::new(v)));
    } else {
        sup.classes.push("argument-omitted");
        if ad.default.is_some() {
            sup.classes.push("argument-default-applies");
        }
    }
    let op = OpDef { pos: Pos::default(), explicit: true, kind: OpKind::Query, name: None, vars: sup.vardefs.clone(), directives: vec![], sel: SelSet::new(vec![Selection::Field(field.clone())]) };
    let mut doc = Doc { defs: vec![Def::Op(op.clone())] };
    let text = print_plain(&mut doc);
    let vars_j = crate::execcmp::vars_json(&sup.provided);
    let rendered = format!("query: {}\nvariables: {}", text, vars_j);
    // reference
    // a default value literal that is not of the variable's type makes the document invalid (Values of Correct
    // Type), whether or not the default is used
    let defaults_ok: Result<(), CoErr> = op.vars.iter().try_for_each(|v| match &v.default {
        Some(d) => coerce_literal(sch, &v.ty.ty, &d.v, None).map(|_| ()),
        None => Ok(()),
    });
    let expected: Result<String, CoErr> = defaults_ok.and_then(|_| coerce_variables(sch, &op, &sup.provided)).and_then(|vars| coerce_arguments(sch, &fd, &field.args, &vars)).map(|args| echo_cv(sch, &ad.ty, args.get("x"), is_mu(&format!("Query.{}", fd.name), "x")));
    if let Err(e) = &expected {
        if e.dont_care {
            return Case::discard("implementation-defined coercion (integral float for Int/ID)");
        }
    }
    let log: Log = Arc::new(Mutex::new(vec![]));
    let resp = exec(crate::execcmp::request(&text, &sup.provided, None), log.clone());
    let invoked = log.lock().unwrap().clone();
    let data = crate::execcmp::resp_data(&resp);
    let mut c = match &expected {
        Ok(want) => {
            if invoked.len() == 1 && &invoked[0] == want && data["k"].as_str() == Some(want.as_str()) && resp.errors.is_empty() {
                Case::pass(rendered)
            } else {
                Case::fail(rendered, format!("expected the resolver to receive {} once; it received {:?}; errors: {:?}", want, invoked, resp.errors.iter().map(|e| e.message.clone()).collect::<Vec<_>>()))
            }
        }
        Err(e) => {
            if !invoked.is_empty() {
                Case::fail(rendered, format!("coercion must fail ({}), but the resolver was invoked with {:?}", e.msg, invoked))
            } else if resp.errors.is_empty() {
                Case::fail(rendered, format!("coercion must fail ({}), but the response carries no error: {}", e.msg, data))
            } else {
                Case::pass(rendered).class("rejected")
            }
        }
    };
    let nontrivial = sup.classes.iter().any(|c| matches!(*c, "variable-omitted" | "variable-explicit-null" | "single-value-for-list" | "oneof-structured" | "input-object-structured" | "argument-default-applies" | "input-field-default-applies"));
    c.nontrivial = c.nontrivial || nontrivial;
    sup.classes.sort();
    sup.classes.dedup();
    for cl in sup.classes {
        c = c.class(cl);
    }
    c.class(if expected.is_ok() { "coerces" } else { "must-fail" })
}

pub fn run(ctx: &mut Ctx) {
    ctx.rule = "one echo field per argument type of a derive-built schema (scalars, enum, nested lists, input objects with field defaults / Option / MaybeUndefined fields, nested input objects, oneOf; \
                required, nullable and defaulted forms); the argument is supplied as a right or arbitrary literal, a variable (provided with a right or arbitrary value, explicit null, omitted; with or without \
                default), nested variables inside lists/objects, a single value for a list, or omitted; the reference coercion (spec 6.1.2 + 6.4.1 + oneOf) decides: either the resolver ran once and echoed exactly \
                the coerced value in a canonical form that distinguishes undefined/null/value, or the request carries an error and the resolver did not run. Non-trivial = an omitted/null supply, a default that applies, \
                a single value for a list, or a structured input object / oneOf; distinct by (query, variables)".into();
    ctx.assume("variables are always declared with the type of the position they are used in (or its non-null form): variable-usage validity is C09's subject");
    ctx.assume("integral floats supplied for Int/ID variables are implementation-defined (discarded)");
    ctx.assume("dynamic resolvers receive an untyped accessor: its raw value is echoed against the declared type, liberal about representation (enum as enum or string, integral number for Float, number for ID) and strict about structure (list wrapping, defaults, null vs absent)");
    let schema = Schema::new(Query, EmptyMutation, EmptySubscription);
    let mut sch = vgql::sch::from_sdl_text(&schema.sdl()).expect("SDL of the input schema");
    for b in vgql::sch::BUILTIN_SCALARS {
        sch.types.shift_remove(b);
    }
    let n = ctx.tier.pick(400_000, 8_000_000);
    let f1 = ctx.open("C06-F1");
    if f1 {
        ctx.excluded("C06-F1");
    }
    let exec_static = |req: Request, log: Log| vcore::det::block_on(schema.execute(req.data(log)));
    ctx.stream("static", n, 200, |s| static_case(&exec_static, &sch, s, f1, false));
    // dynamic mirror: same type system, resolvers echo the raw accessor value
    let dyn_log: Log = Arc::new(Mutex::new(vec![]));
    let dschema = build_dynamic_echo(&sch, dyn_log.clone());
    let exec_dynamic = |req: Request, log: Log| {
        dyn_log.lock().unwrap().clear();
        let r = vcore::det::block_on(dschema.execute(req));
        log.lock().unwrap().extend(dyn_log.lock().unwrap().drain(..));
        r
    };
    // 64-bit integers for Int pass validation of every schema (one registry scalar `Int`, open finding C09-F12);
    // typed resolvers reject them when parsing, untyped ones see them: that deviation is C09's, discarded here
    let int_width_open = ctx.open("C09-F12") || true;
    ctx.stream("dynamic", n / 2, 200, |s| {
        let c = static_case(&exec_dynamic, &sch, s, f1, false).class("dynamic");
        match &c.verdict {
            vcore::Verdict::Fail(w) if int_width_open && w.contains("Int out of 32-bit range") => Case::discard("Int beyond 32 bits reaches an untyped resolver (C09-F12)"),
            // an argument that mentions an unsupplied variable is not validated at all (open finding C09-F9); typed
            // resolvers still reject when parsing, untyped ones receive the ill-typed value: C09's deviation
            vcore::Verdict::Fail(w) if w.starts_with("coercion must fail") && c.classes.iter().any(|x| x == "variable-omitted") => Case::discard("ill-typed literal next to an omitted variable is not validated (C09-F9)"),
            // a string literal spelling an enum value is accepted for enums (open finding C09-F6)
            vcore::Verdict::Fail(w) if w.starts_with("coercion must fail (not a value of the enum)") => Case::discard("string literal for an enum (C09-F6)"),
            _ => c,
        }
    });
    if f1 {
        ctx.stream("probe-omitted-variable-argument-default", n / 10, 200, |s| {
            let c = static_case(&exec_static, &sch, s, f1, true);
            match &c.verdict {
                vcore::Verdict::Fail(w) if c.classes.iter().any(|x| x == "omitted-variable-meets-argument-default") && w.contains("it received []") => Case::known(c.text.clone(), vec!["C06-F1".into()]),
                _ => c,
            }
        });
    }
    ctx.floor("oneof-structured", 100);
    ctx.floor("single-value-for-list", 100);
    ctx.floor("input-field-default-applies", 100);
}
