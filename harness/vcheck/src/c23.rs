//! C23 — not built yet.
use vcore::Ctx;

pub fn run(_ctx: &mut Ctx) {
    eprintln!("C23: check not built yet");
    std::process::exit(2);
}
