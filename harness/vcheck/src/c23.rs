//! C23 — all HTTP request encodings decode to the same request; batches keep order.
//!
//! A generated request (query text, operation name, variables, extensions) is written by this module's own
//! encoders as a JSON body, as an element of a JSON batch, as a GET query string and as the `operations` part of
//! a multipart/form-data body; every decoded `Request` must equal the original. Batches must decode in order and
//! `Schema::execute_batch` must answer in request order whatever the completion order. Malformed encodings must
//! be rejected with `Err`.
use async_graphql::http::{parse_query_string, receive_batch_body, receive_body, receive_json, MultipartOptions};
use async_graphql::{BatchRequest, BatchResponse, EmptyMutation, EmptySubscription, Object, Request, Schema};
use serde_json::{Map, Number, Value};
use std::time::Instant;
use vcore::det::{block_on, run_with_gates, Gates};
use vcore::gens::*;
use vcore::{Case, Ctx, Src};

// ---------------------------------------------------------------------------------------------------------
// the abstract request and its generator

#[derive(Clone, Debug, PartialEq)]
struct Req {
    query: String,
    op: Option<String>,
    vars: Map<String, Value>,
    ext: Map<String, Value>,
}

/// floats whose shortest decimal form is parsed back exactly by any JSON reader (dyadic rationals, short decimals)
fn gen_float(s: &mut dyn Src) -> f64 {
    match s.choose(3) {
        0 => s.range(-1000, 1000) as f64 / 8.0,
        1 => *pick(s, &[0.1, 1.5e10, 1e21, -2.5e-7, 1.0, 123456.789]),
        _ => s.range(-1_000_000, 1_000_000) as f64 / 100.0,
    }
}

fn gen_key(s: &mut dyn Src) -> String {
    if s.chance(1, 5) {
        let k = gen_string(s, 5);
        if !k.is_empty() {
            return k;
        }
    }
    gen_name(s, 5)
}

fn gen_obj(s: &mut dyn Src, depth: usize, max: usize) -> Map<String, Value> {
    let n = s.choose(max + 1);
    let mut m = Map::new();
    for _ in 0..n {
        let k = gen_key(s);
        let v = gen_json(s, depth);
        m.insert(k, v); // a repeated key overwrites: keys stay distinct
    }
    m
}

fn gen_json(s: &mut dyn Src, depth: usize) -> Value {
    let k = if depth == 0 { s.choose(5) } else { s.weighted(&[2, 3, 4, 6, 2, 4, 5]) };
    match k {
        0 => Value::Null,
        1 => Value::Bool(s.bool()),
        2 => match s.choose(3) {
            0 | 1 => Value::Number(Number::from(gen_i64(s))),
            _ => Value::Number(Number::from(u64::MAX - s.choose(1000) as u64)),
        },
        3 => Value::String(gen_string(s, 8)),
        4 => Value::Number(Number::from_f64(gen_float(s)).unwrap()),
        5 => {
            let n = s.choose(4);
            Value::Array((0..n).map(|_| gen_json(s, depth - 1)).collect())
        }
        _ => Value::Object(gen_obj(s, depth - 1, 3)),
    }
}

/// query text: arbitrary characters with the transport-significant ones over-represented
fn gen_query(s: &mut dyn Src) -> String {
    let n = s.choose(24);
    let mut q = String::new();
    for _ in 0..n {
        match s.weighted(&[4, 5, 2, 2]) {
            0 => q.push(*pick(s, &['&', '=', '%', '+', '#', ' ', '"', '\'', ';', '?', '/', '\\', '{', '}', '(', ')', ':', '$', '!', '@', ','])),
            1 => q.push(gen_char(s)),
            2 => q.push_str(*pick(s, &["%41", "%zz", "%", "+", "&query=x", "=%3D", "\r\n", "--", "query", "é=ß&"])),
            _ => q.push_str(*pick(s, &["{ a }", "query Q($v: Int) { f(a: $v) }", "mutation M", "…", "日本語", "😀"])),
        }
    }
    q
}

fn gen_req(s: &mut dyn Src) -> Req {
    let query = gen_query(s);
    let op = match s.choose(3) {
        0 => None,
        1 => Some(gen_name(s, 6)),
        _ => Some(gen_query(s)),
    };
    let vars = gen_obj(s, 3, 3);
    let ext = gen_obj(s, 2, 2);
    Req { query, op, vars, ext }
}

// ---------------------------------------------------------------------------------------------------------
// own encoders

#[derive(Clone, Copy)]
struct JStyle {
    ws: bool,
    esc_non_ascii: bool,
    esc_slash: bool,
}
fn gen_jstyle(s: &mut dyn Src) -> JStyle {
    JStyle { ws: s.chance(1, 3), esc_non_ascii: s.chance(1, 3), esc_slash: s.chance(1, 4) }
}

fn json_str(x: &str, st: JStyle, out: &mut String) {
    out.push('"');
    for c in x.chars() {
        match c {
            '"' => out.push_str("\\\""),
            '\\' => out.push_str("\\\\"),
            '\n' => out.push_str("\\n"),
            '\r' => out.push_str("\\r"),
            '\t' => out.push_str("\\t"),
            '/' if st.esc_slash => out.push_str("\\/"),
            c if (c as u32) < 0x20 => out.push_str(&format!("\\u{:04x}", c as u32)),
            c if (c as u32) >= 0x7f && st.esc_non_ascii => {
                let mut b = [0u16; 2];
                for u in c.encode_utf16(&mut b) {
                    out.push_str(&format!("\\u{:04X}", u));
                }
            }
            c => out.push(c),
        }
    }
    out.push('"');
}

fn json_text(v: &Value, st: JStyle, out: &mut String) {
    let sp = if st.ws { " " } else { "" };
    match v {
        Value::Null => out.push_str("null"),
        Value::Bool(b) => out.push_str(if *b { "true" } else { "false" }),
        Value::Number(n) => out.push_str(&n.to_string()),
        Value::String(x) => json_str(x, st, out),
        Value::Array(a) => {
            out.push('[');
            for (i, x) in a.iter().enumerate() {
                if i > 0 {
                    out.push(',');
                    out.push_str(sp);
                }
                json_text(x, st, out);
            }
            out.push(']');
        }
        Value::Object(m) => {
            out.push('{');
            out.push_str(sp);
            for (i, (k, x)) in m.iter().enumerate() {
                if i > 0 {
                    out.push(',');
                    out.push_str(if st.ws { "\n  " } else { "" });
                }
                json_str(k, st, out);
                out.push(':');
                out.push_str(sp);
                json_text(x, st, out);
            }
            out.push_str(sp);
            out.push('}');
        }
    }
}

/// how the optional members of one request object are spelled
#[derive(Clone, Copy)]
struct Presence {
    /// operationName None: 0 = member absent, 1 = null
    op_none: usize,
    /// empty variables / extensions: 0 = absent, 1 = null, 2 = {}
    vars_empty: usize,
    ext_empty: usize,
    /// rotation of the member order
    rot: usize,
}
fn gen_presence(s: &mut dyn Src) -> Presence {
    Presence { op_none: s.choose(2), vars_empty: s.choose(3), ext_empty: s.choose(3), rot: s.choose(4) }
}

/// the JSON object of one request (GraphQL-over-HTTP member names)
fn req_json(r: &Req, p: Presence, st: JStyle) -> String {
    let mut members: Vec<(&str, String)> = vec![];
    let mut q = String::new();
    json_str(&r.query, st, &mut q);
    members.push(("query", q));
    match (&r.op, p.op_none) {
        (Some(o), _) => {
            let mut t = String::new();
            json_str(o, st, &mut t);
            members.push(("operationName", t));
        }
        (None, 1) => members.push(("operationName", "null".into())),
        _ => {}
    }
    for (key, m, how) in [("variables", &r.vars, p.vars_empty), ("extensions", &r.ext, p.ext_empty)] {
        if m.is_empty() && how == 0 {
            continue;
        }
        if m.is_empty() && how == 1 {
            members.push((key, "null".into()));
            continue;
        }
        let mut t = String::new();
        json_text(&Value::Object(m.clone()), st, &mut t);
        members.push((key, t));
    }
    let k = p.rot % members.len();
    members.rotate_left(k);
    let body: Vec<String> = members.iter().map(|(k, v)| format!("\"{}\":{}{}", k, if st.ws { " " } else { "" }, v)).collect();
    format!("{{{}}}", body.join(if st.ws { ", " } else { "," }))
}

#[derive(Clone, Copy)]
struct PctStyle {
    plus_for_space: bool,
    lower_hex: bool,
    /// leave characters that may appear literally in a query component (RFC 3986 pchar minus `& + ;`) unescaped
    raw_legal: bool,
    /// also escape unreserved characters now and then
    over_encode: bool,
}

/// own application/x-www-form-urlencoded value encoder
fn pct(x: &str, st: PctStyle, out: &mut String) {
    for (i, b) in x.bytes().enumerate() {
        let unreserved = b.is_ascii_alphanumeric() || matches!(b, b'-' | b'_' | b'.' | b'~');
        let legal_raw = matches!(b, b'!' | b'*' | b'\'' | b'(' | b')' | b'/' | b':' | b'@' | b'?' | b',' | b'$' | b'=');
        if b == b' ' && st.plus_for_space {
            out.push('+');
        } else if (unreserved && !(st.over_encode && i % 3 == 1)) || (legal_raw && st.raw_legal) {
            out.push(b as char);
        } else if st.lower_hex {
            out.push_str(&format!("%{:02x}", b));
        } else {
            out.push_str(&format!("%{:02X}", b));
        }
    }
}

/// GET query string with the standard keys; absent members are omitted
fn req_query_string(r: &Req, st: PctStyle, js: JStyle, rot: usize, empty_as_braces: bool) -> String {
    let mut pairs: Vec<(&str, String)> = vec![("query", r.query.clone())];
    if let Some(o) = &r.op {
        pairs.push(("operationName", o.clone()));
    }
    for (key, m) in [("variables", &r.vars), ("extensions", &r.ext)] {
        if m.is_empty() && !empty_as_braces {
            continue;
        }
        let mut t = String::new();
        json_text(&Value::Object(m.clone()), js, &mut t);
        pairs.push((key, t));
    }
    let k = rot % pairs.len();
    pairs.rotate_left(k);
    let mut out = String::new();
    for (i, (k, v)) in pairs.iter().enumerate() {
        if i > 0 {
            out.push('&');
        }
        out.push_str(k);
        out.push('=');
        pct(v, st, &mut out);
    }
    out
}

struct Part {
    name: String,
    filename: Option<String>,
    content_type: Option<String>,
    data: Vec<u8>,
}

#[derive(Clone, Copy)]
struct MpStyle {
    preamble: bool,
    trailing_crlf: bool,
}

/// A boundary (RFC 2046 bchars subset that needs no quoting) that occurs in none of the parts.
fn gen_boundary(s: &mut dyn Src, parts: &[Part]) -> String {
    let n = 1 + s.choose(30);
    let mut b: String = (0..n)
        .map(|_| match s.choose(4) {
            0 => (b'a' + s.choose(26) as u8) as char,
            1 => (b'A' + s.choose(26) as u8) as char,
            2 => (b'0' + s.choose(10) as u8) as char,
            _ => *pick(s, &['-', '_']),
        })
        .collect();
    // a delimiter is CRLF "--" boundary: extend the boundary until no part body contains it
    let mut k = 0u32;
    while parts.iter().any(|p| contains(&p.data, b.as_bytes())) {
        b.push((b'0' + (k % 10) as u8) as char);
        k += 1;
    }
    b
}
fn contains(h: &[u8], n: &[u8]) -> bool {
    h.len() >= n.len() && h.windows(n.len()).any(|w| w == n)
}

/// own multipart/form-data writer (RFC 7578 / RFC 2046)
fn write_multipart(boundary: &str, parts: &[Part], st: MpStyle) -> Vec<u8> {
    let mut out = vec![];
    if st.preamble {
        out.extend_from_slice(b"preamble text\r\n");
    }
    for p in parts {
        out.extend_from_slice(format!("--{}\r\n", boundary).as_bytes());
        out.extend_from_slice(format!("Content-Disposition: form-data; name=\"{}\"", p.name).as_bytes());
        if let Some(f) = &p.filename {
            out.extend_from_slice(format!("; filename=\"{}\"", f).as_bytes());
        }
        out.extend_from_slice(b"\r\n");
        if let Some(ct) = &p.content_type {
            out.extend_from_slice(format!("Content-Type: {}\r\n", ct).as_bytes());
        }
        out.extend_from_slice(b"\r\n");
        out.extend_from_slice(&p.data);
        out.extend_from_slice(b"\r\n");
    }
    out.extend_from_slice(format!("--{}--", boundary).as_bytes());
    if st.trailing_crlf {
        out.extend_from_slice(b"\r\n");
    }
    out
}

fn operations_parts(ops: String, ops_ct: bool) -> Vec<Part> {
    vec![
        Part { name: "operations".into(), filename: None, content_type: if ops_ct { Some("application/json".into()) } else { None }, data: ops.into_bytes() },
        Part { name: "map".into(), filename: None, content_type: None, data: b"{}".to_vec() },
    ]
}

// ---------------------------------------------------------------------------------------------------------
// observation

fn view(r: &Request) -> Result<Req, String> {
    let vars = match serde_json::to_value(&r.variables).map_err(|e| e.to_string())? {
        Value::Object(m) => m,
        x => return Err(format!("variables serialise as {}", x)),
    };
    let ext = match serde_json::to_value(&r.extensions).map_err(|e| e.to_string())? {
        Value::Object(m) => m,
        x => return Err(format!("extensions serialise as {}", x)),
    };
    Ok(Req { query: r.query.clone(), op: r.operation_name.clone(), vars, ext })
}

/// None if the decoded request equals the original, else what differs
fn differs(orig: &Req, got: &Request) -> Option<String> {
    match view(got) {
        Err(e) => Some(e),
        Ok(v) => {
            if v == *orig {
                None
            } else {
                Some(format!("decoded {:?}", v))
            }
        }
    }
}

fn opts() -> MultipartOptions {
    MultipartOptions::default()
}

fn decode_json_single(body: &str, with_ct: bool) -> Result<Request, String> {
    if with_ct {
        block_on(receive_body(Some("application/json"), body.as_bytes(), opts())).map_err(|e| e.to_string())
    } else {
        block_on(receive_json(body.as_bytes())).map_err(|e| e.to_string())
    }
}
fn decode_batch(ct: &str, body: &[u8]) -> Result<BatchRequest, String> {
    block_on(receive_batch_body(Some(ct), body, opts())).map_err(|e| e.to_string())
}

// ---------------------------------------------------------------------------------------------------------
// cases

fn lossy(b: &[u8]) -> String {
    String::from_utf8_lossy(b).into_owned()
}

/// one request in all four transport forms
fn all_forms_case(s: &mut dyn Src, get_with_op: bool) -> Case {
    // style and shape decisions first, so that short choice vectors still vary them
    let js = gen_jstyle(s);
    let pres = gen_presence(s);
    let ps = PctStyle { plus_for_space: s.bool(), lower_hex: s.bool(), raw_legal: s.bool(), over_encode: s.chance(1, 4) };
    let (json_with_ct, get_rot, get_braces, ops_ct, quoted) = (s.bool(), s.choose(4), s.bool(), s.bool(), s.bool());
    let mps = MpStyle { preamble: s.chance(1, 4), trailing_crlf: s.bool() };
    let n = 1 + s.choose(4);
    let at = s.choose(n);
    let r = gen_req(s);
    let special = r.query.chars().any(|c| "&=%+#".contains(c)) || r.query.chars().any(|c| !c.is_ascii());
    let nested = r.vars.values().any(|v| matches!(v, Value::Object(_) | Value::Array(_)));
    let mut text = format!("request={:?}", r);
    let mut fails: Vec<String> = vec![];

    // 1. JSON body
    let body = req_json(&r, pres, js);
    text.push_str(&format!("\n json={}", body));
    match decode_json_single(&body, json_with_ct) {
        Err(e) => fails.push(format!("JSON body rejected: {}", e)),
        Ok(got) => {
            if let Some(d) = differs(&r, &got) {
                fails.push(format!("JSON body: {}", d));
            }
        }
    }

    // 2. element of a JSON batch
    let others: Vec<Req> = (0..n - 1).map(|_| gen_req(s)).collect();
    let mut all: Vec<&Req> = others.iter().collect();
    all.insert(at, &r);
    let batch_body = format!("[{}]", all.iter().map(|x| req_json(x, pres, js)).collect::<Vec<_>>().join(if js.ws { " ,\n" } else { "," }));
    text.push_str(&format!("\n batch[{} of {}]={}", at, n, batch_body));
    match decode_batch("application/json", batch_body.as_bytes()) {
        Err(e) => fails.push(format!("JSON batch rejected: {}", e)),
        Ok(BatchRequest::Single(_)) => fails.push("JSON array decoded as a single request".into()),
        Ok(BatchRequest::Batch(v)) => {
            if v.len() != n {
                fails.push(format!("batch of {} decoded to {} requests", n, v.len()));
            } else {
                for (i, (o, g)) in all.iter().zip(v.iter()).enumerate() {
                    if let Some(d) = differs(o, g) {
                        fails.push(format!("batch element {}: {}", i, d));
                    }
                }
            }
        }
    }

    // 3. GET query string
    let rq = if get_with_op { r.clone() } else { Req { op: None, ..r.clone() } };
    let qs = req_query_string(&rq, ps, js, get_rot, get_braces);
    text.push_str(&format!("\n get={}", qs));
    match parse_query_string(&qs) {
        Err(e) => fails.push(format!("query string rejected: {}", e)),
        Ok(got) => {
            if let Some(d) = differs(&rq, &got) {
                fails.push(format!("query string: {}", d));
            }
        }
    }

    // 4. multipart operations part
    let parts = operations_parts(body.clone(), ops_ct);
    let boundary = gen_boundary(s, &parts);
    let mp = write_multipart(&boundary, &parts, mps);
    let ct = if quoted { format!("multipart/form-data; boundary=\"{}\"", boundary) } else { format!("multipart/form-data; boundary={}", boundary) };
    text.push_str(&format!("\n multipart content-type={} body={:?}", ct, lossy(&mp)));
    match block_on(receive_body(Some(ct.as_str()), &mp[..], opts())) {
        Err(e) => fails.push(format!("multipart rejected: {}", e)),
        Ok(got) => {
            if let Some(d) = differs(&r, &got) {
                fails.push(format!("multipart operations: {}", d));
            }
        }
    }

    let c = if fails.is_empty() { Case::pass(text) } else { Case::fail(text, fails.join("; ")) };
    c.nontrivial(special && !r.vars.is_empty())
        .class_if(special, "query-with-transport-specials")
        .class_if(nested, "nested-variables")
        .class_if(r.op.is_some(), "operation-name")
        .class_if(!r.ext.is_empty(), "extensions")
        .class_if(n > 1, "batch>1")
}

/// GET with the standard `operationName` key (the construct of C23-F1)
fn get_opname_case(s: &mut dyn Src, f1_open: bool) -> Case {
    let mut r = gen_req(s);
    if r.op.is_none() {
        r.op = Some(gen_name(s, 6));
    }
    let ps = PctStyle { plus_for_space: s.bool(), lower_hex: s.bool(), raw_legal: s.bool(), over_encode: false };
    let qs = req_query_string(&r, ps, gen_jstyle(s), s.choose(4), s.bool());
    let text = format!("request={:?}\n get={}", r, qs);
    let got = match parse_query_string(&qs) {
        Err(e) => return Case::fail(text, format!("query string rejected: {}", e)),
        Ok(g) => g,
    };
    let c = match differs(&r, &got) {
        None => Case::pass(text),
        Some(d) => {
            // quirk C23-F1: the `operationName` pair is not read, everything else decodes as specified
            let quirk = Req { op: None, ..r.clone() };
            if f1_open && differs(&quirk, &got).is_none() {
                Case::known(text, vec!["C23-F1".into()])
            } else {
                Case::fail(text, format!("query string: {}", d))
            }
        }
    };
    c.nontrivial(true).class("get-operationName")
}

/// A JSON array where a request object belongs (the construct of C23-F2; `[]`, the empty batch, is its simplest
/// member). The protocol knows request objects and arrays of request objects only, so the answer is Err.
fn array_request_case(s: &mut dyn Src, f2_open: bool) -> Case {
    let k = s.choose(5);
    let place = s.choose(3);
    let js = gen_jstyle(s);
    let r = gen_req(s);
    let mut els: Vec<String> = vec![];
    let mut q = String::new();
    json_str(&r.query, js, &mut q);
    els.push(q);
    els.push(match &r.op {
        None => "null".to_string(),
        Some(o) => {
            let mut t = String::new();
            json_str(o, js, &mut t);
            t
        }
    });
    for m in [&r.vars, &r.ext] {
        let mut t = String::new();
        json_text(&Value::Object(m.clone()), js, &mut t);
        els.push(t);
    }
    let arr = format!("[{}]", els[..k].join(if js.ws { ", " } else { "," }));
    // quirk C23-F2: the array is read positionally as (query, operationName, variables, extensions), missing tail = defaults
    let positional = Req {
        query: if k > 0 { r.query.clone() } else { String::new() },
        op: if k > 1 { r.op.clone() } else { None },
        vars: if k > 2 { r.vars.clone() } else { Map::new() },
        ext: if k > 3 { r.ext.clone() } else { Map::new() },
    };
    let pres = gen_presence(s);
    let (text, res, quirk): (String, Result<BatchRequest, String>, Vec<Req>) = match place {
        0 => (format!("array in place of the request object: {}", arr), decode_batch("application/json", arr.as_bytes()), vec![positional]),
        1 => {
            let n = 1 + s.choose(2);
            let at = s.choose(n + 1);
            let mut reqs: Vec<Req> = (0..n).map(|_| gen_req(s)).collect();
            let mut texts: Vec<String> = reqs.iter().map(|x| req_json(x, pres, js)).collect();
            texts.insert(at, arr.clone());
            reqs.insert(at, positional);
            let body = format!("[{}]", texts.join(","));
            (format!("array in place of batch element {}: {}", at, body), decode_batch("application/json", body.as_bytes()), reqs)
        }
        _ => {
            let parts = operations_parts(arr.clone(), s.bool());
            let boundary = gen_boundary(s, &parts);
            let mp = write_multipart(&boundary, &parts, MpStyle { preamble: false, trailing_crlf: true });
            let ct = format!("multipart/form-data; boundary={}", boundary);
            (format!("array as multipart operations: content-type={} body={:?}", ct, lossy(&mp)), decode_batch(&ct, &mp), vec![positional])
        }
    };
    let c = match res {
        Err(_) => Case::pass(text),
        Ok(b) => {
            let got: Vec<&Request> = b.iter().collect();
            let shape_ok = matches!(b, BatchRequest::Single(_)) == (place != 1);
            if f2_open && shape_ok && got.len() == quirk.len() && quirk.iter().zip(got.iter()).all(|(w, g)| differs(w, g).is_none()) {
                Case::known(text, vec!["C23-F2".into()])
            } else {
                Case::fail(text, format!("an array in request position was accepted: {}", show_batch(&b)))
            }
        }
    };
    c.nontrivial(true).class("array-in-request-position").class_if(k == 0 && place == 0, "empty-batch")
}

/// WHATWG application/x-www-form-urlencoded value decoding (lenient: a `%` not followed by two hex digits stays)
fn whatwg_decode(x: &str) -> String {
    let b = x.as_bytes();
    let mut out = vec![];
    let mut i = 0;
    while i < b.len() {
        if b[i] == b'+' {
            out.push(b' ');
            i += 1;
        } else if b[i] == b'%' && i + 2 < b.len() && (b[i + 1] as char).is_ascii_hexdigit() && (b[i + 2] as char).is_ascii_hexdigit() {
            out.push(u8::from_str_radix(&x[i + 1..i + 3], 16).unwrap());
            i += 3;
        } else {
            out.push(b[i]);
            i += 1;
        }
    }
    String::from_utf8_lossy(&out).into_owned()
}

const WRONG_QUERY: [&str; 4] = ["42", "true", "[\"{ a }\"]", "{\"q\":1}"];
const WRONG_OP: [&str; 4] = ["7", "false", "[\"A\"]", "{}"];
const WRONG_MAP: [&str; 5] = ["[]", "[1]", "\"{}\"", "3", "true"];

/// a request object in which one member has a JSON type the protocol does not allow
fn wrong_type_json(s: &mut dyn Src, r: &Req, js: JStyle) -> (String, String) {
    let mut q = String::new();
    json_str(&r.query, js, &mut q);
    let mut v = String::new();
    json_text(&Value::Object(r.vars.clone()), js, &mut v);
    match s.choose(4) {
        0 => {
            let w = *pick(s, &WRONG_QUERY);
            (format!("{{\"query\":{},\"variables\":{}}}", w, v), format!("query is {}", w))
        }
        1 => {
            let w = *pick(s, &WRONG_OP);
            (format!("{{\"query\":{},\"operationName\":{}}}", q, w), format!("operationName is {}", w))
        }
        2 => {
            let w = *pick(s, &WRONG_MAP);
            (format!("{{\"query\":{},\"variables\":{}}}", q, w), format!("variables is {}", w))
        }
        _ => {
            let w = *pick(s, &WRONG_MAP);
            (format!("{{\"variables\":{},\"query\":{},\"extensions\":{}}}", v, q, w), format!("extensions is {}", w))
        }
    }
}

fn must_reject<T>(text: String, what: &str, res: Result<T, String>, show: impl Fn(&T) -> String) -> Case {
    match res {
        Err(_) => Case::pass(text),
        Ok(t) => Case::fail(text, format!("{} was accepted: {}", what, show(&t))),
    }
}
fn show_batch(b: &BatchRequest) -> String {
    format!("{:?}", b.iter().map(|r| view(r)).collect::<Vec<_>>())
}
fn show_req(r: &Request) -> String {
    format!("{:?}", view(r))
}

/// `no_arrays`: JSON arrays in request position (the construct of C23-F2, which includes the empty batch) are not generated
fn malformed_case(s: &mut dyn Src, no_arrays: bool) -> Case {
    let kind = if no_arrays { [0usize, 1, 2, 4, 5, 6, 7, 8, 9][s.choose(9)] } else { s.choose(10) };
    let js = gen_jstyle(s);
    let pres = gen_presence(s);
    let sub = s.choose(6);
    let r = gen_req(s);
    let c = match kind {
        0 => {
            // truncated JSON body (single or batch): a proper prefix of an object / array text
            let single = req_json(&r, pres, js);
            let body = if sub % 2 == 0 { single } else { format!("[{},{}]", single, req_json(&gen_req(s), pres, js)) };
            let cut = s.choose(body.len());
            let b = &body.as_bytes()[..cut];
            let text = format!("truncated JSON body ({} of {} bytes): {:?}", cut, body.len(), lossy(b));
            must_reject(text, "a truncated JSON body", decode_batch("application/json", b), show_batch).class("truncated-json")
        }
        1 => {
            let (body, what) = wrong_type_json(s, &r, js);
            let text = format!("wrong JSON type ({}): {}", what, body);
            let c = if s.bool() {
                must_reject(text, "a member of the wrong JSON type", decode_batch("application/json", body.as_bytes()), show_batch)
            } else {
                must_reject(text, "a member of the wrong JSON type", decode_json_single(&body, s.bool()), show_req)
            };
            c.class("wrong-json-type")
        }
        2 => {
            let body = *pick(s, &["42", "\"{ a }\"", "null", "true", "1.5", "\"\""]);
            let text = format!("top-level JSON scalar: {}", body);
            must_reject(text, "a scalar body", decode_batch("application/json", body.as_bytes()), show_batch).class("scalar-body")
        }
        3 => {
            let body = *pick(s, &["[]", "[ ]", " []", "[\n]", "[]\n"]);
            let text = format!("empty batch: {:?}", body);
            must_reject(text, "an empty batch", decode_batch("application/json", body.as_bytes()), show_batch).class("empty-batch")
        }
        4 => {
            // batch with one bad element
            let good = req_json(&r, pres, js);
            let bad = match sub % 3 {
                0 => (*pick(s, if no_arrays { &["42", "null", "\"{ a }\"", "true"][..] } else { &["42", "null", "\"{ a }\"", "true", "[]"][..] })).to_string(),
                1 => wrong_type_json(s, &r, js).0,
                _ => format!("[{}]", good),
            };
            let n = 1 + s.choose(3);
            let at = s.choose(n + 1);
            let mut els: Vec<String> = (0..n).map(|_| good.clone()).collect();
            els.insert(at, bad);
            let body = format!("[{}]", els.join(","));
            let text = format!("batch with a malformed element at {}: {}", at, body);
            must_reject(text, "a batch with a malformed element", decode_batch("application/json", body.as_bytes()), show_batch).class("bad-batch-element")
        }
        5 => {
            // bad JSON inside variables= / extensions=
            let key = *pick(s, &["variables", "extensions"]);
            let m = if key == "variables" { &r.vars } else { &r.ext };
            let mut good = String::new();
            json_text(&Value::Object(m.clone()), js, &mut good);
            let bad = match sub % 3 {
                0 => good[..good.char_indices().map(|(i, _)| i).nth(s.choose(good.chars().count())).unwrap_or(0)].to_string(),
                1 => (*pick(s, &WRONG_MAP)).to_string(),
                _ => (*pick(s, &["{a:1}", "{'a':1}", "{\"a\":}", "{\"a\":1,}", "{}}", "nul", "{\"a\" 1}"])).to_string(),
            };
            let ps = PctStyle { plus_for_space: s.bool(), lower_hex: false, raw_legal: false, over_encode: false };
            let mut qs = String::from("query=");
            pct(&r.query, ps, &mut qs);
            qs.push_str(&format!("&{}=", key));
            pct(&bad, ps, &mut qs);
            let text = format!("bad JSON in {}= ({:?}): {}", key, bad, qs);
            must_reject(text, "bad JSON in a query-string member", parse_query_string(&qs).map_err(|e| e.to_string()), show_req).class("get-bad-json")
        }
        6 => {
            // invalid percent escapes: unspecified class (RFC 3986 calls them invalid, the WHATWG form decoder keeps
            // them literally) — accept Err, or Ok with exactly the WHATWG decoding; anything else is silent corruption
            let ps = PctStyle { plus_for_space: false, lower_hex: false, raw_legal: false, over_encode: false };
            let mut enc = String::new();
            pct(&r.query, ps, &mut enc);
            let bad = *pick(s, &["%", "%zz", "%4", "%g1", "%1g", "%%41", "%ff", "%c3", "%e2%82", "%41%", "%f0%9f%98"]);
            let at = {
                // insert between whole escapes / characters of the encoded text
                let cuts: Vec<usize> = (0..=enc.len()).filter(|i| enc.is_char_boundary(*i) && !(*i >= 1 && &enc[*i - 1..*i] == "%") && !(*i >= 2 && &enc[*i - 2..*i - 1] == "%")).collect();
                cuts[s.choose(cuts.len())]
            };
            enc.insert_str(at, bad);
            let qs = format!("query={}", enc);
            let text = format!("invalid percent escape {:?} in: {}", bad, qs);
            let c = match parse_query_string(&qs) {
                Err(_) => Case::pass(text).class("bad-percent-rejected"),
                Ok(got) => {
                    let want = whatwg_decode(&enc);
                    if got.query == want && got.operation_name.is_none() && got.variables.is_empty() && got.extensions.is_empty() {
                        Case::pass(text).class("bad-percent-kept-literally")
                    } else {
                        Case::fail(text, format!("accepted with content that is neither rejected nor the lenient decoding {:?}: {}", want, show_req(&got)))
                    }
                }
            };
            c.class("bad-percent")
        }
        7 => {
            // multipart whose operations part is malformed
            let (ops, what) = match sub % (if no_arrays { 2 } else { 3 }) {
                0 => {
                    let b = req_json(&r, pres, js);
                    let cut = b.char_indices().map(|(i, _)| i).nth(s.choose(b.chars().count())).unwrap_or(0);
                    (b[..cut].to_string(), "truncated")
                }
                1 => (wrong_type_json(s, &r, js).0, "wrong type"),
                _ => ("[]".to_string(), "empty batch"),
            };
            let parts = operations_parts(ops, s.bool());
            let boundary = gen_boundary(s, &parts);
            let mp = write_multipart(&boundary, &parts, MpStyle { preamble: false, trailing_crlf: s.bool() });
            let ct = format!("multipart/form-data; boundary={}", boundary);
            let text = format!("multipart with {} operations: content-type={} body={:?}", what, ct, lossy(&mp));
            must_reject(text, "a malformed operations part", decode_batch(&ct, &mp), show_batch).class("multipart-bad-operations")
        }
        8 => {
            // multipart without an operations part, or cut before the closing delimiter
            let mut parts = operations_parts(req_json(&r, pres, js), s.bool());
            let boundary = gen_boundary(s, &parts);
            let ct = format!("multipart/form-data; boundary={}", boundary);
            if sub == 0 {
                parts.remove(0);
                let mp = write_multipart(&boundary, &parts, MpStyle { preamble: false, trailing_crlf: true });
                let text = format!("multipart without operations part: content-type={} body={:?}", ct, lossy(&mp));
                must_reject(text, "a multipart body without operations", decode_batch(&ct, &mp), show_batch).class("multipart-no-operations")
            } else {
                let mp = write_multipart(&boundary, &parts, MpStyle { preamble: false, trailing_crlf: false });
                // everything up to (not including) the final "--" of the close delimiter is an incomplete body
                let cut = s.choose(mp.len() - 1);
                let b = &mp[..cut];
                let text = format!("multipart body cut at {} of {}: content-type={} body={:?}", cut, mp.len(), ct, lossy(b));
                must_reject(text, "a truncated multipart body", decode_batch(&ct, b), show_batch).class("multipart-truncated")
            }
        }
        _ => {
            // multipart content type without boundary / unparsable content type
            let ct = *pick(s, &["multipart/form-data", "multipart/form-data; charset=utf-8", "multipart/", "/", "", "application/json; =", ";"]);
            let body = req_json(&r, pres, js);
            let text = format!("content type {:?} with body {}", ct, body);
            must_reject(text, "a malformed content type", decode_batch(ct, body.as_bytes()), show_batch).class("bad-content-type")
        }
    };
    c.nontrivial(true)
}

// ---------------------------------------------------------------------------------------------------------
// batch execution order

struct EchoQuery {
    gates: Gates,
}
#[Object]
impl EchoQuery {
    /// completes when the schedule opens gate `r<id>`
    async fn echo(&self, id: i32) -> i32 {
        self.gates.wait(format!("r{}", id)).await;
        id
    }
    /// completes immediately
    async fn now(&self, id: i32) -> i32 {
        id
    }
}

#[derive(Clone, Copy, PartialEq, Debug)]
enum Kind {
    Gated,
    GatedVar,
    Immediate,
    Invalid,
}

/// Decode a JSON batch of `kinds.len()` requests, execute it with gates opened in `order` (a permutation of the
/// gated request indices) and compare the responses position by position.
fn batch_exec_case(kinds: &[Kind], order: &[usize]) -> Case {
    let gates = Gates::new();
    let schema = Schema::build(EchoQuery { gates: gates.clone() }, EmptyMutation, EmptySubscription).finish();
    let st = JStyle { ws: false, esc_non_ascii: false, esc_slash: false };
    let reqs: Vec<Req> = kinds
        .iter()
        .enumerate()
        .map(|(i, k)| {
            let mut vars = Map::new();
            let query = match k {
                Kind::Gated => format!("{{ echo(id: {}) }}", i),
                Kind::GatedVar => {
                    vars.insert("v".into(), Value::from(i as i64));
                    "query($v: Int!) { echo(id: $v) }".to_string()
                }
                Kind::Immediate => format!("{{ now(id: {}) }}", i),
                Kind::Invalid => format!("{{ nosuch{} }}", i),
            };
            Req { query, op: None, vars, ext: Map::new() }
        })
        .collect();
    let pres = Presence { op_none: 0, vars_empty: 0, ext_empty: 0, rot: 0 };
    let body = format!("[{}]", reqs.iter().map(|r| req_json(r, pres, st)).collect::<Vec<_>>().join(","));
    let text = format!("batch={} completion order of gated requests={:?}", body, order);
    let batch = match decode_batch("application/json", body.as_bytes()) {
        Err(e) => return Case::fail(text, format!("batch rejected: {}", e)),
        Ok(b) => b,
    };
    let want_labels: Vec<String> = order.iter().map(|i| format!("r{}", i)).collect();
    let mut next = 0usize;
    let labels = want_labels.clone();
    let sch = schema.clone();
    let res = run_with_gates(
        Box::pin(async move { sch.execute_batch(batch).await }),
        &gates,
        move |pending| {
            let k = pending.iter().position(|(_, l)| labels.get(next).map(|w| w == l).unwrap_or(false)).unwrap_or(0);
            next += 1;
            k
        },
        10_000,
    );
    let (resp, opened) = match res {
        None => return Case::fail(text, "execute_batch did not complete (stalled with no pending gate)"),
        Some(x) => x,
    };
    if opened != want_labels {
        return Case::fail(text, format!("harness: gates opened in order {:?}, wanted {:?}", opened, want_labels));
    }
    let rs = match resp {
        BatchResponse::Batch(v) => v,
        BatchResponse::Single(_) => return Case::fail(text, "a batch was answered with a single response"),
    };
    if rs.len() != kinds.len() {
        return Case::fail(text, format!("{} requests, {} responses", kinds.len(), rs.len()));
    }
    for (i, (k, r)) in kinds.iter().zip(rs.iter()).enumerate() {
        let data = serde_json::to_value(&r.data).unwrap_or(Value::Null);
        let ok = match k {
            Kind::Gated | Kind::GatedVar => r.errors.is_empty() && data == serde_json::json!({ "echo": i }),
            Kind::Immediate => r.errors.is_empty() && data == serde_json::json!({ "now": i }),
            Kind::Invalid => !r.errors.is_empty() && r.errors.iter().any(|e| e.message.contains(&format!("nosuch{}", i))),
        };
        if !ok {
            let all: Vec<String> = rs.iter().map(|r| serde_json::to_string(r).unwrap_or_default()).collect();
            return Case::fail(text, format!("response at position {} does not answer request {}: responses={:?}", i, i, all));
        }
    }
    let gated = order.len();
    let reordered = order.windows(2).any(|w| w[0] > w[1]);
    Case::pass(text).nontrivial(gated >= 2 && reordered).class_if(reordered, "completion-out-of-order").class_if(kinds.iter().any(|k| *k == Kind::Invalid), "batch-with-error-response")
}

fn permutations(items: &[usize]) -> Vec<Vec<usize>> {
    if items.len() <= 1 {
        return vec![items.to_vec()];
    }
    let mut out = vec![];
    for i in 0..items.len() {
        let mut rest = items.to_vec();
        let x = rest.remove(i);
        for mut p in permutations(&rest) {
            p.insert(0, x);
            out.push(p);
        }
    }
    out
}

pub fn run(ctx: &mut Ctx) {
    ctx.rule = "random requests (query text over & = % + # quotes, controls and non-ASCII; operation name absent / name / arbitrary text; variables and \
                extensions objects nested to depth 3 with arbitrary keys) written by own encoders as JSON body, batch element, GET query string and \
                multipart operations part, each decoded form compared with the original; malformed variants must be rejected; batches executed under \
                every / generated completion orders. non-trivial = query contains a transport-significant or non-ASCII character and variables are \
                non-empty (all-forms), every malformed case, every batch execution with >=2 gated requests completing out of request order"
        .into();
    ctx.assume("numbers in variables / extensions are i64, u64 near u64::MAX, or floats with short exact decimal forms (float parsing precision belongs to C15/C16)");
    ctx.assume("object keys are distinct; member order inside JSON objects is not significant (compared as JSON values)");
    ctx.assume("`query` is always present; an absent or null operationName means none; absent / null / {} variables and extensions mean empty");
    ctx.assume("GET encoding follows application/x-www-form-urlencoded: space as + or %20, everything outside unreserved (optionally pchar minus & + ;) percent-encoded as UTF-8");
    ctx.assume("don't-care: a `%` not followed by two hex digits, or escapes decoding to invalid UTF-8, in a query string — RFC 3986 calls it invalid, the WHATWG \
                form decoder keeps it literally / replaces with U+FFFD; accepted outcomes are Err, or Ok with exactly that lenient decoding");
    ctx.assume("`query: null` and unknown / duplicate members are not generated (unspecified)");
    ctx.assume("a multipart body cut anywhere before the final `--` of its close delimiter is malformed");

    let f1_open = ctx.open("C23-F1");
    if f1_open {
        // generator switch: the GET form of the main stream carries no operationName pair
        ctx.excluded("C23-F1");
    }
    let f2_open = ctx.open("C23-F2");
    if f2_open {
        // generator switch: the malformed stream writes no JSON array where a request object belongs (no empty batch)
        ctx.excluded("C23-F2");
    }
    let n = ctx.tier.pick(150_000u32, 4_000_000);

    // regression witness of C23-F1
    {
        let qs = "query=query+A%7Ba%7D+query+B%7Bb%7D&operationName=B";
        let text = format!("GET {}", qs);
        let c = match parse_query_string(qs) {
            Err(e) => Case::fail(text, format!("rejected: {}", e)),
            Ok(r) => {
                if r.operation_name.as_deref() == Some("B") && r.query == "query A{a} query B{b}" {
                    Case::pass(text)
                } else if f1_open && r.operation_name.is_none() && r.query == "query A{a} query B{b}" {
                    Case::known(text, vec!["C23-F1".into()])
                } else {
                    Case::fail(text, format!("decoded operation_name={:?} query={:?}", r.operation_name, r.query))
                }
            }
        };
        if ctx.check_case("witness", c.class("get-operationName"), serde_json::json!({ "query_string": qs })) {
            return;
        }
    }

    // regression witness of C23-F2
    {
        let text = "JSON body []".to_string();
        let c = match decode_batch("application/json", b"[]") {
            Err(_) => Case::pass(text),
            Ok(b) => {
                let empty = Req { query: String::new(), op: None, vars: Map::new(), ext: Map::new() };
                let single_default = match &b {
                    BatchRequest::Single(r) => differs(&empty, r).is_none(),
                    _ => false,
                };
                if f2_open && single_default {
                    Case::known(text, vec!["C23-F2".into()])
                } else {
                    Case::fail(text, format!("an empty batch was accepted: {}", show_batch(&b)))
                }
            }
        };
        if ctx.check_case("witness", c.class("empty-batch"), serde_json::json!({ "body": "[]" })) {
            return;
        }
    }

    ctx.stream("all-forms", n, 640, move |s| all_forms_case(s, !f1_open));
    ctx.stream("get-opname-probe", ctx.tier.pick(2_000, 50_000), 384, move |s| get_opname_case(s, f1_open));
    ctx.stream("malformed", 2 * n, 512, move |s| malformed_case(s, f2_open));
    ctx.stream("array-request-probe", ctx.tier.pick(2_000, 50_000), 512, move |s| array_request_case(s, f2_open));

    // batch execution: every completion order of every kind assignment up to 5 (thorough: 6) requests (bounded-exhaustive) …
    let t0 = Instant::now();
    let mut count = 0u64;
    let kinds_all = [Kind::Gated, Kind::GatedVar, Kind::Immediate, Kind::Invalid];
    let max_n = ctx.tier.pick(5usize, 6);
    let mut complete = true;
    'outer: for n in 1..=max_n {
        for code in 0..4usize.pow(n as u32) {
            let kinds: Vec<Kind> = (0..n).map(|i| kinds_all[(code / 4usize.pow(i as u32)) % 4]).collect();
            let gated: Vec<usize> = (0..n).filter(|i| matches!(kinds[*i], Kind::Gated | Kind::GatedVar)).collect();
            for order in permutations(&gated) {
                count += 1;
                if ctx.check_case("batch-order-enum", batch_exec_case(&kinds, &order), serde_json::json!({"kinds": format!("{:?}", kinds), "order": order})) {
                    complete = false;
                    break 'outer;
                }
            }
        }
    }
    ctx.enumerated("batch-order-enum", count, complete, t0);
    // … and generated larger batches
    ctx.stream("batch-order", ctx.tier.pick(20_000, 500_000), 48, |s| {
        let n = 2 + s.choose(7);
        let kinds: Vec<Kind> = (0..n).map(|_| [Kind::Gated, Kind::GatedVar, Kind::Immediate, Kind::Invalid][s.weighted(&[5, 3, 1, 1])]).collect();
        let mut gated: Vec<usize> = (0..n).filter(|i| matches!(kinds[*i], Kind::Gated | Kind::GatedVar)).collect();
        // index 0 = reverse order (the simplest adversarial schedule), else a generated permutation
        let order = if s.choose(3) == 0 {
            gated.reverse();
            gated
        } else {
            let mut o = vec![];
            while !gated.is_empty() {
                o.push(gated.remove(s.choose(gated.len())));
            }
            o
        };
        batch_exec_case(&kinds, &order)
    });

    ctx.floor("query-with-transport-specials", 2_000);
    ctx.floor("nested-variables", 2_000);
    ctx.floor("operation-name", 2_000);
    ctx.floor("truncated-json", 500);
    ctx.floor("bad-percent", 500);
    ctx.floor("completion-out-of-order", 500);
    ctx.floor("get-operationName", 500);
    ctx.floor("array-in-request-position", 500);
}
