//! C15 — values print as GraphQL literals and convert to JSON without loss.
use async_graphql_parser::parse_query;
use async_graphql_parser::types::{DocumentOperations, Selection};
use async_graphql_value::{ConstValue, Name, Number, Value};
use indexmap::IndexMap;
use vcore::gens::*;
use vcore::{Case, Ctx, Src};

fn gen_number(s: &mut dyn Src) -> Number {
    match s.choose(3) {
        0 => Number::from(gen_i64(s)),
        1 => Number::from(match s.choose(3) {
            0 => u64::MAX,
            1 => i64::MAX as u64 + 1 + s.choose(5) as u64,
            _ => s.u64(),
        }),
        _ => Number::from_f64(gen_f64_finite(s)).unwrap(),
    }
}

pub fn gen_const(s: &mut dyn Src, depth: usize) -> ConstValue {
    let k = if depth == 0 { s.choose(5) } else { s.weighted(&[2, 4, 5, 2, 3, 4, 4]) };
    match k {
        0 => ConstValue::Null,
        1 => ConstValue::Number(gen_number(s)),
        2 => ConstValue::String(gen_string(s, 8)),
        3 => ConstValue::Boolean(s.bool()),
        4 => ConstValue::Enum(Name::new(gen_enum_name(s))),
        5 => {
            let n = s.choose(4);
            ConstValue::List((0..n).map(|_| gen_const(s, depth - 1)).collect())
        }
        _ => {
            let n = s.choose(4);
            let mut m = IndexMap::new();
            for _ in 0..n {
                m.insert(Name::new(gen_name(s, 5)), gen_const(s, depth - 1));
            }
            ConstValue::Object(m)
        }
    }
}

fn gen_enum_name(s: &mut dyn Src) -> String {
    loop {
        let n = gen_name(s, 6);
        if n != "true" && n != "false" && n != "null" {
            return n;
        }
    }
}

/// non-const values: the same tree with some leaves replaced by variables
fn gen_value(s: &mut dyn Src, depth: usize) -> Value {
    if s.chance(1, 6) {
        return Value::Variable(Name::new(gen_name(s, 5)));
    }
    let k = if depth == 0 { s.choose(5) } else { s.weighted(&[2, 4, 5, 2, 3, 4, 4]) };
    match k {
        0 => Value::Null,
        1 => Value::Number(gen_number(s)),
        2 => Value::String(gen_string(s, 8)),
        3 => Value::Boolean(s.bool()),
        4 => Value::Enum(Name::new(gen_enum_name(s))),
        5 => {
            let n = s.choose(4);
            Value::List((0..n).map(|_| gen_value(s, depth - 1)).collect())
        }
        _ => {
            let n = s.choose(4);
            let mut m = IndexMap::new();
            for _ in 0..n {
                m.insert(Name::new(gen_name(s, 5)), gen_value(s, depth - 1));
            }
            Value::Object(m)
        }
    }
}

/// strict structural equality: numbers by kind and bits, object key order included
fn same(a: &Value, b: &Value) -> bool {
    match (a, b) {
        (Value::Null, Value::Null) => true,
        (Value::Variable(x), Value::Variable(y)) => x == y,
        (Value::Number(x), Value::Number(y)) => num_same(x, y),
        (Value::String(x), Value::String(y)) => x == y,
        (Value::Boolean(x), Value::Boolean(y)) => x == y,
        (Value::Enum(x), Value::Enum(y)) => x == y,
        (Value::List(x), Value::List(y)) => x.len() == y.len() && x.iter().zip(y).all(|(p, q)| same(p, q)),
        (Value::Object(x), Value::Object(y)) => {
            x.len() == y.len() && x.iter().zip(y).all(|((k1, v1), (k2, v2))| k1 == k2 && same(v1, v2))
        }
        _ => false,
    }
}
fn num_same(x: &Number, y: &Number) -> bool {
    if x.is_f64() != y.is_f64() {
        return false;
    }
    if x.is_f64() {
        return x.as_f64().map(f64::to_bits) == y.as_f64().map(f64::to_bits);
    }
    x.as_i64() == y.as_i64() && x.as_u64() == y.as_u64()
}

fn parse_arg(text: &str) -> Result<Value, String> {
    let doc = parse_query(format!("{{ f(a: {}) }}", text)).map_err(|e| format!("parse error: {}", e))?;
    let op = match &doc.operations {
        DocumentOperations::Single(op) => op,
        _ => return Err("not a single operation".into()),
    };
    match &op.node.selection_set.node.items[0].node {
        Selection::Field(f) => Ok(f.node.arguments[0].1.node.clone()),
        _ => Err("no field".into()),
    }
}

fn has_special(v: &Value, depth: usize) -> (bool, bool, bool) {
    // (special string or float at depth>=1, control char present, float present)
    match v {
        Value::String(s) => {
            let ctl = s.chars().any(|c| c.is_control());
            let sp = s.chars().any(|c| c.is_control() || c == '"' || c == '\\');
            (sp && depth >= 1, ctl, false)
        }
        Value::Number(n) => (n.is_f64() && depth >= 1, false, n.is_f64()),
        Value::List(l) => l.iter().map(|x| has_special(x, depth + 1)).fold((false, false, false), |a, b| (a.0 || b.0, a.1 || b.1, a.2 || b.2)),
        Value::Object(o) => o.values().map(|x| has_special(x, depth + 1)).fold((false, false, false), |a, b| (a.0 || b.0, a.1 || b.1, a.2 || b.2)),
        _ => (false, false, false),
    }
}

fn enums_to_strings(v: &ConstValue) -> ConstValue {
    match v {
        ConstValue::Enum(n) => ConstValue::String(n.to_string()),
        ConstValue::List(l) => ConstValue::List(l.iter().map(enums_to_strings).collect()),
        ConstValue::Object(o) => ConstValue::Object(o.iter().map(|(k, v)| (k.clone(), enums_to_strings(v))).collect()),
        x => x.clone(),
    }
}

fn print_case(v: &Value) -> Case {
    let text = v.to_string();
    let (nt, ctl, fl) = has_special(v, 0);
    let rendered = format!("value(debug)={:?} printed={}", v, text);
    let c = match parse_arg(&text) {
        Err(e) => Case::fail(rendered, format!("printed text does not parse back: {}", e)),
        Ok(back) => {
            if same(&back, v) {
                Case::pass(rendered)
            } else {
                Case::fail(rendered, format!("parse(print(v)) = {:?} differs from v", back))
            }
        }
    };
    c.nontrivial(nt).class_if(ctl, "control-char-in-string").class_if(fl, "float").class_if(matches!(v, Value::Object(_) | Value::List(_)), "nested")
}

pub fn run(ctx: &mut Ctx) {
    ctx.rule = "random ConstValue/Value trees (depth<=4; strings over control/quote/backslash/non-BMP classes; ints over i64/u64; finite floats); \
                non-trivial = a string containing a control character, quote or backslash, or a float, at depth>=1; distinct by rendered value".into();
    ctx.assume("Binary values are excluded (the statement lists null, numbers, strings, booleans, enums, lists, objects)");
    ctx.assume("object keys and enum names are valid GraphQL names; enum names are not true/false/null");
    let n = ctx.tier.pick(150_000, 3_000_000);

    // regression: every control character alone (C15-F1 was: \u escape printed in decimal)
    for cp in (0u32..0x20).chain(0x7f..0xa0) {
        let v = Value::String(format!("a{}b", char::from_u32(cp).unwrap()));
        let c = vcore::drive::catch(|| print_case(&Value::List(vec![v.clone()]))).unwrap_or_else(|p| Case::fail(format!("{:?}", v), format!("panic: {}", p)));
        if ctx.check_case("controls", c, serde_json::json!({"codepoint": cp})) {
            return;
        }
    }

    ctx.stream("print-const", n, 64, |s| {
        let v = gen_const(s, 4).into_value();
        print_case(&v)
    });
    ctx.stream("print-value", n / 4, 64, |s| {
        let v = gen_value(s, 4);
        print_case(&v).class("with-variables")
    });
    ctx.stream("json", n, 64, |s| {
        let v = gen_const(s, 4);
        let (nt, ctl, fl) = has_special(&v.clone().into_value(), 0);
        let rendered = format!("value(debug)={:?}", v);
        let j = match v.clone().into_json() {
            Ok(j) => j,
            Err(e) => return Case::fail(rendered, format!("into_json failed: {}", e)),
        };
        let expect = enums_to_strings(&v);
        let c = match ConstValue::from_json(j) {
            Ok(b1) => {
                if !same(&b1.clone().into_value(), &expect.into_value()) {
                    Case::fail(rendered, format!("from_json(into_json(v)) = {:?}", b1))
                } else {
                    Case::pass(rendered)
                }
            }
            Err(e) => Case::fail(rendered, format!("from_json failed: {}", e)),
        };
        c.nontrivial(nt).class_if(ctl, "control-char-in-string").class_if(fl, "float").class("json")
    });
}
