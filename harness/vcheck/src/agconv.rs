//! async-graphql parser AST -> harness AST (with positions), for comparison with the generating AST.
use async_graphql_parser::types as ag;
use async_graphql_parser::{Pos as APos, Positioned};
use async_graphql_value::{ConstValue, Value};
use vgql::ast::*;

fn pos(p: APos) -> Pos {
    Pos { line: p.line as u32, col: p.column as u32 }
}
fn name(n: &Positioned<async_graphql_value::Name>) -> Name {
    Name { pos: pos(n.pos), s: n.node.to_string() }
}
pub fn number(n: &async_graphql_value::Number) -> Val {
    if n.is_f64() {
        Val::Float(format!("f:{:016x}", n.as_f64().unwrap().to_bits()))
    } else if let Some(i) = n.as_i64() {
        Val::Int(i.to_string())
    } else {
        Val::Int(n.as_u64().unwrap().to_string())
    }
}
pub fn value(v: &Value) -> Val {
    match v {
        Value::Variable(n) => Val::Var(n.to_string()),
        Value::Null => Val::Null,
        Value::Number(n) => number(n),
        Value::String(s) => Val::Str(s.clone()),
        Value::Boolean(b) => Val::Bool(*b),
        Value::Binary(_) => Val::Str("<binary>".into()),
        Value::Enum(e) => Val::Enum(e.to_string()),
        Value::List(l) => Val::List(l.iter().map(|x| PVal::new(value(x))).collect()),
        Value::Object(o) => Val::Obj(o.iter().map(|(k, v)| (Name::new(k.as_str()), PVal::new(value(v)))).collect()),
    }
}
pub fn const_value(v: &ConstValue) -> Val {
    value(&v.clone().into_value())
}
pub fn ty(t: &ag::Type) -> Ty {
    let base = match &t.base {
        ag::BaseType::Named(n) => Ty::Named(n.to_string()),
        ag::BaseType::List(inner) => Ty::List(Box::new(ty(inner))),
    };
    if t.nullable {
        base
    } else {
        Ty::NonNull(Box::new(base))
    }
}
fn directives(ds: &[Positioned<ag::Directive>]) -> Vec<Directive> {
    ds.iter()
        .map(|d| Directive {
            pos: pos(d.pos),
            name: name(&d.node.name),
            args: d.node.arguments.iter().map(|(n, v)| (name(n), PVal { pos: pos(v.pos), v: value(&v.node) })).collect(),
        })
        .collect()
}
fn selset(s: &Positioned<ag::SelectionSet>) -> SelSet {
    if s.node.items.is_empty() {
        return SelSet::empty();
    }
    SelSet {
        pos: pos(s.pos),
        items: s
            .node
            .items
            .iter()
            .map(|it| match &it.node {
                ag::Selection::Field(f) => Selection::Field(Field {
                    pos: pos(f.pos),
                    alias: f.node.alias.as_ref().map(name),
                    name: name(&f.node.name),
                    args: f.node.arguments.iter().map(|(n, v)| (name(n), PVal { pos: pos(v.pos), v: value(&v.node) })).collect(),
                    directives: directives(&f.node.directives),
                    sel: selset(&f.node.selection_set),
                }),
                ag::Selection::InlineFragment(i) => Selection::Inline(Inline {
                    pos: pos(i.pos),
                    cond: i.node.type_condition.as_ref().map(|c| name(&c.node.on)),
                    cond_pos: i.node.type_condition.as_ref().map(|c| pos(c.pos)).unwrap_or_default(),
                    directives: directives(&i.node.directives),
                    sel: selset(&i.node.selection_set),
                }),
                ag::Selection::FragmentSpread(s) => Selection::Spread(Spread {
                    pos: pos(s.pos),
                    name: name(&s.node.fragment_name),
                    directives: directives(&s.node.directives),
                }),
            })
            .collect(),
    }
}

/// Converted document in normal form (definitions sorted, operations explicit, numbers canonical).
pub fn doc(d: &ag::ExecutableDocument) -> Doc {
    let mut defs = vec![];
    let mut op = |n: Option<&async_graphql_value::Name>, o: &Positioned<ag::OperationDefinition>| {
        Def::Op(OpDef {
            pos: pos(o.pos),
            explicit: true,
            kind: match o.node.ty {
                ag::OperationType::Query => OpKind::Query,
                ag::OperationType::Mutation => OpKind::Mutation,
                ag::OperationType::Subscription => OpKind::Subscription,
            },
            // the operation name's own position is not kept by async-graphql (it is the map key)
            name: n.map(|n| Name::new(n.as_str())),
            vars: o
                .node
                .variable_definitions
                .iter()
                .map(|v| VarDef {
                    pos: pos(v.pos),
                    name: name(&v.node.name),
                    ty: PTy { pos: pos(v.node.var_type.pos), ty: ty(&v.node.var_type.node) },
                    default: v.node.default_value.as_ref().map(|dv| PVal { pos: pos(dv.pos), v: const_value(&dv.node) }),
                    directives: directives(&v.node.directives),
                })
                .collect(),
            directives: directives(&o.node.directives),
            sel: selset(&o.node.selection_set),
        })
    };
    match &d.operations {
        ag::DocumentOperations::Single(o) => defs.push(op(None, o)),
        ag::DocumentOperations::Multiple(m) => {
            for (n, o) in m {
                defs.push(op(Some(n), o));
            }
        }
    }
    for (n, f) in &d.fragments {
        defs.push(Def::Frag(FragDef {
            pos: pos(f.pos),
            name: Name::new(n.as_str()),
            cond: name(&f.node.type_condition.node.on),
            cond_pos: pos(f.node.type_condition.pos),
            directives: directives(&f.node.directives),
            sel: selset(&f.node.selection_set),
        }));
    }
    let mut d = Doc { defs };
    normalize_defs(&mut d);
    d
}
