use vcore::drive::{install_panic_hook, parse_cli};
use vcore::Ctx;

mod c15;

fn main() {
    let args: Vec<String> = std::env::args().collect();
    if args.len() >= 3 && args[1] == "--child" {
        std::process::exit(child_main(&args[2], &args[3..]));
    }
    install_panic_hook();
    let (id, tier, replay) = parse_cli();
    let level = match id.as_str() {
        "C03" => "fault_enumeration",
        _ => "exploration",
    };
    let mut ctx = Ctx::new(&id, tier, level);
    if let Some(r) = replay {
        // replay files of enumerated cases carry no choice vector: those re-run the whole (deterministic) check
        let has_choices = vcore::drive::read_json(&r).map(|v| v["choices"].is_array()).unwrap_or(false);
        if has_choices {
            ctx.replay = Some(r);
        }
    }
    match id.as_str() {
        "C15" => c15::run(&mut ctx),
        _ => {
            eprintln!("unknown property {}", id);
            std::process::exit(2);
        }
    }
    ctx.finish();
}

fn child_main(mode: &str, _args: &[String]) -> i32 {
    match mode {
        _ => {
            eprintln!("unknown child mode {}", mode);
            2
        }
    }
}
