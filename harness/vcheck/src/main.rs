use vcore::drive::{install_panic_hook, parse_cli};
use vcore::Ctx;

// One cargo feature per property module (default = all), so that work in progress in one module cannot break
// the build of another: `cargo build --release --offline -p vcheck --no-default-features --features c13,c14`.
#[cfg(feature = "c01")]
mod c01;
#[cfg(feature = "c02")]
mod c02;
#[cfg(feature = "c03")]
mod c03;
#[cfg(feature = "c04")]
mod c04;
#[cfg(feature = "c05")]
mod c05;
#[cfg(feature = "c06")]
mod c06;
#[cfg(feature = "c07")]
mod c07;
#[cfg(feature = "c08")]
mod c08;
#[cfg(feature = "c09")]
mod c09;
#[cfg(feature = "c10")]
mod c10;
#[cfg(feature = "c11")]
mod c11;
#[cfg(feature = "c12")]
mod c12;
#[cfg(feature = "c13")]
mod c13;
#[cfg(feature = "c14")]
mod c14;
#[cfg(feature = "c15")]
mod c15;
#[cfg(feature = "c16")]
mod c16;
#[cfg(feature = "c17")]
mod c17;
#[cfg(feature = "c18")]
mod c18;
#[cfg(feature = "c19")]
mod c19;
#[cfg(feature = "c20")]
mod c20;
#[cfg(feature = "c21")]
mod c21;
#[cfg(feature = "c22")]
mod c22;
#[cfg(feature = "c23")]
mod c23;
#[cfg(feature = "c24")]
mod c24;
#[cfg(feature = "c25")]
mod c25;
#[cfg(feature = "c26")]
mod c26;
#[cfg(feature = "c27")]
mod c27;
#[cfg(feature = "c28")]
mod c28;
#[cfg(feature = "c29")]
mod c29;
#[cfg(feature = "c30")]
mod c30;
#[cfg(feature = "c31")]
mod c31;
#[cfg(feature = "c32")]
mod c32;
#[cfg(feature = "c33")]
mod c33;
#[cfg(feature = "c34")]
mod c34;
#[allow(dead_code)]
mod agconv;
mod children;
#[allow(dead_code)]
mod execcmp;

fn main() {
    // generators and the code under test recurse over documents: run on a roomy stack
    // watchdog: a check that does not finish is inconclusive (exit 2), never a verdict
    let args: Vec<String> = std::env::args().collect();
    if !(args.len() >= 2 && args[1] == "--child") {
        let thorough = args.get(2).map_or(false, |t| t == "thorough");
        let limit = std::env::var("VERIF_WATCHDOG_S").ok().and_then(|v| v.parse::<u64>().ok()).unwrap_or(if thorough { 6 * 3600 } else { 3600 });
        std::thread::spawn(move || {
            std::thread::sleep(std::time::Duration::from_secs(limit));
            eprintln!("INCONCLUSIVE: the check did not finish within {} s (watchdog)", limit);
            std::process::exit(2);
        });
    }
    let h = std::thread::Builder::new().stack_size(256 << 20).spawn(real_main).unwrap();
    if h.join().is_err() {
        // nothing may end a check silently: a panic that escaped every guard is a broken run, not a pass
        eprintln!("INCONCLUSIVE: the check thread panicked outside every guard");
        std::process::exit(2);
    }
}

fn real_main() {
    let args: Vec<String> = std::env::args().collect();
    if args.len() >= 3 && args[1] == "--child" {
        std::process::exit(children::child_main(&args[2], &args[3..]));
    }
    install_panic_hook();
    let (id, tier, replay) = parse_cli();
    let level = match id.as_str() {
        "C03" => "fault_enumeration",
        _ => "exploration",
    };
    let mut ctx = Ctx::new(&id, tier, level);
    if let Some(r) = replay {
        // replay files of enumerated cases carry no choice vector: those re-run the whole (deterministic) check
        let has_choices = vcore::drive::read_json(&r).map(|v| v["choices"].is_array()).unwrap_or(false);
        if has_choices {
            ctx.replay = Some(r);
        }
    }
    let dispatched = vcore::drive::catch(std::panic::AssertUnwindSafe(|| match id.as_str() {
        #[cfg(feature = "c01")]
        "C01" => c01::run(&mut ctx),
        #[cfg(feature = "c02")]
        "C02" => c02::run(&mut ctx),
        #[cfg(feature = "c03")]
        "C03" => c03::run(&mut ctx),
        #[cfg(feature = "c04")]
        "C04" => c04::run(&mut ctx),
        #[cfg(feature = "c05")]
        "C05" => c05::run(&mut ctx),
        #[cfg(feature = "c06")]
        "C06" => c06::run(&mut ctx),
        #[cfg(feature = "c07")]
        "C07" => c07::run(&mut ctx),
        #[cfg(feature = "c08")]
        "C08" => c08::run(&mut ctx),
        #[cfg(feature = "c09")]
        "C09" => c09::run(&mut ctx),
        #[cfg(feature = "c10")]
        "C10" => c10::run(&mut ctx),
        #[cfg(feature = "c11")]
        "C11" => c11::run(&mut ctx),
        #[cfg(feature = "c12")]
        "C12" => c12::run(&mut ctx),
        #[cfg(feature = "c13")]
        "C13" => c13::run(&mut ctx),
        #[cfg(feature = "c14")]
        "C14" => c14::run(&mut ctx),
        #[cfg(feature = "c15")]
        "C15" => c15::run(&mut ctx),
        #[cfg(feature = "c16")]
        "C16" => c16::run(&mut ctx),
        #[cfg(feature = "c17")]
        "C17" => c17::run(&mut ctx),
        #[cfg(feature = "c18")]
        "C18" => c18::run(&mut ctx),
        #[cfg(feature = "c19")]
        "C19" => c19::run(&mut ctx),
        #[cfg(feature = "c20")]
        "C20" => c20::run(&mut ctx),
        #[cfg(feature = "c21")]
        "C21" => c21::run(&mut ctx),
        #[cfg(feature = "c22")]
        "C22" => c22::run(&mut ctx),
        #[cfg(feature = "c23")]
        "C23" => c23::run(&mut ctx),
        #[cfg(feature = "c24")]
        "C24" => c24::run(&mut ctx),
        #[cfg(feature = "c25")]
        "C25" => c25::run(&mut ctx),
        #[cfg(feature = "c26")]
        "C26" => c26::run(&mut ctx),
        #[cfg(feature = "c27")]
        "C27" => c27::run(&mut ctx),
        #[cfg(feature = "c28")]
        "C28" => c28::run(&mut ctx),
        #[cfg(feature = "c29")]
        "C29" => c29::run(&mut ctx),
        #[cfg(feature = "c30")]
        "C30" => c30::run(&mut ctx),
        #[cfg(feature = "c31")]
        "C31" => c31::run(&mut ctx),
        #[cfg(feature = "c32")]
        "C32" => c32::run(&mut ctx),
        #[cfg(feature = "c33")]
        "C33" => c33::run(&mut ctx),
        #[cfg(feature = "c34")]
        "C34" => c34::run(&mut ctx),
        _ => {
            eprintln!("unknown property {} (or its module is not compiled in)", id);
            std::process::exit(2);
        }
    }));
    if let Err(panic) = dispatched {
        // A panic outside a generated case (set-up code, hand-written witnesses). Raised by the harness's own code
        // it says nothing about the property (exit 2); raised inside async-graphql it is a crash of the code under
        // test on an input the check feeds it on purpose.
        let in_harness = ["/vcheck/src/", "/vgql/src/", "/vcore/src/", "/vschemas/src/", "vcheck/src/", "vgql/src/", "vcore/src/", "vschemas/src/"].iter().any(|p| panic.rsplit(" @ ").next().unwrap_or("").contains(p));
        if in_harness {
            eprintln!("INCONCLUSIVE: harness panic outside a case: {}", panic);
            std::process::exit(2);
        }
        let c = vcore::Case::fail("(outside a generated case: set-up code or a hand-written witness of this check)", format!("panic in the code under test: {}", panic));
        ctx.violation("unguarded", None, &c, serde_json::json!({"panic": panic}));
    }
    ctx.finish();
}
