use vcore::drive::{install_panic_hook, parse_cli};
use vcore::Ctx;

mod c01;
mod c02;
mod c03;
mod c04;
mod c05;
mod c06;
mod c07;
mod c08;
mod c09;
mod c10;
mod c11;
mod c12;
mod c13;
mod c14;
mod c15;
mod c16;
mod c17;
mod c18;
mod c19;
mod c20;
mod c21;
mod c22;
mod c23;
mod c24;
mod c25;
mod c26;
mod c27;
mod c28;
mod c29;
mod c30;
mod c31;
mod c32;
mod c33;
mod c34;
mod children;

fn main() {
    let args: Vec<String> = std::env::args().collect();
    if args.len() >= 3 && args[1] == "--child" {
        std::process::exit(children::child_main(&args[2], &args[3..]));
    }
    install_panic_hook();
    let (id, tier, replay) = parse_cli();
    let level = match id.as_str() {
        "C03" => "fault_enumeration",
        _ => "exploration",
    };
    let mut ctx = Ctx::new(&id, tier, level);
    if let Some(r) = replay {
        // replay files of enumerated cases carry no choice vector: those re-run the whole (deterministic) check
        let has_choices = vcore::drive::read_json(&r).map(|v| v["choices"].is_array()).unwrap_or(false);
        if has_choices {
            ctx.replay = Some(r);
        }
    }
    match id.as_str() {
        "C01" => c01::run(&mut ctx),
        "C02" => c02::run(&mut ctx),
        "C03" => c03::run(&mut ctx),
        "C04" => c04::run(&mut ctx),
        "C05" => c05::run(&mut ctx),
        "C06" => c06::run(&mut ctx),
        "C07" => c07::run(&mut ctx),
        "C08" => c08::run(&mut ctx),
        "C09" => c09::run(&mut ctx),
        "C10" => c10::run(&mut ctx),
        "C11" => c11::run(&mut ctx),
        "C12" => c12::run(&mut ctx),
        "C13" => c13::run(&mut ctx),
        "C14" => c14::run(&mut ctx),
        "C15" => c15::run(&mut ctx),
        "C16" => c16::run(&mut ctx),
        "C17" => c17::run(&mut ctx),
        "C18" => c18::run(&mut ctx),
        "C19" => c19::run(&mut ctx),
        "C20" => c20::run(&mut ctx),
        "C21" => c21::run(&mut ctx),
        "C22" => c22::run(&mut ctx),
        "C23" => c23::run(&mut ctx),
        "C24" => c24::run(&mut ctx),
        "C25" => c25::run(&mut ctx),
        "C26" => c26::run(&mut ctx),
        "C27" => c27::run(&mut ctx),
        "C28" => c28::run(&mut ctx),
        "C29" => c29::run(&mut ctx),
        "C30" => c30::run(&mut ctx),
        "C31" => c31::run(&mut ctx),
        "C32" => c32::run(&mut ctx),
        "C33" => c33::run(&mut ctx),
        "C34" => c34::run(&mut ctx),
        _ => {
            eprintln!("unknown property {}", id);
            std::process::exit(2);
        }
    }
    ctx.finish();
}
