//! Child-process entry points (cases that may abort the process run here).

pub fn child_main(mode: &str, args: &[String]) -> i32 {
    match mode {
        #[cfg(feature = "c12")]
        "c12" => {
            vcore::drive::install_panic_hook();
            let tier = if args.first().map(|s| s.as_str()) == Some("thorough") { vcore::Tier::Thorough } else { vcore::Tier::Quick };
            let mut ctx = vcore::Ctx::new("C12", tier, "exploration");
            if let Some(i) = args.iter().position(|a| a == "--replay") {
                if let Some(p) = args.get(i + 1) {
                    ctx.replay = Some(std::path::PathBuf::from(p));
                }
            }
            // run on a roomy thread; each case spawns its own 2 MiB thread
            let h = std::thread::Builder::new().stack_size(64 << 20).spawn(move || {
                crate::c12::run_child(&mut ctx);
                ctx.finish();
            });
            let _ = h.map(|h| h.join());
            0
        }
        _ => {
            eprintln!("unknown child mode {}", mode);
            let _ = args;
            2
        }
    }
}
