//! Child-process entry points (cases that may abort the process run here).

pub fn child_main(mode: &str, _args: &[String]) -> i32 {
    match mode {
        _ => {
            eprintln!("unknown child mode {}", mode);
            2
        }
    }
}
