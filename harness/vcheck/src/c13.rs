//! C13 — the parser accepts exactly GraphQL documents and builds the tree they denote.
//! Positive direction: documents printed from generated ASTs (random trivia, escapes, block strings) must parse
//! to the generating tree. Negative direction: near-miss mutations are judged by the reference parser
//! (vgql::refparse, written from the specification) — accept iff it accepts; when both accept, equal trees.
use crate::agconv;
use async_graphql_parser::types as ag;
use async_graphql_parser::{parse_query, parse_schema};
use vcore::{Case, Ctx, Src};
use vgql::ast::*;
use vgql::gendoc::*;
use vgql::print::{Printer, Style};
use vgql::refparse::{self, *};

pub struct Printed {
    pub text: String,
    pub doc: Doc,
    pub classes: Vec<&'static str>,
    pub nontrivial: bool,
}

/// style switches for the constructs of OPEN findings (excluded by construction from the main streams)
#[derive(Clone, Copy)]
pub struct Excl {
    pub type_trivia: bool,
    pub comment_after_on: bool,
    pub block_escaped_quotes: bool,
    pub default_then_directive: bool,
}
impl Excl {
    pub fn from_ctx(ctx: &mut Ctx) -> Excl {
        Excl {
            type_trivia: ctx.open("C13-F1"),
            default_then_directive: ctx.open("C13-F3"),
            block_escaped_quotes: ctx.open("C13-F4"),
            comment_after_on: ctx.open("C13-F6"),
        }
    }
    pub fn none() -> Excl {
        Excl { type_trivia: false, comment_after_on: false, block_escaped_quotes: false, default_then_directive: false }
    }
}

pub fn style<'a>(s: &'a mut dyn Src, ex: Excl) -> Style<'a> {
    let mut st = Style::fuzzy(s);
    st.trivia_in_types = !ex.type_trivia;
    st.comment_after_on = !ex.comment_after_on;
    st.block_escaped_quotes = !ex.block_escaped_quotes;
    st
}

pub fn gen_printed_exec(s: &mut dyn Src, ex: Excl) -> Printed {
    let cfg = GenCfg { default_then_directive: !ex.default_then_directive, ..GenCfg::default() };
    let mut doc = gen_exec_doc(s, &cfg);
    let mut p = Printer::new(style(s, ex));
    p.doc(&mut doc);
    let mut classes = vec![];
    if p.n_lone_cr > 0 {
        classes.push("lone-cr");
    }
    if p.n_crlf > 0 {
        classes.push("crlf");
    }
    if p.n_comments > 0 {
        classes.push("comment");
    }
    if p.n_bom > 0 {
        classes.push("bom");
    }
    if p.n_block_strings > 0 {
        classes.push("block-string");
    }
    if p.n_block_indented > 0 {
        classes.push("block-string-indented");
    }
    if p.n_escapes > 0 {
        classes.push("string-escape");
    }
    if p.n_nonascii_trivia > 0 {
        classes.push("non-ascii-in-comment");
    }
    let has_list_ty = doc.ops().any(|o| o.vars.iter().any(|v| v.ty.ty.is_list()));
    if has_list_ty {
        classes.push("list-type");
    }
    let nontrivial = p.n_escapes > 0 || p.n_block_indented > 0 || has_list_ty;
    Printed { text: p.out, doc, classes, nontrivial }
}

fn numbers_in_domain(d: &Doc) -> bool {
    // ints must fit i64/u64 and not be "-0"; floats must be finite in f64 (what such literals denote in a
    // 64-bit value model is unspecified)
    fn val(v: &PVal) -> bool {
        match &v.v {
            Val::Int(t) => t != "-0" && (t.parse::<i64>().is_ok() || t.parse::<u64>().is_ok()),
            Val::Float(t) => t.parse::<f64>().map_or(false, |f| f.is_finite()),
            Val::List(l) => l.iter().all(val),
            Val::Obj(o) => o.iter().all(|(_, v)| val(v)),
            _ => true,
        }
    }
    fn dirs(ds: &[Directive]) -> bool {
        ds.iter().all(|d| d.args.iter().all(|(_, v)| val(v)))
    }
    fn sel(s: &SelSet) -> bool {
        s.items.iter().all(|it| match it {
            Selection::Field(f) => f.args.iter().all(|(_, v)| val(v)) && dirs(&f.directives) && sel(&f.sel),
            Selection::Inline(i) => dirs(&i.directives) && sel(&i.sel),
            Selection::Spread(s) => dirs(&s.directives),
        })
    }
    d.defs.iter().all(|def| match def {
        Def::Op(o) => o.vars.iter().all(|v| v.default.as_ref().map_or(true, val) && dirs(&v.directives)) && dirs(&o.directives) && sel(&o.sel),
        Def::Frag(f) => dirs(&f.directives) && sel(&f.sel),
    })
}

fn defs_in_domain(d: &Doc) -> bool {
    // async-graphql keeps operations and fragments in maps and therefore rejects, at parse time, duplicates and
    // anonymous operations next to others; such documents are invalid anyway (validation rules) and are outside
    // the compared domain
    let mut names = std::collections::HashSet::new();
    let nops = d.ops().count();
    if nops == 0 {
        // a document of fragment definitions only is grammatical, but parse_query returns "the" operations and
        // rejects it by design (and it is invalid: its fragments are unused)
        return false;
    }
    for o in d.ops() {
        match &o.name {
            None => {
                if nops > 1 {
                    return false;
                }
            }
            Some(n) => {
                if !names.insert(n.s.clone()) {
                    return false;
                }
            }
        }
    }
    let mut f = std::collections::HashSet::new();
    d.frags().all(|x| f.insert(x.name.s.clone()))
}

pub fn normal(d: &Doc) -> Doc {
    let mut d = strip_doc(d);
    canon_numbers(&mut d);
    normalize_defs(&mut d);
    d
}

fn first_diff(a: &Doc, b: &Doc) -> String {
    let sa = format!("{:#?}", a);
    let sb = format!("{:#?}", b);
    for (i, (x, y)) in sa.lines().zip(sb.lines()).enumerate() {
        if x != y {
            return format!("line {} of debug tree: expected `{}` got `{}`", i, x.trim(), y.trim());
        }
    }
    format!("trees differ in length ({} vs {} lines)", sa.lines().count(), sb.lines().count())
}

fn dup_object_keys(d: &Doc) -> bool {
    fn val(v: &PVal) -> bool {
        match &v.v {
            Val::List(l) => l.iter().any(val),
            Val::Obj(o) => {
                let mut k = std::collections::HashSet::new();
                !o.iter().all(|(n, _)| k.insert(n.s.clone())) || o.iter().any(|(_, v)| val(v))
            }
            _ => false,
        }
    }
    fn dirs(ds: &[Directive]) -> bool {
        ds.iter().any(|d| d.args.iter().any(|(_, v)| val(v)))
    }
    fn sel(s: &SelSet) -> bool {
        s.items.iter().any(|it| match it {
            Selection::Field(f) => f.args.iter().any(|(_, v)| val(v)) || dirs(&f.directives) || sel(&f.sel),
            Selection::Inline(i) => dirs(&i.directives) || sel(&i.sel),
            Selection::Spread(s) => dirs(&s.directives),
        })
    }
    d.defs.iter().any(|def| match def {
        Def::Op(o) => o.vars.iter().any(|v| v.default.as_ref().map_or(false, val) || dirs(&v.directives)) || dirs(&o.directives) || sel(&o.sel),
        Def::Frag(f) => dirs(&f.directives) || sel(&f.sel),
    })
}

/// judge one executable text against the reference parser. `f2_open`: known finding C13-F2 is listed as open
/// (variable directives are also accepted before the default value).
pub fn judge_exec(text: &str, f2_open: bool) -> (Result<(), String>, &'static str) {
    if has_dont_care_chars(text) {
        return (Ok(()), "dont-care-chars");
    }
    let opts = Opts::default();
    let r = parse_executable(text, &opts);
    let a = parse_query(text);
    match (r, a) {
        (Err(e), Ok(ad)) => {
            if e.dont_care {
                return (Ok(()), "dont-care");
            }
            if f2_open {
                // quirk: identical to the specification grammar except that `$v: T @d = dv` is accepted too
                let q = Opts { legacy_var_directive_order: true, ..Opts::default() };
                if let Ok(rd) = parse_executable(text, &q) {
                    if !defs_in_domain(&rd) || !numbers_in_domain(&rd) || dup_object_keys(&rd) {
                        return (Ok(()), "dont-care");
                    }
                    if normal(&rd) == normal(&agconv::doc(&ad)) {
                        return (Ok(()), "KNOWN:C13-F2");
                    }
                }
            }
            (Err(format!("accepted, but the reference parser rejects it at {}:{}: {}", e.pos.line, e.pos.col, e.msg)), "ref-reject")
        }
        (Err(_), Err(_)) => (Ok(()), "both-reject"),
        (Ok(rd), a) => {
            if !defs_in_domain(&rd) {
                return (Ok(()), "dup-defs");
            }
            if !numbers_in_domain(&rd) {
                return (Ok(()), "number-out-of-model");
            }
            if dup_object_keys(&rd) {
                return (Ok(()), "dup-object-keys");
            }
            let depth = refparse::sel_depth(&rd);
            match a {
                Err(e) => {
                    // documented deviation: nesting limit 64 (depth 65 is a boundary band where neither verdict is
                    // demanded: "at most 64 levels deep" can be read with or without the root set)
                    if depth >= 65 {
                        return (Ok(()), "deep");
                    }
                    (Err(format!("rejected ({}), but it is a GraphQL document", e.to_string().replace('\n', " "))), "ag-reject")
                }
                Ok(ad) => {
                    if depth >= 66 {
                        return (Err(format!("accepted a document nesting {} selection sets (documented limit 64)", depth)), "deep-accepted");
                    }
                    let x = normal(&rd);
                    let y = normal(&agconv::doc(&ad));
                    if x == y {
                        (Ok(()), "both-accept")
                    } else {
                        (Err(format!("parsed tree differs from the denoted tree: {}", first_diff(&x, &y))), "tree-diff")
                    }
                }
            }
        }
    }
}

// ------------------------------------------------------------------ service documents

fn sdl_dirs(ds: &[async_graphql_parser::Positioned<ag::ConstDirective>]) -> Vec<Directive> {
    ds.iter()
        .map(|d| Directive {
            pos: Pos::default(),
            name: Name::new(d.node.name.node.as_str()),
            args: d.node.arguments.iter().map(|(n, v)| (Name::new(n.node.as_str()), PVal::new(agconv::const_value(&v.node)))).collect(),
        })
        .collect()
}
fn sdl_input(i: &ag::InputValueDefinition) -> InputDefn {
    InputDefn {
        desc: i.description.as_ref().map(|d| d.node.clone()),
        name: i.name.node.to_string(),
        ty: agconv::ty(&i.ty.node),
        default: i.default_value.as_ref().map(|v| agconv::const_value(&v.node)),
        directives: sdl_dirs(&i.directives),
    }
}
fn sdl_fields(fs: &[async_graphql_parser::Positioned<ag::FieldDefinition>]) -> Vec<FieldDefn> {
    fs.iter()
        .map(|f| FieldDefn {
            desc: f.node.description.as_ref().map(|d| d.node.clone()),
            name: f.node.name.node.to_string(),
            args: f.node.arguments.iter().map(|a| sdl_input(&a.node)).collect(),
            ty: agconv::ty(&f.node.ty.node),
            directives: sdl_dirs(&f.node.directives),
        })
        .collect()
}
fn loc_name(l: ag::DirectiveLocation) -> &'static str {
    use ag::DirectiveLocation::*;
    match l {
        Query => "QUERY",
        Mutation => "MUTATION",
        Subscription => "SUBSCRIPTION",
        Field => "FIELD",
        FragmentDefinition => "FRAGMENT_DEFINITION",
        FragmentSpread => "FRAGMENT_SPREAD",
        InlineFragment => "INLINE_FRAGMENT",
        Schema => "SCHEMA",
        Scalar => "SCALAR",
        Object => "OBJECT",
        FieldDefinition => "FIELD_DEFINITION",
        ArgumentDefinition => "ARGUMENT_DEFINITION",
        Interface => "INTERFACE",
        Union => "UNION",
        Enum => "ENUM",
        EnumValue => "ENUM_VALUE",
        InputObject => "INPUT_OBJECT",
        InputFieldDefinition => "INPUT_FIELD_DEFINITION",
        VariableDefinition => "VARIABLE_DEFINITION",
    }
}
pub fn sdl_doc(d: &ag::ServiceDocument) -> SdlDoc {
    let mut defs = vec![];
    for def in &d.definitions {
        match def {
            ag::TypeSystemDefinition::Schema(s) => {
                let mut ops = vec![];
                if let Some(q) = &s.node.query {
                    ops.push((OpKind::Query, q.node.to_string()));
                }
                if let Some(q) = &s.node.mutation {
                    ops.push((OpKind::Mutation, q.node.to_string()));
                }
                if let Some(q) = &s.node.subscription {
                    ops.push((OpKind::Subscription, q.node.to_string()));
                }
                defs.push(SdlDef::Schema(SchemaDefn { extend: s.node.extend, desc: s.node.description.as_ref().map(|d| d.node.clone()), directives: sdl_dirs(&s.node.directives), ops }));
            }
            ag::TypeSystemDefinition::Directive(dd) => defs.push(SdlDef::Directive(DirectiveDefn {
                desc: dd.node.description.as_ref().map(|d| d.node.clone()),
                name: dd.node.name.node.to_string(),
                args: dd.node.arguments.iter().map(|a| sdl_input(&a.node)).collect(),
                repeatable: dd.node.is_repeatable,
                locations: dd.node.locations.iter().map(|l| loc_name(l.node).to_string()).collect(),
            })),
            ag::TypeSystemDefinition::Type(t) => {
                let mut td = TypeDefn {
                    extend: t.node.extend,
                    desc: t.node.description.as_ref().map(|d| d.node.clone()),
                    kind: TKind::Scalar,
                    name: t.node.name.node.to_string(),
                    interfaces: vec![],
                    directives: sdl_dirs(&t.node.directives),
                    fields: vec![],
                    members: vec![],
                    values: vec![],
                    input_fields: vec![],
                };
                match &t.node.kind {
                    ag::TypeKind::Scalar => {}
                    ag::TypeKind::Object(o) => {
                        td.kind = TKind::Object;
                        td.interfaces = o.implements.iter().map(|n| n.node.to_string()).collect();
                        td.fields = sdl_fields(&o.fields);
                    }
                    ag::TypeKind::Interface(o) => {
                        td.kind = TKind::Interface;
                        td.interfaces = o.implements.iter().map(|n| n.node.to_string()).collect();
                        td.fields = sdl_fields(&o.fields);
                    }
                    ag::TypeKind::Union(u) => {
                        td.kind = TKind::Union;
                        td.members = u.members.iter().map(|n| n.node.to_string()).collect();
                    }
                    ag::TypeKind::Enum(e) => {
                        td.kind = TKind::Enum;
                        td.values = e
                            .values
                            .iter()
                            .map(|v| EnumValDefn {
                                desc: v.node.description.as_ref().map(|d| d.node.clone()),
                                name: v.node.value.node.to_string(),
                                directives: sdl_dirs(&v.node.directives),
                            })
                            .collect();
                    }
                    ag::TypeKind::InputObject(i) => {
                        td.kind = TKind::Input;
                        td.input_fields = i.fields.iter().map(|f| sdl_input(&f.node)).collect();
                    }
                }
                defs.push(SdlDef::Type(td));
            }
        }
    }
    SdlDoc { defs }
}

fn sdl_normal(d: &SdlDoc) -> SdlDoc {
    // canonical numbers + position-free values
    fn val(v: &mut Val) {
        match v {
            Val::Int(t) => {
                if let Ok(i) = t.parse::<i128>() {
                    *t = i.to_string()
                }
            }
            Val::Float(t) => {
                if let Ok(f) = t.parse::<f64>() {
                    *t = format!("f:{:016x}", f.to_bits())
                }
            }
            Val::List(l) => l.iter_mut().for_each(|x| {
                x.pos = Pos::default();
                val(&mut x.v)
            }),
            Val::Obj(o) => o.iter_mut().for_each(|(n, x)| {
                n.pos = Pos::default();
                x.pos = Pos::default();
                val(&mut x.v)
            }),
            _ => {}
        }
    }
    fn dirs(ds: &mut Vec<Directive>) {
        for d in ds {
            d.pos = Pos::default();
            d.name.pos = Pos::default();
            for (n, v) in &mut d.args {
                n.pos = Pos::default();
                v.pos = Pos::default();
                val(&mut v.v);
            }
        }
    }
    fn input(i: &mut InputDefn) {
        if let Some(v) = &mut i.default {
            val(v);
        }
        dirs(&mut i.directives);
    }
    let mut d = d.clone();
    for def in &mut d.defs {
        match def {
            SdlDef::Schema(s) => dirs(&mut s.directives),
            SdlDef::Directive(dd) => dd.args.iter_mut().for_each(input),
            SdlDef::Type(t) => {
                dirs(&mut t.directives);
                for f in &mut t.fields {
                    f.args.iter_mut().for_each(input);
                    dirs(&mut f.directives);
                }
                for v in &mut t.values {
                    dirs(&mut v.directives);
                }
                t.input_fields.iter_mut().for_each(input);
            }
        }
    }
    d
}

fn sdl_numbers_in_domain(d: &SdlDoc) -> bool {
    let t = format!("{:?}", d);
    // cheap: re-use the exec checker through a synthetic walk is overkill; scan values
    fn val(v: &Val) -> bool {
        match v {
            Val::Int(t) => t != "-0" && (t.parse::<i64>().is_ok() || t.parse::<u64>().is_ok()),
            Val::Float(t) => t.parse::<f64>().map_or(false, |f| f.is_finite()),
            Val::List(l) => l.iter().all(|x| val(&x.v)),
            Val::Obj(o) => o.iter().all(|(_, x)| val(&x.v)),
            _ => true,
        }
    }
    let _ = t;
    fn dirs(ds: &[Directive]) -> bool {
        ds.iter().all(|d| d.args.iter().all(|(_, v)| val(&v.v)))
    }
    fn input(i: &InputDefn) -> bool {
        i.default.as_ref().map_or(true, val) && dirs(&i.directives)
    }
    d.defs.iter().all(|def| match def {
        SdlDef::Schema(s) => dirs(&s.directives),
        SdlDef::Directive(dd) => dd.args.iter().all(input),
        SdlDef::Type(t) => {
            dirs(&t.directives)
                && t.fields.iter().all(|f| f.args.iter().all(input) && dirs(&f.directives))
                && t.values.iter().all(|v| dirs(&v.directives))
                && t.input_fields.iter().all(input)
        }
    })
}

fn sdl_dup_keys(d: &SdlDoc) -> bool {
    fn val(v: &Val) -> bool {
        match v {
            Val::List(l) => l.iter().any(|x| val(&x.v)),
            Val::Obj(o) => {
                let mut k = std::collections::HashSet::new();
                !o.iter().all(|(n, _)| k.insert(n.s.clone())) || o.iter().any(|(_, x)| val(&x.v))
            }
            _ => false,
        }
    }
    fn dirs(ds: &[Directive]) -> bool {
        ds.iter().any(|d| d.args.iter().any(|(_, v)| val(&v.v)))
    }
    fn input(i: &InputDefn) -> bool {
        i.default.as_ref().map_or(false, val) || dirs(&i.directives)
    }
    d.defs.iter().any(|def| match def {
        SdlDef::Schema(s) => dirs(&s.directives),
        SdlDef::Directive(dd) => dd.args.iter().any(input),
        SdlDef::Type(t) => {
            dirs(&t.directives)
                || t.fields.iter().any(|f| f.args.iter().any(input) || dirs(&f.directives))
                || t.values.iter().any(|v| dirs(&v.directives))
                || t.input_fields.iter().any(input)
        }
    })
}

pub fn judge_sdl(text: &str) -> (Result<(), String>, &'static str) {
    if has_dont_care_chars(text) {
        return (Ok(()), "dont-care-chars");
    }
    let opts = Opts::default();
    let r = parse_type_system(text, &opts);
    let a = parse_schema(text);
    match (r, a) {
        (Err(e), Ok(_)) => {
            if e.dont_care {
                return (Ok(()), "dont-care");
            }
            (Err(format!("accepted, but the reference parser rejects it at {}:{}: {}", e.pos.line, e.pos.col, e.msg)), "ref-reject")
        }
        (Err(_), Err(_)) => (Ok(()), "both-reject"),
        (Ok(rd), a) => {
            if !sdl_numbers_in_domain(&rd) {
                return (Ok(()), "number-out-of-model");
            }
            // a schema definition naming the same operation type twice cannot be represented by the tree, and one
            // without a query root is rejected at parse time by design (type-system validity, not grammar)
            for d in &rd.defs {
                if let SdlDef::Schema(s) = d {
                    let mut k = std::collections::HashSet::new();
                    if !s.ops.iter().all(|(o, _)| k.insert(*o)) {
                        return (Ok(()), "dup-root-op");
                    }
                    if !s.extend && !s.ops.iter().any(|(o, _)| *o == OpKind::Query) {
                        return (Ok(()), "no-query-root");
                    }
                }
            }
            if format!("{:?}", rd).contains("Obj(") && sdl_dup_keys(&rd) {
                return (Ok(()), "dup-object-keys");
            }
            match a {
                Err(e) => (Err(format!("rejected ({}), but it is a type-system document", e.to_string().replace('\n', " "))), "ag-reject"),
                Ok(ad) => {
                    let x = sdl_normal(&rd);
                    let y = sdl_normal(&sdl_doc(&ad));
                    if x == y {
                        (Ok(()), "both-accept")
                    } else {
                        let sa = format!("{:#?}", x);
                        let sb = format!("{:#?}", y);
                        let diff = sa.lines().zip(sb.lines()).find(|(p, q)| p != q).map(|(p, q)| format!("expected `{}` got `{}`", p.trim(), q.trim())).unwrap_or_default();
                        (Err(format!("parsed tree differs from the denoted tree: {}", diff)), "tree-diff")
                    }
                }
            }
        }
    }
}

// ------------------------------------------------------------------ near-miss mutation

const SNIPPETS: [&str; 40] = [
    "01", "1.", "1e", ".5", "-", "query()", "[ Int ]", "...on", "\"\"\"", "\\uD800", "\\uDFFF", "extend", "&", "|", "= 1 @d", "@d = 1",
    "{", "}", "(", ")", "[", "]", ":", "!", "$", "@", "=", "...", "..", "\"", "\\", "#", "\n", "\r", ",", " ", "on", "0", "e", "\u{feff}",
];

/// `skip_f2`: leave out the snippet that constructs the open finding C13-F2 (excluded by construction)
pub fn mutate(s: &mut dyn Src, text: &str, skip_f2: bool) -> String {
    let mut cs: Vec<char> = text.chars().collect();
    let n = 1 + s.choose(2);
    for _ in 0..n {
        let len = cs.len();
        let at = s.choose(len + 1);
        match s.choose(6) {
            0 if len > 0 => {
                cs.remove(at.min(len - 1));
            }
            1 => {
                let mut snip = SNIPPETS[s.choose(SNIPPETS.len())];
                if skip_f2 && snip == "@d = 1" {
                    snip = "= 1 @d";
                }
                for (k, c) in snip.chars().enumerate() {
                    cs.insert((at + k).min(cs.len()), c);
                }
            }
            2 if len > 1 => {
                let i = at.min(len - 2);
                cs.swap(i, i + 1);
            }
            3 if len > 0 => {
                // duplicate a short span
                let i = at.min(len - 1);
                let l = 1 + s.choose(6.min(len - i));
                let span: Vec<char> = cs[i..i + l].to_vec();
                for (k, c) in span.into_iter().enumerate() {
                    cs.insert(i + l + k, c);
                }
            }
            4 if len > 0 => {
                // delete a short span
                let i = at.min(len - 1);
                let l = 1 + s.choose(4.min(len - i));
                cs.drain(i..i + l);
            }
            _ if len > 0 => {
                // remove the whitespace run at/after `at` (token merging: keyword boundaries, number lookahead)
                let mut i = at.min(len - 1);
                while i < cs.len() && !matches!(cs[i], ' ' | '\t' | ',' | '\n' | '\r') {
                    i += 1;
                }
                while i < cs.len() && matches!(cs[i], ' ' | '\t' | ',' | '\n' | '\r') {
                    cs.remove(i);
                }
            }
            _ => {}
        }
    }
    cs.into_iter().collect()
}

pub fn run(ctx: &mut Ctx) {
    ctx.rule = "executable and type-system documents printed from generated ASTs with random trivia (spaces, tabs, commas, BOM, LF/CRLF/CR, comments), \
                escapes and block strings must parse to the generating tree; near-miss character/snippet mutations are accepted iff the reference parser \
                (written from the Oct-2021 grammar, deviations: scalar-only escapes, nesting<=64) accepts, with equal trees. Non-trivial = contains a string escape, \
                an indented block string, a list type reference, or is a mutation on which the reference parser and the printer's intent differ (rejected near-miss); \
                distinct by text".into();
    ctx.assume("don't-care: raw control characters other than TAB/LF/CR in source text, and variable-width \\u{...} escapes (2021 edition and current draft disagree)");
    ctx.assume("outside the compared domain: documents without any operation, duplicate operation/fragment names and anonymous operations next to others (rejected by design at parse time; invalid anyway), \
                duplicate root operation types in one schema definition, integer literals outside i64/u64 and `-0`, float literals that overflow f64");
    ctx.assume("selection-set nesting: <=64 must be accepted, >=66 rejected, 65 is a boundary band with no demanded verdict");
    ctx.assume("positions are C14's subject");
    let ex = Excl::from_ctx(ctx);
    let f2 = ctx.open("C13-F2");
    let n = ctx.tier.pick(30_000, 1_000_000);
    let to_case = |text: String, r: Result<(), String>, cls: &str, prefix: &str| -> Case {
        if let Some(fid) = cls.strip_prefix("KNOWN:") {
            return Case::known(text, vec![fid.to_string()]).class(format!("{}known", prefix));
        }
        match r {
            Ok(()) => Case::pass(text).nontrivial(cls == "both-reject").class(format!("{}{}", prefix, cls)),
            Err(e) => Case::fail(text, e).class(format!("{}{}", prefix, cls)),
        }
    };

    // explicit regression / probe inputs
    for (i, (kind, text)) in REGRESSIONS.iter().enumerate() {
        let (r, cls) = if *kind == "exec" { judge_exec(text, f2) } else { judge_sdl(text) };
        let c = to_case(format!("{}: {}", kind, text), r, cls, "regression-");
        ctx.check_case("regressions", c.nontrivial(true), serde_json::json!({"index": i, "text": text}));
    }

    ctx.stream("exec-positive", n, 400, |s| {
        let p = gen_printed_exec(s, ex);
        // self-check of the harness: the reference parser must read the printer's output back to the same tree
        let rd = match parse_executable(&p.text, &Opts::default()) {
            Ok(d) => d,
            Err(e) => return Case::fail(p.text.clone(), format!("HARNESS self-check: reference parser rejects printer output: {:?}", e)),
        };
        if normal(&rd) != normal(&p.doc) {
            return Case::fail(p.text.clone(), format!("HARNESS self-check: reference parser tree differs from generator: {}", first_diff(&normal(&p.doc), &normal(&rd))));
        }
        if !numbers_in_domain(&p.doc) {
            return Case::discard("number-out-of-model");
        }
        let mut c = match parse_query(&p.text) {
            Err(e) => Case::fail(p.text.clone(), format!("valid document rejected: {}", e.to_string().replace('\n', " "))),
            Ok(ad) => {
                let x = normal(&p.doc);
                let y = normal(&agconv::doc(&ad));
                if x == y {
                    Case::pass(p.text.clone())
                } else {
                    Case::fail(p.text.clone(), format!("parsed tree differs from the generating tree: {}", first_diff(&x, &y)))
                }
            }
        };
        c.nontrivial = c.nontrivial || p.nontrivial;
        for cl in &p.classes {
            c.classes.push(cl.to_string());
        }
        c
    });

    ctx.stream("sdl-positive", n / 2, 400, |s| {
        let cfg = GenCfg::default();
        let d = gen_sdl_doc(s, &cfg, true);
        let mut p = Printer::new(style(s, ex));
        p.sdl(&d);
        let text = p.out.clone();
        let rd = match parse_type_system(&text, &Opts::default()) {
            Ok(d) => d,
            Err(e) => return Case::fail(text, format!("HARNESS self-check: reference parser rejects printer output: {:?}", e)),
        };
        if sdl_normal(&rd) != sdl_normal(&d) {
            return Case::fail(text, "HARNESS self-check: reference parser tree differs from generator".to_string());
        }
        let (r, cls) = judge_sdl(&text);
        let nt = p.n_escapes > 0 || p.n_block_indented > 0;
        match r {
            Ok(()) => Case::pass(text).nontrivial(nt).class(format!("sdl-{}", cls)),
            Err(e) => Case::fail(text, e).class(format!("sdl-{}", cls)),
        }
        .class_if(d.defs.iter().any(|x| matches!(x, SdlDef::Type(t) if t.extend)), "sdl-extension")
    });

    ctx.stream("exec-negative", n, 400, |s| {
        let p = gen_printed_exec(s, ex);
        let text = mutate(s, &p.text, f2);
        let (r, cls) = judge_exec(&text, f2);
        to_case(text, r, cls, "neg-")
    });

    ctx.stream("sdl-negative", n / 2, 400, |s| {
        let cfg = GenCfg::default();
        let d = gen_sdl_doc(s, &cfg, true);
        let printed = {
            let mut p = Printer::new(style(s, ex));
            p.sdl(&d);
            p.out
        };
        let text = mutate(s, &printed, f2);
        let (r, cls) = judge_sdl(&text);
        match r {
            Ok(()) => Case::pass(text).nontrivial(cls == "both-reject").class(format!("sdlneg-{}", cls)),
            Err(e) => Case::fail(text, e).class(format!("sdlneg-{}", cls)),
        }
    });
    ctx.floor("neg-both-reject", 1000);
    ctx.floor("neg-both-accept", 1000);
}

/// witnesses of the defects found while building this check (all repaired in /repo: they must stay repaired)
const REGRESSIONS: &[(&str, &str)] = &[
    ("exec", "query($a: [ Int ] ! = [1]) { f }"),
    ("exec", "query($a: Int = 1 @d) { f }"),
    ("exec", "query($a: Int @d = 1) { f }"),
    ("exec", "{ f(a: [01]) }"),
    ("exec", "{ f(a: \"\"\"x \\\"\"\" y\"\"\") }"),
    ("exec", "query () { f }"),
    ("exec", "queryFoo { f }"),
    ("exec", "{ f(a: [truex]) }"),
    ("exec", "{ ... on#c\n T { f } }"),
    ("exec", "fragmentX on T { f } { ...X }"),
    ("sdl", "extend interface I implements J"),
    ("sdl", "\"d\" schema { query: Q }"),
    ("sdl", "typeFoo { a: Int }"),
    ("exec", "{ f(a: [\"\"\"\"a\"\"]) }"),
    ("sdl", "\"\"\"\"a\"\" type T { a: Int }"),
];
