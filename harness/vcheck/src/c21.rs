//! C21 — secret arguments never appear in logged or traced query text.
//!
//! Schema S marks arguments and input-object fields secret at depths 0..3 (argument, Cred, Inner, Deep), under
//! object, interface and union parents. Generated documents put a unique sentinel into every scalar position;
//! a sentinel is secret iff the argument or any input field on its path is marked secret. A harness extension
//! calls `ExtensionContext::stringify_execute_doc` in its `parse_query` hook, the shipped `Logger` extension
//! writes into a `log::Log` sink; no secret sentinel may occur in either text.
use async_graphql::extensions::{Extension, ExtensionContext, ExtensionFactory, Logger, NextParseQuery};
use async_graphql::parser::types::ExecutableDocument;
use async_graphql::{Context, EmptySubscription, InputObject, Interface, Object, OneofObject, Request, Schema, ServerResult, Union, Variables};
use serde_json::{json, Map, Value as J};
use std::sync::{Arc, Mutex};
use vcore::{Case, Ctx, Src};

// ---------------------------------------------------------------------------------------------------------------
// schema S

#[derive(InputObject)]
struct Deep {
    tag: Option<String>,
    level: Option<i32>,
    #[graphql(secret)]
    key: Option<String>,
    #[graphql(secret)]
    pin: Option<i32>,
}
#[derive(InputObject)]
struct Inner {
    label: Option<String>,
    #[graphql(secret)]
    token: Option<String>,
    deep: Option<Deep>,
    deeps: Option<Vec<Deep>>,
}
#[derive(InputObject)]
struct Cred {
    user: Option<String>,
    #[graphql(secret)]
    password: Option<String>,
    inner: Option<Inner>,
    inners: Option<Vec<Inner>>,
    #[graphql(secret)]
    recovery: Option<Inner>,
}
#[derive(OneofObject)]
enum Login {
    Name(String),
    #[graphql(secret)]
    Token(String),
}

struct Account;
#[Object]
#[allow(unused_variables)]
impl Account {
    async fn id(&self) -> i32 {
        1
    }
    async fn verify(&self, _ctx: &Context<'_>, #[graphql(secret)] code: Option<String>, hint: Option<String>) -> bool {
        true
    }
    async fn update(&self, _ctx: &Context<'_>, cred: Option<Cred>) -> bool {
        true
    }
    async fn child(&self) -> Account {
        Account
    }
    async fn principal(&self) -> Principal {
        Principal::Robot(Robot)
    }
    async fn actor(&self) -> Actor {
        Actor::Account(Account)
    }
}
struct Robot;
#[Object]
#[allow(unused_variables)]
impl Robot {
    async fn id(&self) -> i32 {
        2
    }
    async fn verify(&self, _ctx: &Context<'_>, #[graphql(secret)] code: Option<String>, hint: Option<String>) -> bool {
        false
    }
    async fn update(&self, _ctx: &Context<'_>, cred: Option<Cred>) -> bool {
        false
    }
    async fn unlock(&self, #[graphql(secret)] key: Option<String>, slot: Option<i32>) -> bool {
        true
    }
    async fn owner(&self) -> Account {
        Account
    }
}
#[derive(Interface)]
#[graphql(
    field(name = "id", ty = "i32"),
    field(name = "verify", ty = "bool", arg(name = "code", ty = "Option<String>", secret), arg(name = "hint", ty = "Option<String>")),
    field(name = "update", ty = "bool", arg(name = "cred", ty = "Option<Cred>"))
)]
enum Principal {
    Account(Account),
    Robot(Robot),
}
#[derive(Union)]
enum Actor {
    Account(Account),
    Robot(Robot),
}
struct Query;
#[Object]
#[allow(unused_variables)]
impl Query {
    async fn login(&self, user: Option<String>, #[graphql(secret)] password: Option<String>) -> Account {
        Account
    }
    async fn auth(&self, cred: Option<Cred>) -> Account {
        Account
    }
    async fn batch(&self, creds: Option<Vec<Cred>>, note: Option<String>) -> i32 {
        creds.map(|c| c.len() as i32).unwrap_or(-1)
    }
    async fn vault(&self, #[graphql(secret)] cred: Option<Cred>, label: Option<String>) -> i32 {
        0
    }
    async fn pins(&self, #[graphql(secret)] pins: Option<Vec<String>>, label: Option<String>) -> i32 {
        0
    }
    async fn by(&self, login: Option<Login>) -> i32 {
        0
    }
    async fn account(&self) -> Account {
        Account
    }
    async fn principal(&self) -> Principal {
        Principal::Account(Account)
    }
    async fn actor(&self) -> Actor {
        Actor::Robot(Robot)
    }
}
struct Mutation;
#[Object]
#[allow(unused_variables)]
impl Mutation {
    async fn reset(&self, #[graphql(secret)] fresh: Option<String>, user: Option<String>) -> bool {
        true
    }
    async fn rotate(&self, cred: Option<Cred>) -> Account {
        Account
    }
}

// ---------------------------------------------------------------------------------------------------------------
// observation: harness extension + log sink

#[derive(Clone, Default)]
struct Tap(Arc<Mutex<Vec<String>>>);
impl ExtensionFactory for Tap {
    fn create(&self) -> Arc<dyn Extension> {
        Arc::new(TapExt(self.0.clone()))
    }
}
struct TapExt(Arc<Mutex<Vec<String>>>);
#[async_trait::async_trait]
impl Extension for TapExt {
    async fn parse_query(&self, ctx: &ExtensionContext<'_>, query: &str, variables: &Variables, next: NextParseQuery<'_>) -> ServerResult<ExecutableDocument> {
        let doc = next.run(ctx, query, variables).await?;
        self.0.lock().unwrap().push(ctx.stringify_execute_doc(&doc, variables));
        Ok(doc)
    }
}

struct Sink(Mutex<Vec<String>>);
static SINK: Sink = Sink(Mutex::new(Vec::new()));
impl log::Log for Sink {
    fn enabled(&self, _: &log::Metadata) -> bool {
        true
    }
    fn log(&self, record: &log::Record) {
        self.0.lock().unwrap().push(format!("{}", record.args()));
    }
    fn flush(&self) {}
}

// ---------------------------------------------------------------------------------------------------------------
// hand-written model of S

#[derive(Clone, Copy, PartialEq, Eq, Debug)]
enum PTy {
    Query,
    Mutation,
    Account,
    Robot,
    Principal,
    Actor,
}
impl PTy {
    fn name(self) -> &'static str {
        match self {
            PTy::Query => "Query",
            PTy::Mutation => "Mutation",
            PTy::Account => "Account",
            PTy::Robot => "Robot",
            PTy::Principal => "Principal",
            PTy::Actor => "Actor",
        }
    }
    fn conditions(self) -> &'static [PTy] {
        match self {
            PTy::Query => &[PTy::Query],
            PTy::Mutation => &[PTy::Mutation],
            PTy::Account => &[PTy::Account, PTy::Account, PTy::Principal, PTy::Actor],
            PTy::Robot => &[PTy::Robot, PTy::Robot, PTy::Principal, PTy::Actor],
            PTy::Principal | PTy::Actor => &[PTy::Account, PTy::Robot, PTy::Principal, PTy::Actor],
        }
    }
}
#[derive(Clone, Copy, PartialEq, Eq, Debug)]
enum InTy {
    Cred,
    Inner,
    Deep,
    Login,
}
impl InTy {
    fn name(self) -> &'static str {
        match self {
            InTy::Cred => "Cred",
            InTy::Inner => "Inner",
            InTy::Deep => "Deep",
            InTy::Login => "Login",
        }
    }
}
#[derive(Clone, Copy, PartialEq, Eq, Debug)]
enum ATy {
    Str,
    Int,
    In(InTy),
    ListStr,
    ListIn(InTy),
}
impl ATy {
    fn gql(self) -> String {
        match self {
            ATy::Str => "String".into(),
            ATy::Int => "Int".into(),
            ATy::In(t) => t.name().into(),
            ATy::ListStr => "[String!]".into(),
            ATy::ListIn(t) => format!("[{}!]", t.name()),
        }
    }
}
/// (name, secret, type)
type InputM = (&'static str, bool, ATy);
fn in_fields(t: InTy) -> &'static [InputM] {
    match t {
        InTy::Cred => &[("user", false, ATy::Str), ("password", true, ATy::Str), ("inner", false, ATy::In(InTy::Inner)), ("inners", false, ATy::ListIn(InTy::Inner)), ("recovery", true, ATy::In(InTy::Inner))],
        InTy::Inner => &[("label", false, ATy::Str), ("token", true, ATy::Str), ("deep", false, ATy::In(InTy::Deep)), ("deeps", false, ATy::ListIn(InTy::Deep))],
        InTy::Deep => &[("tag", false, ATy::Str), ("level", false, ATy::Int), ("key", true, ATy::Str), ("pin", true, ATy::Int)],
        InTy::Login => &[("name", false, ATy::Str), ("token", true, ATy::Str)],
    }
}
struct FieldM {
    name: &'static str,
    args: &'static [InputM],
    ret: Option<PTy>,
}
const VERIFY: &[InputM] = &[("code", true, ATy::Str), ("hint", false, ATy::Str)];
const UPDATE: &[InputM] = &[("cred", false, ATy::In(InTy::Cred))];
fn fields(t: PTy) -> Vec<FieldM> {
    let f = |name, args, ret| FieldM { name, args, ret };
    match t {
        PTy::Query => vec![
            f("login", &[("user", false, ATy::Str), ("password", true, ATy::Str)], Some(PTy::Account)),
            f("auth", UPDATE, Some(PTy::Account)),
            f("batch", &[("creds", false, ATy::ListIn(InTy::Cred)), ("note", false, ATy::Str)], None),
            f("vault", &[("cred", true, ATy::In(InTy::Cred)), ("label", false, ATy::Str)], None),
            f("pins", &[("pins", true, ATy::ListStr), ("label", false, ATy::Str)], None),
            f("by", &[("login", false, ATy::In(InTy::Login))], None),
            f("account", &[], Some(PTy::Account)),
            f("principal", &[], Some(PTy::Principal)),
            f("actor", &[], Some(PTy::Actor)),
        ],
        PTy::Mutation => vec![f("reset", &[("fresh", true, ATy::Str), ("user", false, ATy::Str)], None), f("rotate", UPDATE, Some(PTy::Account))],
        PTy::Account => vec![
            f("id", &[], None),
            f("verify", VERIFY, None),
            f("update", UPDATE, None),
            f("child", &[], Some(PTy::Account)),
            f("principal", &[], Some(PTy::Principal)),
            f("actor", &[], Some(PTy::Actor)),
        ],
        PTy::Robot => vec![
            f("id", &[], None),
            f("verify", VERIFY, None),
            f("update", UPDATE, None),
            f("unlock", &[("key", true, ATy::Str), ("slot", false, ATy::Int)], None),
            f("owner", &[], Some(PTy::Account)),
        ],
        PTy::Principal => vec![f("id", &[], None), f("verify", VERIFY, None), f("update", UPDATE, None)],
        PTy::Actor => vec![],
    }
}

// ---------------------------------------------------------------------------------------------------------------
// documents

#[derive(Clone, Debug)]
enum V {
    Str(String),
    Int(i64),
    Var(String),
    List(Vec<V>),
    Obj(Vec<(&'static str, V)>),
}
fn gql_string(s: &str) -> String {
    let mut o = String::from("\"");
    for c in s.chars() {
        match c {
            '"' => o.push_str("\\\""),
            '\\' => o.push_str("\\\\"),
            '\n' => o.push_str("\\n"),
            c => o.push(c),
        }
    }
    o.push('"');
    o
}
impl V {
    fn gql(&self) -> String {
        match self {
            V::Str(s) => gql_string(s),
            V::Int(i) => i.to_string(),
            V::Var(n) => format!("${}", n),
            V::List(l) => format!("[{}]", l.iter().map(|v| v.gql()).collect::<Vec<_>>().join(", ")),
            V::Obj(o) => format!("{{{}}}", o.iter().map(|(k, v)| format!("{}: {}", k, v.gql())).collect::<Vec<_>>().join(", ")),
        }
    }
    fn json(&self) -> J {
        match self {
            V::Str(s) => json!(s),
            V::Int(i) => json!(i),
            V::Var(_) => unreachable!("constant values contain no variables"),
            V::List(l) => J::Array(l.iter().map(|v| v.json()).collect()),
            V::Obj(o) => J::Object(o.iter().map(|(k, v)| (k.to_string(), v.json())).collect::<Map<_, _>>()),
        }
    }
}
enum Sel {
    Typename,
    Field { alias: Option<String>, name: &'static str, args: Vec<(&'static str, V)>, sub: Option<Vec<Sel>> },
    Inline { on: Option<PTy>, sub: Vec<Sel> },
    Spread(usize),
}
struct VarDef {
    name: String,
    ty: String,
    default: Option<V>,
    value: Option<V>,
}

/// where a sentinel sits
#[derive(Clone, Debug)]
struct Sent {
    needle: String,
    secret: bool,
    /// a list value lies between the argument and the first secret marker on the path (C21-F1)
    below_list: bool,
    /// the field carrying the argument lies under an inline fragment without type condition, with no typed
    /// inline fragment / fragment definition in between (C21-F2)
    untyped: bool,
    /// inside the default value of a variable that the request does not supply
    in_default: bool,
    /// the enclosing argument contains a variable that the request does not supply (printed as null as a whole)
    arg_unresolved: bool,
    via_var: bool,
    /// 0 = the argument itself is secret, 1..3 = secret input field at that nesting depth
    depth: usize,
    parent: PTy,
    in_fragment: bool,
    in_list: bool,
    decorated: bool,
    /// the field sits in a typed inline fragment inside a union-typed selection set
    behind_union: bool,
}

#[derive(Clone, Copy)]
struct Pos {
    secret: bool,
    list_above: bool,
    below_list: bool,
    untyped: bool,
    omit_secrets: bool,
    via_var: bool,
    in_default: bool,
    depth: usize,
    parent: PTy,
    in_fragment: bool,
    /// the position is a list element (its type is non-null)
    elem: bool,
}

#[derive(Clone, Copy)]
struct Cfg {
    /// secret input fields may sit below list values
    f1: bool,
    /// fields with secrets may sit under untyped inline fragments
    f2: bool,
    /// variable defaults of named operations may carry secrets
    f3: bool,
}

struct G<'a> {
    s: &'a mut dyn Src,
    cfg: Cfg,
    named: bool,
    sents: Vec<Sent>,
    vars: Vec<VarDef>,
    frags: Vec<(PTy, Vec<Sel>)>,
    aliases: usize,
}

const DECOR: [(&str, &str); 6] = [("", ""), ("", ""), ("q\"", "\"q"), ("b\\", "\\n"), ("\u{e9}", "\n\u{1f600}"), ("{$", "}#")];

impl<'a> G<'a> {
    fn sentinel(&mut self, pos: Pos, int: bool) -> V {
        let n = self.sents.len();
        let (needle, v, decorated) = if int {
            let k = 7_300_000 + n as i64;
            (k.to_string(), V::Int(k), false)
        } else {
            let core = format!("SENTINEL_{}_x", n);
            let d = DECOR[self.s.choose(DECOR.len())];
            (core.clone(), V::Str(format!("{}{}{}", d.0, core, d.1)), !d.0.is_empty())
        };
        self.sents.push(Sent {
            needle,
            secret: pos.secret,
            below_list: pos.secret && pos.below_list,
            untyped: pos.untyped,
            in_default: pos.in_default,
            arg_unresolved: false,
            via_var: pos.via_var,
            depth: pos.depth,
            parent: pos.parent,
            in_fragment: pos.in_fragment,
            in_list: pos.list_above,
            decorated,
            behind_union: false,
        });
        v
    }

    fn can_hold_secret(ty: ATy) -> bool {
        matches!(ty, ATy::In(_) | ATy::ListIn(_))
    }

    fn value(&mut self, ty: ATy, pos: Pos, allow_var: bool) -> V {
        if allow_var && self.s.chance(1, 4) {
            // supplied through a variable: either its value in the request, or (request silent) its default
            let mut as_default = self.s.chance(1, 3);
            let mut inner = Pos { via_var: true, elem: false, ..pos };
            if as_default && self.named && !self.cfg.f3 {
                // C21-F3 excluded by construction: defaults of named operations carry no secrets
                if pos.secret {
                    as_default = false;
                } else if Self::can_hold_secret(ty) {
                    inner.omit_secrets = true;
                }
            }
            inner.in_default = as_default;
            let v = self.value(ty, inner, false);
            let name = format!("v{}", self.vars.len());
            let (default, value) = if as_default { (Some(v), None) } else { (None, Some(v)) };
            self.vars.push(VarDef { name: name.clone(), ty: format!("{}{}", ty.gql(), if pos.elem { "!" } else { "" }), default, value });
            return V::Var(name);
        }
        match ty {
            ATy::Str => self.sentinel(pos, false),
            ATy::Int => self.sentinel(pos, true),
            ATy::ListStr => {
                let n = 1 + self.s.choose(3);
                let p = Pos { list_above: true, below_list: pos.below_list || !pos.secret, elem: true, ..pos };
                V::List((0..n).map(|_| self.value(ATy::Str, p, allow_var)).collect())
            }
            ATy::ListIn(t) => {
                if self.s.chance(1, 6) {
                    // a single item where a list is expected (input coercion)
                    return self.object(t, Pos { elem: false, ..pos }, allow_var);
                }
                let n = 1 + self.s.choose(2);
                let p = Pos { list_above: true, below_list: pos.below_list || !pos.secret, elem: true, ..pos };
                V::List((0..n).map(|_| self.value(ATy::In(t), p, allow_var)).collect())
            }
            ATy::In(t) => self.object(t, pos, allow_var),
        }
    }

    fn object(&mut self, t: InTy, pos: Pos, allow_var: bool) -> V {
        // secrets that would leak through an excluded construct are left out
        let omit = !pos.secret && (pos.omit_secrets || (pos.below_list && !self.cfg.f1));
        let usable: Vec<&InputM> = in_fields(t).iter().filter(|(_, sec, _)| !(omit && *sec)).collect();
        let chosen: Vec<&InputM> = if t == InTy::Login {
            vec![usable[self.s.choose(usable.len())]]
        } else {
            let mut c: Vec<&InputM> = vec![];
            for f in &usable {
                // nested objects get rarer with depth so that documents stay small
                let p = if matches!(f.2, ATy::Str | ATy::Int) { 2 } else { 3 + pos.depth as u32 };
                if self.s.chance(1, p) {
                    c.push(*f);
                }
            }
            if c.is_empty() {
                c.push(usable[self.s.choose(usable.len())]);
            }
            c
        };
        let mut out = vec![];
        for (name, sec, ty) in chosen {
            let mut p = Pos { depth: pos.depth + 1, elem: false, ..pos };
            if *sec && !pos.secret {
                p.secret = true;
            }
            let v = self.value(*ty, p, allow_var);
            out.push((*name, v));
        }
        V::Obj(out)
    }

    fn args(&mut self, f: &FieldM, parent: PTy, untyped: bool, in_fragment: bool) -> Vec<(&'static str, V)> {
        let omit = untyped && !self.cfg.f2;
        let mut out = vec![];
        for (name, sec, ty) in f.args {
            if (omit && *sec) || !self.s.chance(2, 3) {
                continue;
            }
            let start = self.sents.len();
            let vars_before = self.vars.len();
            let pos = Pos { secret: *sec, list_above: false, below_list: false, untyped, omit_secrets: omit, via_var: false, in_default: false, depth: 0, parent, in_fragment, elem: false };
            let v = self.value(*ty, pos, true);
            if self.vars[vars_before..].iter().any(|v| v.value.is_none()) {
                for s in &mut self.sents[start..] {
                    s.arg_unresolved = true;
                }
            }
            out.push((*name, v));
        }
        out
    }

    fn selset(&mut self, ty: PTy, depth: usize, untyped: bool, in_fragment: bool, fd: usize) -> Vec<Sel> {
        let n = 1 + self.s.choose(3);
        let mut out = vec![];
        for _ in 0..n {
            let k = if fd >= 2 { 0 } else { self.s.weighted(&[6, 2, 2, 1]) };
            match k {
                0 => {
                    let all = fields(ty);
                    let cands: Vec<&FieldM> = all.iter().filter(|f| f.ret.is_none() || depth > 0).collect();
                    if cands.is_empty() {
                        out.push(Sel::Typename);
                        continue;
                    }
                    // fields with arguments are preferred: they are what the property is about
                    let with_args: Vec<&FieldM> = cands.iter().copied().filter(|f| !f.args.is_empty()).collect();
                    let f = if !with_args.is_empty() && self.s.chance(2, 3) { with_args[self.s.choose(with_args.len())] } else { cands[self.s.choose(cands.len())] };
                    let args = self.args(f, ty, untyped, in_fragment);
                    let alias = if !args.is_empty() || self.s.chance(1, 6) {
                        self.aliases += 1;
                        Some(format!("a{}", self.aliases))
                    } else {
                        None
                    };
                    let sub = f.ret.map(|r| self.selset(r, depth - 1, untyped, in_fragment, 0));
                    out.push(Sel::Field { alias, name: f.name, args, sub });
                }
                1 => {
                    let conds = ty.conditions();
                    let on = conds[self.s.choose(conds.len())];
                    let start = self.sents.len();
                    let sub = self.selset(on, depth, false, in_fragment, fd + 1);
                    if ty == PTy::Actor {
                        for s in &mut self.sents[start..] {
                            s.behind_union = true;
                        }
                    }
                    out.push(Sel::Inline { on: Some(on), sub });
                }
                2 => out.push(Sel::Inline { on: None, sub: self.selset(ty, depth, true, in_fragment, fd + 1) }),
                _ => {
                    let conds = ty.conditions();
                    let reusable: Vec<usize> = (0..self.frags.len()).filter(|i| conds.contains(&self.frags[*i].0)).collect();
                    if !reusable.is_empty() && (self.frags.len() >= 3 || self.s.bool()) {
                        out.push(Sel::Spread(reusable[self.s.choose(reusable.len())]));
                    } else if self.frags.len() < 3 {
                        let on = conds[self.s.choose(conds.len())];
                        let sub = self.selset(on, depth.min(1), false, true, fd + 1);
                        self.frags.push((on, sub));
                        out.push(Sel::Spread(self.frags.len() - 1));
                    } else {
                        out.push(Sel::Typename);
                    }
                }
            }
        }
        out
    }
}

fn print_sels(out: &mut String, sels: &[Sel]) {
    out.push_str("{ ");
    for s in sels {
        match s {
            Sel::Typename => out.push_str("__typename "),
            Sel::Field { alias, name, args, sub } => {
                if let Some(a) = alias {
                    out.push_str(&format!("{}: ", a));
                }
                out.push_str(name);
                if !args.is_empty() {
                    out.push_str(&format!("({})", args.iter().map(|(k, v)| format!("{}: {}", k, v.gql())).collect::<Vec<_>>().join(", ")));
                }
                out.push(' ');
                if let Some(sub) = sub {
                    print_sels(out, sub);
                }
            }
            Sel::Inline { on, sub } => {
                out.push_str("... ");
                if let Some(t) = on {
                    out.push_str(&format!("on {} ", t.name()));
                }
                print_sels(out, sub);
            }
            Sel::Spread(i) => out.push_str(&format!("...F{} ", i)),
        }
    }
    out.push_str("} ");
}

struct Generated {
    query: String,
    variables: J,
    sents: Vec<Sent>,
    named: bool,
}

fn gen(s: &mut dyn Src, cfg: Cfg) -> Generated {
    let named = s.bool();
    let mutation = s.chance(1, 6);
    let mut g = G { s, cfg, named, sents: vec![], vars: vec![], frags: vec![], aliases: 0 };
    let depth = 1 + g.s.choose(3);
    let root = if mutation { PTy::Mutation } else { PTy::Query };
    let sels = g.selset(root, depth, false, false, 0);
    let mut q = String::new();
    if named || mutation || !g.vars.is_empty() {
        q.push_str(if mutation { "mutation" } else { "query" });
        if named {
            q.push_str(" Op");
        }
        if !g.vars.is_empty() {
            let defs: Vec<String> = g.vars.iter().map(|v| format!("${}: {}{}", v.name, v.ty, v.default.as_ref().map(|d| format!(" = {}", d.gql())).unwrap_or_default())).collect();
            q.push_str(&format!("({})", defs.join(", ")));
        }
        q.push(' ');
    }
    print_sels(&mut q, &sels);
    for (i, (on, sub)) in g.frags.iter().enumerate() {
        q.push_str(&format!("fragment F{} on {} ", i, on.name()));
        print_sels(&mut q, sub);
    }
    let mut vars = Map::new();
    for v in &g.vars {
        if let Some(val) = &v.value {
            vars.insert(v.name.clone(), val.json());
        }
    }
    Generated { query: q.trim_end().to_string(), variables: J::Object(vars), sents: g.sents, named }
}

/// does `text` show the sentinel, raw or in an escaped spelling (\uXXXX, backslash escapes)?
fn shows(text: &str, unescaped: &str, needle: &str) -> bool {
    text.contains(needle) || unescaped.contains(needle)
}
fn unescape(text: &str) -> String {
    let cs: Vec<char> = text.chars().collect();
    let mut o = String::new();
    let mut i = 0;
    while i < cs.len() {
        if cs[i] == '\\' && i + 1 < cs.len() {
            if cs[i + 1] == 'u' && i + 5 < cs.len() {
                let hex: String = cs[i + 2..i + 6].iter().collect();
                if let Some(c) = u32::from_str_radix(&hex, 16).ok().and_then(char::from_u32) {
                    o.push(c);
                    i += 6;
                    continue;
                }
            }
            i += 1;
            continue;
        }
        o.push(cs[i]);
        i += 1;
    }
    o
}

struct S {
    schema: Schema<Query, Mutation, EmptySubscription>,
    tap: Tap,
    open: [bool; 3],
}

fn run_case(k: &S, g: &Generated) -> Case {
    k.tap.0.lock().unwrap().clear();
    SINK.0.lock().unwrap().clear();
    let req = Request::new(g.query.clone()).variables(Variables::from_json(g.variables.clone()));
    let resp = vcore::det::block_on(k.schema.execute(req));
    let rendered = format!("{}  variables={}", g.query, g.variables);
    if !resp.errors.is_empty() {
        return Case::fail(rendered, format!("harness: generated request was rejected: {:?}", resp.errors.iter().map(|e| &e.message).collect::<Vec<_>>()));
    }
    let tapped = k.tap.0.lock().unwrap().clone();
    let logged = SINK.0.lock().unwrap().clone();
    if tapped.len() != 1 || logged.len() != 1 || !logged[0].starts_with("[Execute] ") {
        return Case::fail(rendered, format!("harness: expected one tapped text and one [Execute] log line, got {:?} / {:?}", tapped, logged));
    }
    let texts = [tapped[0].clone(), logged[0].clone()];
    let unesc: Vec<String> = texts.iter().map(|t| unescape(t)).collect();
    let mut leaked = vec![];
    let mut predicted = vec![];
    let mut used: [bool; 3] = [false; 3];
    let (mut visible, mut missing) = (0, 0);
    for s in &g.sents {
        let shown = (0..2).any(|i| shows(&texts[i], &unesc[i], &s.needle));
        if s.secret {
            // quirks of the open findings: which secret sentinels they print
            let q = if s.in_default {
                [false, false, g.named]
            } else if s.arg_unresolved {
                [false, false, false]
            } else {
                [s.below_list, s.untyped, false]
            };
            let p = (0..3).any(|i| q[i] && k.open[i]);
            if shown {
                leaked.push(s.needle.clone());
            }
            if p {
                predicted.push(s.needle.clone());
                if shown {
                    for i in 0..3 {
                        used[i] |= q[i] && k.open[i];
                    }
                }
            }
        } else if !s.arg_unresolved && (!s.in_default || g.named) {
            if shown {
                visible += 1;
            } else {
                missing += 1;
            }
        }
    }
    let rendered = format!(
        "{}  printed={}  secret-sentinels={:?} leaked={:?}",
        rendered,
        texts[0],
        g.sents.iter().filter(|s| s.secret).map(|s| s.needle.as_str()).collect::<Vec<_>>(),
        leaked
    );
    let sec: Vec<&Sent> = g.sents.iter().filter(|s| s.secret).collect();
    let cls = |c: Case| {
        let any = |f: &dyn Fn(&Sent) -> bool| sec.iter().any(|s| f(s));
        c.nontrivial(any(&|s| s.via_var || s.depth >= 2 || s.in_fragment || s.in_list || s.untyped || s.in_default || s.parent == PTy::Principal))
            .class_if(!sec.is_empty(), "has-secret")
            .class_if(any(&|s| !s.via_var && s.depth == 0), "secret-literal-argument")
            .class_if(any(&|s| s.via_var && !s.in_default), "secret-in-variable-value")
            .class_if(any(&|s| s.in_default), "secret-in-variable-default")
            .class_if(any(&|s| s.depth == 1), "secret-input-field-depth1")
            .class_if(any(&|s| s.depth == 2), "secret-input-field-depth2")
            .class_if(any(&|s| s.depth >= 3), "secret-input-field-depth3")
            .class_if(any(&|s| s.in_list), "secret-in-list")
            .class_if(any(&|s| s.below_list), "secret-field-below-list")
            .class_if(any(&|s| s.untyped), "secret-under-untyped-inline")
            .class_if(any(&|s| s.in_fragment), "secret-in-named-fragment")
            .class_if(any(&|s| s.parent == PTy::Principal), "secret-under-interface-parent")
            .class_if(any(&|s| matches!(s.parent, PTy::Account | PTy::Robot)), "secret-under-object-parent")
            .class_if(any(&|s| s.behind_union), "secret-behind-union-field")
            .class_if(any(&|s| s.parent == PTy::Mutation), "secret-in-mutation")
            .class_if(any(&|s| s.decorated), "secret-with-escapes")
            .class_if(visible > 0 && missing == 0, "nonsecret-sentinels-visible")
            .class_if(missing > 0, "nonsecret-sentinel-missing")
    };
    if leaked.is_empty() {
        return cls(Case::pass(rendered));
    }
    if leaked == predicted {
        let ids: Vec<String> = (0..3).filter(|i| used[*i]).map(|i| format!("C21-F{}", i + 1)).collect();
        return cls(Case::known(rendered, ids));
    }
    cls(Case::fail(rendered, format!("secret sentinels printed in the logged/stringified text: {:?} (open findings predict {:?})", leaked, predicted)))
}

pub fn run(ctx: &mut Ctx) {
    ctx.rule = "type-directed random operations (query/mutation, named or anonymous, 1..3 levels, aliases, typed/untyped inline fragments, named \
                fragments) over schema S; every scalar argument position carries a unique sentinel (strings SENTINEL_<n>_x with optional \
                quote/backslash/newline/non-ASCII decoration, ints 7300000+n), supplied as literal, variable value, or default of a variable the \
                request omits; non-trivial = some secret sentinel is supplied through a variable, sits at input depth >= 2, in a list, in a named \
                fragment, under an untyped inline fragment, in a default, or under an interface parent; distinct by query + variables"
        .into();
    ctx.assume("a value is secret iff the argument or an input-object field on its path is marked secret (a secret argument hides everything below it)");
    ctx.assume("a variable default counts as 'the value of the argument' only when the request does not supply the variable; defaults are generated only for omitted variables");
    ctx.assume("only documents that validate and execute are generated (the text is produced in the parse_query hook, before validation)");
    ctx.assume("non-secret sentinels need not be printed (the statement does not say so); their visibility is measured as a non-vacuity class with a floor");
    ctx.assume("directive arguments carry no secrets (the printer drops directives)");
    let _ = log::set_logger(&SINK);
    log::set_max_level(log::LevelFilter::Info);
    let tap = Tap::default();
    let schema = Schema::build(Query, Mutation, EmptySubscription).extension(tap.clone()).extension(Logger).finish();
    let open = [ctx.open("C21-F1"), ctx.open("C21-F2"), ctx.open("C21-F3")];
    let k = S { schema, tap, open };

    // explicit witnesses (regressions for the three findings and for the positions the unit test covers)
    let lit = |q: &str, vars: J, sents: Vec<(&str, bool, [bool; 3])>, named: bool| Generated {
        query: q.to_string(),
        variables: vars,
        named,
        sents: sents
            .into_iter()
            .map(|(needle, secret, q)| Sent {
                needle: needle.to_string(),
                secret,
                below_list: q[0],
                untyped: q[1],
                in_default: q[2],
                arg_unresolved: q[2],
                via_var: false,
                depth: 0,
                parent: PTy::Query,
                in_fragment: false,
                in_list: q[0],
                decorated: false,
                behind_union: false,
            })
            .collect(),
    };
    let no = [false; 3];
    let witnesses = vec![
        lit("{ a: login(user: \"SENTINEL_0_x\", password: \"SENTINEL_1_x\") { id } }", json!({}), vec![("SENTINEL_0_x", false, no), ("SENTINEL_1_x", true, no)], false),
        lit(
            "query Op($v0: Cred) { a: auth(cred: $v0) { id } }",
            json!({"v0": {"user": "SENTINEL_0_x", "password": "SENTINEL_1_x", "inner": {"token": "SENTINEL_2_x", "deep": {"pin": 7300003}}}}),
            vec![("SENTINEL_0_x", false, no), ("SENTINEL_1_x", true, no), ("SENTINEL_2_x", true, no), ("7300003", true, no)],
            true,
        ),
        lit("{ principal { ... on Principal { a: verify(code: \"SENTINEL_0_x\", hint: \"SENTINEL_1_x\") } ...F0 } } fragment F0 on Robot { b: unlock(key: \"SENTINEL_2_x\") }", json!({}), vec![("SENTINEL_0_x", true, no), ("SENTINEL_1_x", false, no), ("SENTINEL_2_x", true, no)], false),
        // C21-F1: secret field of an input object inside a list
        lit("{ a: batch(creds: [{user: \"SENTINEL_0_x\", password: \"SENTINEL_1_x\"}]) }", json!({}), vec![("SENTINEL_0_x", false, no), ("SENTINEL_1_x", true, [true, false, false])], false),
        lit("{ a: auth(cred: {inners: [{token: \"SENTINEL_0_x\"}]}) { id } }", json!({}), vec![("SENTINEL_0_x", true, [true, false, false])], false),
        // C21-F2: inline fragment without type condition
        lit("{ ... { a: login(password: \"SENTINEL_0_x\") { id } } }", json!({}), vec![("SENTINEL_0_x", true, [false, true, false])], false),
        lit("{ account { ... { a: update(cred: {password: \"SENTINEL_0_x\"}) } } }", json!({}), vec![("SENTINEL_0_x", true, [false, true, false])], false),
        // C21-F3: default value of a variable used at a secret position (named operation); anonymous operations print no definitions
        lit("query Op($v0: String = \"SENTINEL_0_x\") { a: login(password: $v0) { id } }", json!({}), vec![("SENTINEL_0_x", true, [false, false, true])], true),
        lit("query ($v0: String = \"SENTINEL_0_x\") { a: login(password: $v0) { id } }", json!({}), vec![("SENTINEL_0_x", true, [false, false, true])], false),
    ];
    for (n, w) in witnesses.iter().enumerate() {
        ctx.check_case("witness", run_case(&k, w), json!({"witness": n}));
    }

    let n = ctx.tier.pick(100_000, 2_500_000);
    for (i, id) in ["C21-F1", "C21-F2", "C21-F3"].iter().enumerate() {
        if open[i] {
            ctx.excluded(id);
        }
    }
    for (c, m) in [
        ("has-secret", 40000),
        ("nonsecret-sentinels-visible", 30000),
        ("secret-literal-argument", 10000),
        ("secret-in-variable-value", 6000),
        ("secret-input-field-depth1", 6000),
        ("secret-input-field-depth2", 3000),
        ("secret-input-field-depth3", 1000),
        ("secret-in-list", 2000),
        ("secret-in-named-fragment", 3000),
        ("secret-under-interface-parent", 1600),
        ("secret-under-object-parent", 6000),
        ("secret-behind-union-field", 1000),
        ("secret-in-mutation", 2000),
        ("secret-with-escapes", 10000),
        ("secret-in-variable-default", 600),
    ] {
        ctx.floor(c, m);
    }
    // main search: the constructs of the open findings are switched off in the generator
    let main = Cfg { f1: !open[0], f2: !open[1], f3: !open[2] };
    ctx.stream("documents", n, 260, |s| run_case(&k, &gen(s, main)));
    // probes: one construct each switched on again
    for (i, name) in ["probe-list-of-input-objects", "probe-untyped-inline-fragment", "probe-variable-default"].iter().enumerate() {
        let cfg = Cfg { f1: main.f1 || i == 0, f2: main.f2 || i == 1, f3: main.f3 || i == 2 };
        ctx.stream(name, n / 10, 260, |s| run_case(&k, &gen(s, cfg)).class(*name));
    }
}
