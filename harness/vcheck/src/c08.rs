//! C08 — not built yet.
use vcore::Ctx;

pub fn run(_ctx: &mut Ctx) {
    eprintln!("C08: check not built yet");
    std::process::exit(2);
}
